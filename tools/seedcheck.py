#!/usr/bin/env python3
"""seedcheck.py <PID> <mutdir> <seed-name> [--checks C01,C08]
Confirms a sub-agent's seeded defect in its own scratch worktree (demo fails with / passes without the change,
suite still passes), then applies it to /repo, runs the registered quick checks, undoes it, and stores the
case under /verif/seeded/<seed-name>/ with what was run and what each check said."""
import sys, os, json, subprocess, shutil, re, glob
pid, mutdir, name = sys.argv[1], sys.argv[2].rstrip("/"), sys.argv[3]
checks = [pid]
CONFIRM_ONLY = "--confirm-only" in sys.argv      # phase 1 (parallelisable): demo/suite in the scratch worktree only
DETECT_ONLY = "--detect-only" in sys.argv        # phase 2 (serial): apply to /repo, run the checks, undo
if "--checks" in sys.argv:
    checks = sys.argv[sys.argv.index("--checks") + 1].split(",")
wt = os.path.dirname(os.path.dirname(mutdir))
env = dict(os.environ, GOFLAGS="-mod=mod", GOPROXY="off", GOSUMDB="off", VERIF_MAX_VIOL="2")
def sh(cmd, cwd, timeout=1200):
    p = subprocess.run(cmd, shell=True, cwd=cwd, env=env, stdout=subprocess.PIPE, stderr=subprocess.STDOUT, text=True, timeout=timeout)
    return p.returncode, p.stdout
meta = json.load(open(os.path.join(mutdir, "meta.json")))
patch = os.path.join(mutdir, "patch.diff")
loc = meta.get("demo_location", "") or meta.get("demo_dir", "")
m = re.search(r"([A-Za-z0-9_./-]+/)", loc)
demos = [f for f in glob.glob(os.path.join(mutdir, "*_test.go"))]
report = {"property": pid, "summary": meta.get("summary"), "needs": meta.get("what_it_needs_to_manifest") or meta.get("needs"), "files_changed": meta.get("files_changed")}
if DETECT_ONLY:
    cj = json.load(open(os.path.join(mutdir, "confirm.json")))
    report.update(cj)
    where = cj["demo_dir"]
def place(where):
    placed = []
    for d in demos:
        dst = os.path.join(wt, where, "zz_seed_" + os.path.basename(d))
        shutil.copy(d, dst); placed.append(dst)
    return placed
def unplace(pl):
    for p in pl: os.remove(p)
where = report.get("demo_dir") if DETECT_ONLY else None
for cand in ([] if DETECT_ONLY else re.findall(r"[A-Za-z0-9_]+(?:/[A-Za-z0-9_]+)+", loc)):
    if os.path.isdir(os.path.join(wt, cand)):
        where = cand; break
if where is None:
    print("cannot determine demo location from", loc); sys.exit(3)
report["demo_dir"] = where
if not DETECT_ONLY:
    sh("git checkout -- .", wt)
    pl = place(where)
    rc0, out0 = sh("go test -vet=off -count=1 ./%s/ 2>&1 | tail -15" % where, wt)
    ok_without = "FAIL" not in out0 and "ok" in out0
    rc, o = sh("git apply %s" % patch, wt)
    if rc != 0:
        print("patch does not apply", o); sys.exit(3)
    rc1, out1 = sh("go test -vet=off -count=1 ./%s/ 2>&1 | tail -15" % where, wt)
    fails_with = "FAIL" in out1
    unplace(pl)
    rcb, outb = sh("go build ./... 2>&1 | tail -5", wt)
    rcs, outs = sh("go test -vet=off -count=1 ./... 2>&1 | grep -v 'no test files' | tail -30", wt)
    suite_ok = "FAIL" not in outs and rcb == 0
    sh("git checkout -- .", wt)
    report.update({"demo_passes_without_change": ok_without, "demo_fails_with_change": fails_with, "suite_passes_with_change": suite_ok})
    print("confirm:", ok_without, fails_with, suite_ok)
    if not (ok_without and fails_with and suite_ok):
        print(out0[-800:], out1[-800:], outs[-800:])
        print("NOT CONFIRMED"); sys.exit(4)
    json.dump({k: report[k] for k in ("demo_dir", "demo_passes_without_change", "demo_fails_with_change", "suite_passes_with_change")},
              open(os.path.join(mutdir, "confirm.json"), "w"))
if CONFIRM_ONLY:
    print("CONFIRMED", name); sys.exit(0)
# run the checks against /repo with the change applied
assert sh("git status --porcelain", "/repo")[1].strip() == "", "/repo not clean"
rc, o = sh("git apply %s" % patch, "/repo")
assert rc == 0, o
results = {}
try:
    for c in checks:
        rc, o = sh("./vcheck %s --tier quick 2>&1" % c, "/verif", timeout=3000)
        rule = re.findall(r"rule (\S+) violated", o)
        results[c] = {"exit": rc, "rules": sorted(set(rule)), "tail": o[-600:]}
        print(c, "exit", rc, sorted(set(rule)))
finally:
    sh("git checkout -- .", "/repo")
report["checks"] = results
report["detected"] = any(v["exit"] == 1 for v in results.values())
dst = os.path.join("/verif/seeded", name)
os.makedirs(dst, exist_ok=True)
shutil.copy(patch, os.path.join(dst, "patch.diff"))
for d in demos: shutil.copy(d, dst)
report["ran"] = ["demo: go test ./%s/ with and without patch in scratch worktree" % where, "suite: go test -vet=off -count=1 ./... with patch",
                 "checks: git -C /repo apply patch.diff; ./vcheck <id> --tier quick; git -C /repo checkout -- ."]
json.dump(report, open(os.path.join(dst, "meta.json"), "w"), indent=1)
print("DETECTED" if report["detected"] else "MISSED", name)
