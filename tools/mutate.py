#!/usr/bin/env python3
"""mutate.py <PID> [--n 20] [--seed 1] [--workers 4] [--files a.go,b.go]
Mutation campaign against one property's quick check, on scratch copies of the repository (never on /repo):
single-line syntactic mutants of the property's anchor files that still compile and still pass the repository's own
tests of the mutated package are run through `VERIF_REPO=<copy> ./vcheck <PID> --tier quick`. Prints one line per
mutant (KILLED exit 1 / SURVIVED exit 0 / ERROR exit 2 / discarded) and writes out/mutation/<PID>.json.
Survivors are for manual triage (equivalent mutant, outside the property, or a gap in the check)."""
import sys, os, re, json, random, subprocess, shutil, concurrent.futures, time

VERIF = os.path.dirname(os.path.dirname(os.path.abspath(__file__)))
ENV = dict(os.environ, GOFLAGS="-mod=mod", GOPROXY="off", GOSUMDB="off")
pid = sys.argv[1]
arg = lambda k, d: (sys.argv[sys.argv.index(k) + 1] if k in sys.argv else d)
N, SEED, WORKERS = int(arg("--n", 20)), int(arg("--seed", 1)), int(arg("--workers", 4))
FAMILY = {"C01": "C02 C08 C07 C09", "C02": "C01 C08 C07 C09", "C07": "C08 C01 C02 C09 C17", "C08": "C01 C02 C07 C09 C05 C06", "C09": "C01 C02 C07 C08 C17",
          "C05": "C08 C06 C16", "C06": "C05 C08 C16 C17", "C16": "C05 C06 C08", "C10": "C04 C11", "C11": "C04 C10", "C04": "C10 C11 C03 C13",
          "C03": "C12 C13 C14 C04", "C12": "C03 C13 C04", "C13": "C03 C12 C04", "C14": "C03 C13", "C18": "C19", "C19": "C18", "C15": "", "C17": "C06 C05 C09", "C20": "C15"}
OTHERS = FAMILY.get(pid, "").split() if "--family" in sys.argv else []
props = {json.loads(l)["id"]: json.loads(l) for l in open(os.path.join(VERIF, "properties.jsonl"))}
files = arg("--files", None)
files = files.split(",") if files else [f for f in props[pid]["anchors"]["files"] if f.endswith(".go")]
files = [f for f in files if os.path.exists(os.path.join("/repo", f)) and not f.endswith("_test.go") and "zz_generated" not in f]

OPS = [
    (r" <= ", " < "), (r" < ", " <= "), (r" >= ", " > "), (r" > ", " >= "), (r" == ", " != "), (r" != ", " == "),
    (r" && ", " || "), (r" \|\| ", " && "), (r"\+ 1\b", "+ 0"), (r"- 1\b", "- 0"), (r" \+ ", " - "), (r" - ", " + "),
    (r"\btrue\b", "false"), (r"\bfalse\b", "true"), (r"\+\+$", "--"), (r"\bcontinue$", "break"), (r"\bbreak$", "continue"),
]
SKIP = re.compile(r"^\s*(//|\*|/\*)|core\.Log|log\.|verifGate|Errorf|fmt\.|panic\(|^\s*import|^\s*package|^\s*\)|`")
DELETABLE = re.compile(r"^\s*(delete\(.*\)|[A-Za-z_][\w\.\[\]\*]*(\+\+|--)|[A-Za-z_][\w\.\[\]\*]* [-+|]?= [^{]*[^{,(]|[A-Za-z_][\w\.]*\([^{}]*\))$")


def candidates():
    out = []
    for f in files:
        lines = open(os.path.join("/repo", f)).read().split("\n")
        infunc = False
        for i, ln in enumerate(lines):
            if ln.startswith("func "):
                infunc = True
            if not infunc or SKIP.search(ln) or not ln.strip():
                continue
            for (pat, rep) in OPS:
                for m in re.finditer(pat, ln):
                    out.append((f, i, ln[:m.start()] + rep + ln[m.end():], "%s -> %s" % (pat.strip(), rep.strip())))
            if DELETABLE.match(ln) and not ln.strip().startswith(("return", "defer", "go ", "var ", "if ", "for ", "case ", "}")) and ":=" not in ln:
                out.append((f, i, re.match(r"^\s*", ln).group(0) + "// (deleted)", "delete statement"))
    return out


def sh(cmd, cwd, timeout):
    try:
        p = subprocess.run(cmd, shell=True, cwd=cwd, env=ENV, stdout=subprocess.PIPE, stderr=subprocess.STDOUT, text=True, timeout=timeout)
        return p.returncode, p.stdout
    except subprocess.TimeoutExpired:
        return 124, "timeout"


def run_one(job):
    k, (f, i, newline, what) = job
    wt = "/tmp/mut/w%d" % (k % WORKERS)
    sh("git checkout -q -- .", wt, 60)
    path = os.path.join(wt, f)
    lines = open(path).read().split("\n")
    old = lines[i]
    lines[i] = newline
    open(path, "w").write("\n".join(lines))
    rec = {"file": f, "line": i + 1, "old": old.strip(), "new": newline.strip(), "op": what}
    pkg = "./" + os.path.dirname(f)
    rc, out = sh("go build ./... && go vet %s 2>&1 | grep -v '^#' | grep -c 'declared and not used\\|imported and not used'" % pkg, wt, 300)
    rc, out = sh("go build ./...", wt, 300)
    if rc != 0:
        rec["result"] = "discarded: does not compile"
        return rec
    rc, out = sh("go test -vet=off -count=1 %s" % pkg, wt, 600)
    if rc != 0:
        rec["result"] = "discarded: the package's own tests fail"
        return rec
    t0 = time.time()
    rc, out = sh("VERIF_REPO=%s ./vcheck %s --tier quick" % (wt, pid), VERIF, 2400)
    rules = sorted(set(re.findall(r"rules? ((?:[ITPR][A-Za-z]*_[A-Za-z0-9_]+ ?)+) violated", out)))
    rec.update({"exit": rc, "wall": round(time.time() - t0), "rules": rules,
                "result": {0: "SURVIVED", 1: "KILLED"}.get(rc, "ERROR"), "tail": out[-400:] if rc not in (0, 1) else ""})
    if rc == 0:
        for o in OTHERS:   # the other properties of the family
            rc2, out2 = sh("VERIF_REPO=%s ./vcheck %s --tier quick" % (wt, o), VERIF, 2400)
            if rc2 == 1:
                rec["result"], rec["killed_by"] = "KILLED", o
                rec["rules"] = [o + ":"] + sorted(set(re.findall(r"rules? ((?:[ITPR][A-Za-z]*_[A-Za-z0-9_]+ ?)+) violated", out2)))
                break
    return rec


def main():
    cands = candidates()
    random.Random(SEED).shuffle(cands)
    # spread over files: round-robin by file
    byf = {}
    for c in cands:
        byf.setdefault(c[0], []).append(c)
    picked = []
    while len(picked) < N * 3 and any(byf.values()):
        for f in list(byf):
            if byf[f]:
                picked.append(byf[f].pop())
    os.makedirs("/tmp/mut", exist_ok=True)
    for w in range(WORKERS):
        wt = "/tmp/mut/w%d" % w
        if not os.path.isdir(wt):
            sh("git -C /repo worktree add --detach %s HEAD -q" % wt, "/", 120)
        else:
            sh("git checkout -q --detach $(git -C /repo rev-parse HEAD) && git checkout -q -- .", wt, 120)
    results, done = [], 0
    with concurrent.futures.ThreadPoolExecutor(WORKERS) as ex:
        # a worker's worktree is its own: jobs are assigned by index modulo WORKERS, so run them in waves
        idx = 0
        while done < N and idx < len(picked):
            wave = [(idx + j, picked[idx + j]) for j in range(WORKERS) if idx + j < len(picked)]
            idx += WORKERS
            for rec in ex.map(run_one, wave):
                if rec["result"].startswith("discarded"):
                    continue
                done += 1
                results.append(rec)
                print("%-8s %s:%d  %s   [%s]  %s" % (rec["result"], rec["file"], rec["line"], rec["op"], rec["new"][:70], " ".join(rec.get("rules", []))[:60]), flush=True)
    os.makedirs(os.path.join(VERIF, "out", "mutation"), exist_ok=True)
    json.dump(results, open(os.path.join(VERIF, "out", "mutation", "%s.json" % pid), "w"), indent=1)
    k = sum(1 for r in results if r["result"] == "KILLED")
    print("SUMMARY %s: %d mutants, %d killed, %d survived, %d error" % (pid, len(results), k, sum(1 for r in results if r["result"] == "SURVIVED"),
                                                                       sum(1 for r in results if r["result"] == "ERROR")))


main()
