module genreg

go 1.23
