#!/usr/bin/env python3
"""Regenerates MANIFEST.json from the table below (single source of truth for what is claimed)."""
import json, os, subprocess
V = os.path.dirname(os.path.dirname(os.path.abspath(__file__)))
props = [json.loads(l) for l in open(os.path.join(V, "properties.jsonl"))]

TB = "TLC 1.8.0 + JVM; Go 1.26.8 runtime and testing/synctest; the verif hooks' projections of internal state; the harness' own packet builders"
CLAIMED = {
 "C01": dict(engine="forwarder", design="4 C01", technique="TLA+ spec (Forwarder) model-checked by TLC; traces of the real fw.Thread validated against it (RD_C01 bag rule, tokens, cache-hit fan-out)",
   text="TLC exhausts all behaviours of the Forwarder module up to a depth bound over a small universe with rule P_C01 as an action property; TLC-generated and seeded schedules are executed on the real forwarding thread and every recorded step is checked by TLC against the same rule in the model state reached by following the log. Right level: the property quantifies over histories; the model is the oracle for what is pending when a Data arrives.",
   note="Bounded: 5 faces, 5+8 names, nonces 7..9, 500 ms ticks, direct mode (one pipeline call per action). " + TB),
 "C02": dict(engine="forwarder", design="4 C02", technique="TLA+ spec (Forwarder) model-checked by TLC; real-thread traces validated (RI_C02: next-hop set, cost order, suppression, loop/dead-nonce/hop-limit drops, wire hop limit)",
   text="Same pipeline as C01 with rule P_C02 (which faces an Interest may/must be emitted on, given FIB, strategy, PIT and dead-nonce state of the model) plus wire-level hop-limit and once-per-face rules.",
   note="Dead-nonce membership enters as a logged read-only observation; equal-time boundaries allow both outcomes. " + TB),
 "C07": dict(engine="forwarder", design="4 C07", technique="TLA+ spec (Forwarder CS/LRU part) model-checked by TLC; real-thread traces validated (candidate set, freshness, capacity, LRU order, byte identity)",
   text="The model keeps its own cache with LRU order and freshness deadlines; each cache answer of the real code must be a permitted candidate, carry the bytes last inserted, and the cache content after each Data must equal what capacity+LRU prescribe.",
   note="Payload identity is by injected wire id + byte comparison in the harness. " + TB),
 "C08": dict(engine="forwarder", design="4 C08", technique="TLA+ spec (Forwarder) model-checked by TLC; real-thread traces validated (expiry scheduling, reaper set, sizes, dead branches, dead-nonce expiry, quiescence)",
   text="Invariants and action properties on every step of real executions: every entry scheduled, reaper removes exactly the overdue entries, reported sizes are true sizes, name tree = prefixes of live entries, dead nonces expire, and after a quiescent tail nothing but cached Data remains.",
   note="Includes a tables stage: after every RIB/FIB operation the RIB tree, FIB tree and hash-table real/virtual tables must hold exactly the nodes their live entries require (I_C08tbl). " + TB),
 "C09": dict(engine="forwarder", design="4 C09", technique="TLA+ spec (Forwarder) model-checked by TLC; real-thread traces validated (scope rule on observed emissions, unchanged tables on refusal)",
   text="Scope invariant evaluated on the observed emissions of the real thread (independent of model state) for every FIB/strategy/cache/token/NextHopFaceId history, plus 'refused packet changes no table'.",
   note=TB),
 "C05": dict(engine="tables", design="4 C05", technique="TLA+ spec (Tables: abstract FIB map + implementation-shaped hash table with virtual depth m) model-checked by TLC (refinement); operation histories applied to both real FIBs, every lookup/listing validated by TLC",
   text="TLC proves for all histories up to a depth bound that the hash-table design (real/virtual tables, md maintenance, probing order) is observationally the abstract longest-prefix-match map; TLC-generated and seeded histories are applied to the real name-tree and hash-table FIBs (m in 1..6) and after every operation the lookups of 13 names and both listings with their values must equal the abstract state. Open finding F16 (root strategy can be unset; pinned by a baseline test) is matched by signature.",
   note="Universe of 8 prefixes (depths 0..6), 3 faces, 3 costs. " + TB),
 "C06": dict(engine="tables", design="4 C06", technique="TLA+ spec (Tables: Flatten from the statement + RIB tree/updateNexthops as coded) model-checked by TLC (refinement); RIB histories on the real table.Rib over both FIBs validated by TLC",
   text="Flatten is written from the property statement; TLC checks that the code's algorithm (subtree recomputation, capture stop, pruning) refines it for all histories up to a depth bound, and every lookup after every real register/unregister/cleanup must equal the flattening of the routes registered so far; the RIB's own listing must equal the registered routes.",
   note="Route-less prefixes are judged through lookups only (DESIGN 4.0). " + TB),
 "C20": dict(engine="engine", design="4 C20", technique="TLA+ spec (AppEngine: pending table + name trie + timers + handlers) model-checked by TLC; traces of the real basic.Engine (dummy timer and real timer under synctest) validated by TLC",
   text="TLC exhausts all interleavings of express/data/nack/clock/attach/detach/interest/reply up to a depth bound on the implementation-shaped trie model with the C20 rules as action properties and ExactlyOnce/AllResolved as invariants; the same rules are then checked on every step of recorded executions of the real engine, the set of callbacks fired by each arriving packet or clock advance being the owned observable.",
   note="Names nested over /a /a/b /a/b/c /d; lifetimes 1..4 ticks of 100 ms; implicit digests over a table of 14 Data wires. " + TB),
 "C18": dict(engine="dv", design="4 C18", technique="TLA+ spec (DV: SPEC.md update rule, poison reverse, dead-neighbour detection) model-checked by TLC incl. liveness (convergence under fair fetches); N real dv.Routers' advertisements and fixed points validated by TLC",
   text="TLC checks NoInfAdvert and FixedPointCorrect on every connected graph with N<=3 together with the liveness property Converges under weak fairness, and safety on named 4- and 5-router graphs with a link failure; real routers are driven through fetch/failure/recovery schedules and every advertisement (cost, other cost, chosen next hop) must equal the model's, the router's tie-break must be a minimal-cost pick and a function of the cost row, and at every fair-round quiescence point tables must equal hop distances with a shortest-path next hop, reached within a bounded number of rounds.",
   note="Advert exchange is synchronous through the real TLV codec; SVS transport and timers of the daemon's main loop are not exercised. " + TB),
 "C19": dict(engine="dv", design="4 C19", technique="TLA+ spec (DV: installer Desired/Replay + replicated prefix log with snapshots) model-checked by TLC; real routers' register/unregister streams and reconstructed prefix sets validated by TLC",
   text="TLC checks that the prefix log design replicates (LogReplicates, CaughtUpEqual, SnapshotSound) for all op/learn/fetch interleavings with a scaled snapshot threshold, and that fibUpdate reaches Desired; on real routers the emitted command stream is replayed into a route map that must equal the from-scratch Desired(r) after every table change, and after every sync the peer must have caught up with exactly the publisher's announced set (incl. first fetch by snapshot and 130-operation bursts).",
   note="The harness relays the peer's real fetch Interests to the publisher's real handler; publisher restarts are not modelled. " + TB),
 "C10": dict(engine="link", design="4 C10", technique="TLA+ spec (LpLink: TLV wire arithmetic, sender frame list, reassembly store) model-checked by TLC; real NDNLPLinkService sends and frame arrivals validated by TLC",
   text="TLC checks SendOK for the coded sender over a boundary universe of (length, MTU, header fields) and the receiver state machine over every interleaving of three concurrent messages plus adversarial frames; every frame the real link service emits in a size x MTU x header sweep is decoded and judged by SendOK, and every frame arrival at a real receiving link service by RxOK plus byte/token/mark identity.",
   note="SendOK constrains any sender (it does not require the code's split sizes); 'fits in one frame' uses the 64-byte tolerance of DESIGN C10. " + TB),
 "C11": dict(engine="link", design="4 C11", technique="TLA+ spec (StreamFraming: buffer of stream offsets, parse loop, compaction) model-checked by TLC for scaled constants; reads of the real readTlvStream and of the application StreamFace validated by TLC",
   text="TLC explores every stream of up to 4-5 blocks and every partition into reads on the implementation-shaped model (frames are blocks, unread region is the stream slice, no error, all delivered at EOF); the real readers are driven with streams many times the buffer and adversarial chunkings, each read judged by ReadOK.",
   note="Scaled constants in the exhaustive model (packet 4, buffer 12); real constants in traces. " + TB),
 "C13": dict(engine="tlv", design="4 C13", technique="TLA+ spec (ParseLoop: generated ordered/unordered parse loop, critical rule) model-checked by TLC over all small model skeletons; round-trip and unknown-element experiments on every generated model (registry built at check time) validated by TLC",
   text="TLC proves on the ParseLoop module that inserting an unrecognised non-critical element anywhere changes no other field's outcome and that a critical one rejects unless ignored, for every skeleton of up to 3 fields, both loop kinds and every valid input; every generated model discovered by scanning zz_generated.go is then driven with type-directed values: encode, independent TLV walk, decode contiguous and segmented, and an unknown element of each class at each top-level position, each outcome compared by TLC with ParseLoop!Expected. Open finding F30 (map key/value adjacency) is matched by signature.",
   note="Generator-output equality (checked-in zz_generated.go = generator output) is not decided by this family (no state/oracle a TLA+ model adds); behavioural drift of stale generated code is still caught by the round-trip part. " + TB),
 "C03": dict(engine="tlv", design="4 C03", technique="TLA+ layout oracle (Tlv: VarNum/Nat lengths, Name/MetaInfo/Interest/Data layout) with TLC enumerating packet shapes from boundary sets; real encoder/decoder observations (lengths, tiling, round trip contiguous and segmented, standalone name encoders) validated by TLC",
   text="The oracle gives, independently of the code, the exact total length, outer length and Name length of every shape; TLC draws shapes (components across the 1/3-byte length boundaries, every optional field subset, multi-buffer content/parameters, all signers) and the harness builds each through MakeData/MakeInterest, walks the bytes with its own TLV reader, decodes them contiguous and at up to 11 segmentations and compares; every observation is judged by DataOK/InterestOK in one TLC pass. This is the 'transcribe a pure function and enumerate its cases' use of TLA+ (weaker than the state-machine properties; stated in DESIGN 8).",
   note="Field values are compared for equality after the round trip; the oracle speaks about structure and lengths. " + TB),
 "C04": dict(engine="tlv", design="4 C04", technique="TLA+ spec (RecvPath: decode class, reassembly store, thread dispatch) model-checked by TLC; structure-aware mutants (classes defined in the spec) fed to every decoder and to the real receive path in child processes, outcomes validated by TLC",
   text="TLC checks on RecvPath that packets are only queued on existing threads and that undecodable/refused frames change nothing, for all bounded frame sequences over boundary field values; every decoder of the check-time registry plus the packet reader and name decoders, through both readers, and handleIncomingFrame / readTlvStream, are driven with every TLV-LENGTH replaced by boundary and huge values, type confusion, nested-length disagreement, truncation, fragment index/count/sequence combinations, token lengths and thread ids; each call is guarded (recover, allocation budget, watchdog) and runs in a child process under an address-space limit so that runtime fatal errors are attributed to the case (outcome CRASH).",
   note="Unstructured random bytes beyond the enumerated mutation classes are not covered by this family (a fuzzer's job). " + TB),
 "C12": dict(engine="tlv", design="4 C12", technique="TLA+ layout oracle (Tlv: covered and digested byte ranges per shape) with TLC-enumerated shapes; signer input, parser's covered bytes, validator verdicts and single-bit tampering outcomes of the real code validated by TLC",
   text="For every TLC-drawn shape and every shipped signer the ranges found in the produced bytes must equal the oracle's SigCovered/DigestCovered ranges, the signer must have been handed exactly those bytes, the parser (contiguous and four-segment presentation) must return exactly those bytes, the matching validator must accept, and flipping single bits inside the signed portion, the signature value or the parameters must lead to a decode error or a rejection. Open finding F33 (type byte of ApplicationParameters) is matched by signature.",
   note="Cryptographic strength is trusted (crypto/*); tamper positions are confined to the regions the statement names. " + TB),
 "C14": dict(engine="tlv", design="4 C14", technique="TLA+ spec (NameOrder: canonical order) proved a total order by TLC on an enumerated universe; the real name comparison / equality / prefix / hash / URI functions evaluated on that universe and judged by TLC",
   text="TLC enumerates names adversarially close to each other (one byte, one length, one type apart, prefix-related, all 256 byte values) and parser inputs over separators and escapes, proves that NameCmp is a total order (antisymmetry, transitivity, prefix-first) on the universe, and the observations of the real Compare/Equal/IsPrefix/Hash/PrefixHash/Bytes/String/NameFromStr on names, pairs and strings are validated against NameOrder in one TLC pass.",
   note="Universe bounded to 3 components / 3-byte values; URI round trip required only for types 1..65535 with shortest-form numbers. " + TB),
 "C15": dict(engine="object", design="4 C15", technique="TLA+ spec (ObjectFetch: segment fetcher with window, retries, loss and reordering; abstract publications and store) model-checked by TLC incl. liveness; real object.Client producer/consumer runs and store operation histories validated by TLC",
   text="TLC checks on the implementation-shaped fetcher that a consume completes at most once, delivers contiguous in-order segments, never fails while losses stay within the retry budget, and eventually completes (weak fairness); real producer/consumer clients on real engines are run in a synctest bubble with the harness as a reordering, lossy network over both stores, each consume run judged by ConsumeOK against the model's publication history, and every store answer judged against the abstract store.",
   note="Loss beyond the retry budget is covered by the model only; bolt's 1000-key scan bound is not exercised. " + TB),
}
NOT_YET = "check not yet built in this commit (work in progress; see DESIGN.md section 4)"
NA = {}

def main():
    commits = subprocess.run(["git", "-C", "/repo", "log", "--format=%h %s", "--grep", "^verif hooks"], capture_output=True, text=True).stdout.strip().splitlines()
    checks = []
    for p in props:
        pid = p["id"]
        if pid not in CLAIMED:
            continue
        c = CLAIMED[pid]
        checks.append({"property_id": pid, "quick_cmd": "./vcheck %s --tier quick" % pid, "thorough_cmd": "./vcheck %s --tier thorough" % pid,
                       "evidence_file": "/verif/evidence/%s.json" % pid, "replay_cmd_template": "./vcheck %s --replay {path}" % pid,
                       "engine": c["engine"], "level_claimed": {"category": c.get("level", "model_checking"), "text": c["text"], "design_ref": "DESIGN.md " + c["design"]},
                       "level_note": c["note"], "technique": c["technique"]})
    m = {"version": 1, "setup_cmd": "./setup.sh",
         "hooks": {"guard": "verif", "enable": "Go build tag: `go1.26.8 test -tags verif` on the harness module /verif/harness (replace github.com/named-data/ndnd => /repo)",
                   "baseline_off_cmd": "cd /repo && go test -vet=off -count=1 ./...", "source_commits": [c.split()[0] for c in commits], "add_only": True},
         "engines": [{"name": "forwarder", "path": "spec/forwarder + harness/fwd_test.go + checks/forwarder.py", "serves_properties": ["C01", "C02", "C07", "C08", "C09"],
                      "kind_free_text": "TLA+ module Forwarder (PIT/CS/DNL/FIB lookup/strategies), TLC exhaustive + simulate, trace validation of the real fw.Thread under synctest"},
                     {"name": "tables", "path": "spec/tables + harness/tables_test.go + checks/tables.py", "serves_properties": ["C05", "C06", "C08"],
                      "kind_free_text": "TLA+ module Tables (abstract FIB/RIB + implementation-shaped RIB tree and hash-table FIB), TLC refinement checking, trace validation of real table.Rib and both FIBs"}],
         "checks": checks,
         "notes": "Model-based verification with explicit TLA+ specifications (spec/), TLC model checking, and trace validation of the real code (harness/). ./vcheck <ID> --tier quick|thorough. See DESIGN.md.",
         "not_applicable": [{"property_id": p["id"], "reason": NA.get(p["id"], NOT_YET)} for p in props if p["id"] not in CLAIMED]}
    json.dump(m, open(os.path.join(V, "MANIFEST.json"), "w"), indent=1)
    print("claimed:", [c["property_id"] for c in checks])

main()
