#!/usr/bin/env python3
"""cover.py [IDs...]  -- engineering aid, not a check.
Runs the quick tier of the given properties (default: all) against a scratch copy of /repo with the harness built
with -cover -coverpkg=<repository>, merges the drivers' profiles and prints, per property, the functions of the
property's anchor files that no driver of that property executed at all and the statement coverage of each anchor
file.  What the conformance executions never touch is where a change to the code cannot be seen by trace validation.
Results go to out/cover/<ID>.txt; the scratch copy is removed."""
import sys, os, json, subprocess, shutil, glob, re, fnmatch, tempfile
VERIF = os.path.dirname(os.path.dirname(os.path.abspath(__file__)))
props = {json.loads(l)["id"]: json.loads(l) for l in open(os.path.join(VERIF, "properties.jsonl"))}
ids = [a for a in sys.argv[1:] if a in props] or sorted(props)
keep = "--keep" in sys.argv
scratch = tempfile.mkdtemp(prefix="cover-repo-", dir="/var/tmp")
subprocess.run("git -C /repo archive HEAD | tar -x -C %s" % scratch, shell=True, check=True)
outroot = os.path.join(VERIF, "out", "cover")
os.makedirs(outroot, exist_ok=True)
MOD = "github.com/named-data/ndnd/"


def merge(files):
    blocks = {}
    for f in files:
        for line in open(f):
            if line.startswith("mode:"):
                continue
            m = re.match(r"(.+):(\d+)\.(\d+),(\d+)\.(\d+) (\d+) (\d+)$", line.strip())
            if not m:
                continue
            k = m.group(1, 2, 3, 4, 5, 6)
            blocks[k] = max(blocks.get(k, 0), int(m.group(7)))
    return blocks


try:
    for pid in ids:
        cdir = os.path.join(outroot, pid + ".prof")
        shutil.rmtree(cdir, ignore_errors=True)
        env = dict(os.environ, VERIF_COVER=cdir, VERIF_REPO=scratch)
        p = subprocess.run(["./vcheck", pid, "--tier", "quick"], cwd=VERIF, env=env, stdout=subprocess.PIPE, stderr=subprocess.STDOUT, text=True)
        profs = glob.glob(os.path.join(cdir, "*.out"))
        blocks = merge(profs)
        os.makedirs(cdir, exist_ok=True)
        merged = os.path.join(cdir, "merged.out")
        with open(merged, "w") as f:
            f.write("mode: set\n")
            for k, c in sorted(blocks.items()):
                f.write("%s:%s.%s,%s.%s %s %d\n" % (k + (c,)))
        q = subprocess.run(["go1.26.8", "tool", "cover", "-func", merged], cwd=scratch, env=dict(os.environ, GOFLAGS="-mod=mod", GOPROXY="off", GOTOOLCHAIN="local"),
                           stdout=subprocess.PIPE, stderr=subprocess.STDOUT, text=True)
        anchors = props[pid]["anchors"]["files"]
        lines = []
        perfile = {}
        for k, c in blocks.items():
            fn = k[0][len(MOD):] if k[0].startswith(MOD) else k[0]
            t = perfile.setdefault(fn, [0, 0])
            t[0] += int(k[5]); t[1] += int(k[5]) if c else 0
        for a in anchors:
            for fn in sorted(perfile):
                if fnmatch.fnmatch(fn, a):
                    t = perfile[fn]
                    lines.append("FILE %-55s %5.1f%% of %d statements" % (fn, 100.0 * t[1] / max(1, t[0]), t[0]))
        for l in q.stdout.splitlines():
            m = re.match(r"(\S+?):(\d+):\s+(\S+)\s+([\d.]+)%", l)
            if not m or not m.group(1).startswith(MOD):
                continue
            fn = m.group(1)[len(MOD):]
            if any(fnmatch.fnmatch(fn, a) for a in anchors) and float(m.group(4)) < 50.0 and "zz_generated" not in fn:
                lines.append("FUNC %-55s %-40s %s%%" % (fn + ":" + m.group(2), m.group(3), m.group(4)))
        with open(os.path.join(outroot, pid + ".txt"), "w") as f:
            f.write("check exit %d, %d profiles\n" % (p.returncode, len(profs)) + "\n".join(lines) + "\n")
        print(pid, "exit", p.returncode, "profiles", len(profs), "-> out/cover/%s.txt" % pid, flush=True)
        if not keep:
            for x in profs:
                os.remove(x)
finally:
    shutil.rmtree(scratch, ignore_errors=True)
