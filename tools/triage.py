#!/usr/bin/env python3
"""triage.py <PID> [--workers 3]
Second stage of a mutation campaign: a mutant that survived the quick check of <PID> is run through the quick checks of
the other properties of the same family (a change in fw/fw/bestroute.go is C02's business even when C01's anchors list
the file); what survives all of them is listed for manual triage. Updates out/mutation/<PID>.json (field killed_by)."""
import sys, os, re, json, subprocess, concurrent.futures
VERIF = os.path.dirname(os.path.dirname(os.path.abspath(__file__)))
FAMILY = {"C01": "C02 C08 C07 C09", "C02": "C01 C08 C07 C09", "C07": "C08 C01 C02 C09", "C08": "C01 C02 C07 C09 C05 C06", "C09": "C01 C02 C07 C08",
          "C05": "C08 C06 C16", "C06": "C05 C08 C16", "C16": "C05 C06 C08", "C10": "C04 C11", "C11": "C04 C10", "C04": "C10 C11 C03 C13",
          "C03": "C12 C13 C14 C04", "C12": "C03 C13 C04", "C13": "C03 C12 C04", "C14": "C03 C13", "C18": "C19", "C19": "C18", "C15": "", "C17": "C06 C05", "C20": "C15"}
pid = sys.argv[1]
W = int(sys.argv[sys.argv.index("--workers") + 1]) if "--workers" in sys.argv else 3
ENV = dict(os.environ, GOFLAGS="-mod=mod", GOPROXY="off", GOSUMDB="off")
path = os.path.join(VERIF, "out", "mutation", pid + ".json")
res = json.load(open(path))
todo = [r for r in res if r["result"] == "SURVIVED" and "killed_by" not in r]


def sh(cmd, cwd, timeout=2400):
    p = subprocess.run(cmd, shell=True, cwd=cwd, env=ENV, stdout=subprocess.PIPE, stderr=subprocess.STDOUT, text=True, timeout=timeout)
    return p.returncode, p.stdout


def one(job):
    k, r = job
    wt = "/tmp/mut/t%d" % k
    if not os.path.isdir(wt):
        sh("git -C /repo worktree add --detach %s HEAD -q" % wt, "/")
    sh("git checkout -q --detach $(git -C /repo rev-parse HEAD); git checkout -q -- .", wt)
    f = os.path.join(wt, r["file"])
    lines = open(f).read().split("\n")
    old = lines[r["line"] - 1]
    if old.strip() != r["old"]:
        r["killed_by"] = "?line moved"
        return r
    lines[r["line"] - 1] = re.match(r"^\s*", old).group(0) + r["new"]
    open(f, "w").write("\n".join(lines))
    r["killed_by"] = ""
    for o in FAMILY.get(pid, "").split():
        rc, out = sh("VERIF_REPO=%s ./vcheck %s --tier quick" % (wt, o), VERIF)
        if rc == 1:
            rules = sorted(set(x.strip() for x in re.findall(r"rules? ((?:[ITPR][A-Za-z]*_[A-Za-z0-9_]+ ?)+) violated", out)))
            r["killed_by"] = o + " " + ",".join(rules)[:80]
            break
        if rc != 0:
            r["killed_by"] = o + " ERROR(exit %d)" % rc
            break
    sh("git checkout -q -- .", wt)
    return r


for i in range(0, len(todo), W):
    wave = [(j, todo[i + j]) for j in range(W) if i + j < len(todo)]
    with concurrent.futures.ThreadPoolExecutor(W) as ex:
        for r in ex.map(one, wave):
            print("%-26s %s:%d | %s => %s" % (("killed by " + r["killed_by"]) if r["killed_by"] else "SURVIVES THE FAMILY", r["file"], r["line"], r["old"][:80], r["new"][:50]), flush=True)
    json.dump(res, open(path, "w"), indent=1)
left = [r for r in res if r["result"] == "SURVIVED" and not r.get("killed_by")]
print("TRIAGE %s: %d survive the family's checks" % (pid, len(left)))
