---- MODULE SvSyncMC ----
EXTENDS SvSync
\* fairness: timers fire, nodes publish up to MaxSeq, every vector that was sent is eventually delivered to everybody
FairSpec == Init /\ [][Next]_vars
            /\ \A n1 \in Nodes : WF_vars(Timer(n1))
            /\ \A n2 \in Nodes : WF_vars(Publish(n2))
            /\ \A n3 \in Nodes : \A v \in VecSpace : WF_vars(\E msg \in net : msg.src # n3 /\ msg.v = v /\ Recv(n3, v))
CONSTANT MaxNet
NetBound == Cardinality(net) <= MaxNet
====
