---- MODULE SvTrace ----
(* Executions of real SvSync instances (harness/svs_test.go) judged by SvSync.tla. The trace follows the vectors, the       *)
(* notifications and the Sync Interests emitted; the suppression machinery, whose timers are jittered, is bound by two       *)
(* staged probes (an outdated vector heard by a quiet node is answered within one SuppressionPeriod; not when an up-to-date   *)
(* vector is heard in between) and by the periodic-Interest rule.                                                            *)
EXTENDS SvSync, Json
CONSTANT TraceFile
VARIABLES l, hi, nn
Trace == ndJsonDeserialize(TraceFile)
tvars == <<vars, l, hi, nn>>
Ev == Trace[l]
Last == Trace[hi]
Vec(s) == [m \in Nodes |-> IF m <= Len(s) THEN s[m] ELSE 0]
Sent(r) == { [src |-> r.sent[i].src, v |-> Vec(r.sent[i].v)] : i \in 1..Len(r.sent) }
Expand(us) == UNION { { <<us[i].m, s>> : s \in us[i].lo..us[i].hi } : i \in 1..Len(us) }
TInit == Init /\ l = 1 /\ hi = 0 /\ nn = 0 /\ TLCSet(7, 0)
Step ==
  /\ l <= Len(Trace) /\ l' = l + 1 /\ hi' = l /\ UNCHANGED <<sup, mrg, recent>>
  /\ net' = (IF Ev.ev = "Reset" THEN {} ELSE net) \cup Sent(Ev)
  /\ \/ Ev.ev = "Reset" /\ nn' = Ev.n /\ sv' = [n \in Nodes |-> Zero] /\ upd' = [n \in Nodes |-> {}] /\ dup' = FALSE
     \/ Ev.ev = "pub" /\ sv' = [sv EXCEPT ![Ev.node][Ev.node] = Ev.to] /\ UNCHANGED <<upd, dup, nn>>    \* IncrSeqNo, or a jump (SetSeqNo)
     \/ /\ Ev.ev = "dlv" /\ UNCHANGED nn
        /\ sv' = [sv EXCEPT ![Ev.dst] = Merged(Ev.dst, Vec(Ev.v))]
        /\ upd' = [upd EXCEPT ![Ev.dst] = @ \cup News(Ev.dst, Vec(Ev.v))]
        /\ dup' = (dup \/ News(Ev.dst, Vec(Ev.v)) \cap upd[Ev.dst] # {})
     \/ Ev.ev \in {"adv", "settle"} /\ UNCHANGED <<sv, upd, dup, nn>>
TSpec == TInit /\ [][Step]_tvars
HiWater == TLCSet(7, IF TLCGet(7) < hi THEN hi ELSE TLCGet(7))
Accepted == PrintT(<<"hiwater", TLCGet(7), Len(Trace)>>) /\ TLCGet(7) = Len(Trace)
On == l <= Len(Trace)
Seen == hi > 0
Real == 1..nn
\* the application hears of exactly the publications the incoming vector adds, once, with the right ranges; nobody else hears anything
T_C19svs_upd == [][On => \A n \in 1..(IF Ev.ev = "Reset" THEN Ev.n ELSE nn) :
                        /\ Expand(Ev.upd[n]) = (IF Ev.ev = "dlv" /\ n = Ev.dst THEN News(n, Vec(Ev.v)) ELSE {})
                        /\ \A i \in 1..Len(Ev.upd[n]) : Ev.upd[n][i].lo <= Ev.upd[n][i].hi              \* no empty notification
                        /\ \A i, j \in 1..Len(Ev.upd[n]) : i # j => Ev.upd[n][i].m # Ev.upd[n][j].m]_tvars     \* one per node
I_C19svs_vec == Seen => \A n \in Real : Vec(Last.sv[n]) = sv[n]
\* a Sync Interest carries the sender's whole current vector
I_C19svs_send == Seen => \A s \in Sent(Last) : s.v = sv[s.src]
\* a publication is announced at once
I_C19svs_pub == (Seen /\ Last.ev = "pub") => \E s \in Sent(Last) : s.src = Last.node
\* a publication only ever raises the publisher's own sequence number
T_C19svs_pubup == [][(On /\ Ev.ev = "pub") => Ev.to > sv[Ev.node][Ev.node]]_tvars
\* left alone for longer than the periodic timeout (30 s +- 10%) every node repeats its vector
I_C19svs_periodic == (Seen /\ Last.ev = "adv" /\ Last.dt >= 34000) => \A n \in Real : \E s \in Sent(Last) : s.src = n
I_C19svs_probe == (Seen /\ Last.ev = "adv" /\ "probe" \in DOMAIN Last) =>
                     IF Last.probe \in {"outdated-quiet", "outdated-partly-covered"} THEN \E s \in Sent(Last) : s.src = Last.who
                     ELSE ~\E s \in Sent(Last) : s.src = Last.who
\* after lossless rounds everybody knows everything
I_C19svs_settle == (Seen /\ Last.ev = "settle") => \A n, m \in Real : sv[n][m] = sv[m][m]
I_C19svs_exact == Seen => /\ ~dup /\ \A n, m \in Real : sv[n][m] <= sv[m][m]
====
