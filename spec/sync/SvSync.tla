------------------------------- MODULE SvSync -------------------------------
(***************************************************************************)
(* State Vector Sync (std/sync/svs.go), the notification layer under the    *)
(* routing daemon's replicated prefix log (dv/dv/prefix_sync.go, C19).      *)
(* Every node keeps a state vector (node -> highest sequence number known);  *)
(* Sync Interests carry the sender's whole vector and are not acknowledged.  *)
(* One action per critical section of the code (all under SvSync.mutex):     *)
(*   Publish        IncrSeqNo, followed by an immediate Sync Interest        *)
(*   Send           sendSyncInterest: enter steady state, emit the vector    *)
(*   Recv           onReceiveStateVector: merge, notify the application,      *)
(*                  steady / suppression state as in the SVS v2 text         *)
(*   Timer          timerExpired: periodic Interest, or the decision at the  *)
(*                  end of a suppression interval                            *)
(*   Age            SuppressionPeriod passes (the mtime test)                *)
(* The network is a set of vectors ever sent: delivery in any order, any     *)
(* number of times, or never (loss).                                         *)
(***************************************************************************)
EXTENDS Integers, Sequences, FiniteSets, TLC
CONSTANTS Nodes, MaxSeq
VARIABLES sv,      \* node -> (node -> seq); 0 = no entry
          sup,     \* node -> in suppression state
          mrg,     \* node -> merged state vector of the suppression interval
          recent,  \* node -> nodes whose entry was raised within the last SuppressionPeriod
          net,     \* set of [src, v] : Sync Interests ever emitted
          upd,     \* node -> set of <<m, seq>> : publications the application was told about
          dup      \* some publication was announced twice, or out of order (ghost)
vars == <<sv, sup, mrg, recent, net, upd, dup>>
Zero == [m \in Nodes |-> 0]
Max(a, b) == IF a > b THEN a ELSE b
Init == /\ sv = [n \in Nodes |-> Zero] /\ sup = [n \in Nodes |-> FALSE] /\ mrg = [n \in Nodes |-> Zero]
        /\ recent = [n \in Nodes |-> {}] /\ net = {} /\ upd = [n \in Nodes |-> {}] /\ dup = FALSE
\* sendSyncInterest: steady state, the whole vector goes out
Emit(n, v) == /\ net' = net \cup {[src |-> n, v |-> v]} /\ sup' = [sup EXCEPT ![n] = FALSE]
Publish(n) ==
  /\ sv[n][n] < MaxSeq
  /\ sv' = [sv EXCEPT ![n][n] = @ + 1]
  /\ Emit(n, sv'[n])
  /\ UNCHANGED <<mrg, recent, upd, dup>>
\* what onReceiveStateVector computes for node n and incoming vector v (entries with seq 0 are absent from the wire)
Newer(n, v) == { m \in Nodes : v[m] > sv[n][m] }
Older(n, v) == { m \in Nodes : v[m] > 0 /\ v[m] < sv[n][m] }
Missing(n, v) == { m \in Nodes : v[m] = 0 /\ sv[n][m] > 0 }
Outdated(n, v) == Older(n, v) # {} \/ Missing(n, v) # {}
\* the Interest may be dropped when every outdated entry was raised here a moment ago (those Interests crossed)
\* (as coded: nodes missing from the vector are only looked at when no listed entry is outdated)
CanDrop(n, v) == IF Older(n, v) # {} THEN Older(n, v) \subseteq recent[n] ELSE Missing(n, v) = {}
Merged(n, v) == [m \in Nodes |-> Max(sv[n][m], v[m])]
News(n, v) == UNION { { <<m, s>> : s \in (sv[n][m] + 1)..v[m] } : m \in Newer(n, v) }
Entering(n, v) == Outdated(n, v) /\ ~CanDrop(n, v) /\ ~sup[n]
Recv(n, v) ==
  /\ sv' = [sv EXCEPT ![n] = Merged(n, v)]
  /\ upd' = [upd EXCEPT ![n] = @ \cup News(n, v)]
  /\ dup' = (dup \/ News(n, v) \cap upd[n] # {})
  /\ recent' = [recent EXCEPT ![n] = @ \cup Newer(n, v)]
  /\ mrg' = [mrg EXCEPT ![n] = IF Entering(n, v) THEN Zero ELSE IF sup[n] THEN [m \in Nodes |-> Max(@[m], v[m])] ELSE @]
  /\ sup' = [sup EXCEPT ![n] = IF ~Outdated(n, v) THEN FALSE          \* steady state, timer reset
                                ELSE IF Entering(n, v) THEN TRUE       \* suppression state, short timer
                                ELSE @]
  /\ UNCHANGED net
Deliver(n) == \E msg \in net : msg.src # n /\ Recv(n, msg.v)
Timer(n) ==
  /\ IF sup[n] /\ \A m \in Nodes : sv[n][m] <= mrg[n][m]
     THEN sup' = [sup EXCEPT ![n] = FALSE] /\ UNCHANGED net      \* everybody heard it already from someone else
     ELSE Emit(n, sv[n])
  /\ UNCHANGED <<sv, mrg, recent, upd, dup>>
Age(n) == recent[n] # {} /\ recent' = [recent EXCEPT ![n] = {}] /\ UNCHANGED <<sv, sup, mrg, net, upd, dup>>
Next == \E n \in Nodes : Publish(n) \/ Deliver(n) \/ Timer(n) \/ Age(n)
VecSpace == [Nodes -> 0..MaxSeq]
Spec == Init /\ [][Next]_vars
\* ---- properties --------------------------------------------------------------------------------------
Monotone == [][\A n, m \in Nodes : sv'[n][m] >= sv[n][m]]_vars
\* nobody knows of a publication that was not made
NoPhantom == \A n, m \in Nodes : sv[n][m] <= sv[m][m]
\* the application is told of every publication of the others it has heard of, exactly once
UpdatesExact == /\ ~dup
                /\ \A n \in Nodes : upd[n] = UNION { { <<m, s>> : s \in 1..sv[n][m] } : m \in Nodes \ {n} }
Consistent == \A n, m \in Nodes : sv[n][m] = sv[m][m]
Quiet == \A n \in Nodes : sv[n][n] = MaxSeq
EventuallyConsistent == <>[]Consistent
=============================================================================
