---- MODULE StreamSendMC ----
EXTENDS StreamSend
MCSenders == (1 :> <<3, 1>>) @@ (2 :> <<1, 2>>) @@ (3 :> <<2>>)
====
