---- MODULE StreamSendTrace ----
(* what the peer of a real StreamFace read while several goroutines were sending multi-buffer wires on it (harness/stream_test.go TestStreamSend) *)
EXTENDS StreamSendMC, Json
CONSTANT TraceFile
VARIABLES l, hi
Trace == ndJsonDeserialize(TraceFile)
tvars == <<l, hi, vars>>
TInit == l = 1 /\ hi = 0 /\ TLCSet(7, 0) /\ Init
Step == l <= Len(Trace) /\ l' = l + 1 /\ hi' = l /\ UNCHANGED vars
TSpec == TInit /\ [][Step]_tvars
HiWater == TLCSet(7, IF TLCGet(7) < hi THEN hi ELSE TLCGet(7))
Accepted == PrintT(<<"hiwater", TLCGet(7), Len(Trace)>>) /\ TLCGet(7) = Len(Trace)
Last == Trace[hi]
Runs == [x \in 1..Len(Last.runs) |-> [s |-> Last.runs[x].s, k |-> Last.runs[x].k, b |-> Last.runs[x].b]]
\* every buffer arrived, each packet's buffers in order and in one run, nothing else on the stream
I_C11send == (hi >= 1 /\ Last.ev = "sent") =>
                /\ Contiguous(Runs) /\ Last.garbage = 0 /\ Last.errors = 0
                /\ \A x, y \in 1..Len(Runs) : (x < y /\ Runs[x].s = Runs[y].s /\ Runs[x].k = Runs[y].k) => Runs[x].b < Runs[y].b
                /\ Len(Runs) = Last.buffers
====
