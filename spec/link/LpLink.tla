------------------------------- MODULE LpLink -------------------------------
(***************************************************************************)
(* NDNLPv2 link service (fw/face/ndnlp-link-service.go): the sender's      *)
(* fragmentation arithmetic and the receiver's reassembly state machine.   *)
(*  - sender: pure operators over (packet length, MTU, header fields): the *)
(*    wire arithmetic of TLV lengths, the exact size of a frame, and the   *)
(*    frame list produced by a sender that reserves header space the way   *)
(*    the code does (Frames); SendOK is what C10 demands of ANY sender;    *)
(*  - receiver: the partial-message store indexed by base sequence number; *)
(*    one action per arriving frame, adversarial field values included.    *)
(***************************************************************************)
EXTENDS Integers, Sequences, FiniteSets, TLC
CONSTANTS Slack,      \* a packet of length <= MTU - Slack must be sent as one frame
          MaxFrag     \* largest FragCount the receiver accepts (maximum packet size)
VARIABLES store,   \* receiver: base sequence -> [cnt, have]  (have: set of fragment indices stored)
          done,    \* receiver: bag of delivered message ids (base sequence -> times delivered)
          ev
vars == <<store, done, ev>>
Empty == [x \in {} |-> 0]
Ext(fn, k, v) == [x \in DOMAIN fn \cup {k} |-> IF x = k THEN v ELSE fn[x]]
Drop(fn, K)   == [x \in DOMAIN fn \ K |-> fn[x]]

(* ---------------- wire arithmetic ------------------------------------------- *)
VarLen(n) == IF n <= 252 THEN 1 ELSE IF n <= 65535 THEN 3 ELSE 5      \* TLV-TYPE / TLV-LENGTH number
NatLen(n) == IF n <= 255 THEN 1 ELSE IF n <= 65535 THEN 2 ELSE 4   \* (TLC integers are 32-bit: larger values do not occur in the models)
Tlv(t, l) == VarLen(t) + VarLen(l) + l
\* header fields of one LpPacket: tlen = PIT token length (0: none), mark/inface booleans, fragmentation fields or not
HdrLen(tlen, mark, inface, frag, idx, cnt) ==
    (IF frag THEN Tlv(81, 8) + Tlv(82, NatLen(idx)) + Tlv(83, NatLen(cnt)) ELSE 0)   \* Sequence (fixed 8), FragIndex, FragCount
  + (IF tlen > 0 THEN Tlv(98, tlen) ELSE 0)                                         \* PitToken
  + (IF inface THEN Tlv(812, NatLen(7)) ELSE 0)                                      \* IncomingFaceId (small ids in the harness)
  + (IF mark THEN Tlv(832, NatLen(1)) ELSE 0)                                        \* CongestionMark
FrameSize(flen, tlen, mark, inface, frag, idx, cnt) ==
  LET body == HdrLen(tlen, mark, inface, frag, idx, cnt) + Tlv(80, flen) IN Tlv(100, body)
\* the sender as coded: reserve LpPacket TL (1+3), Fragment TL (1+3), token (1+3+tlen), face (3+1+8), mark (3+1+8),
\* and three 10-byte fragmentation fields; split evenly at the effective MTU
Overhead(tlen, mark, inface) == 4 + 4 + (IF tlen > 0 THEN 4 + tlen ELSE 0) + (IF inface THEN 12 ELSE 0) + (IF mark THEN 12 ELSE 0)
CeilDiv(a, b) == (a + b - 1) \div b
Frames(L, mtu, tlen, mark, inface, fragOn) ==
  IF L + Overhead(tlen, mark, inface) <= mtu THEN << [flen |-> L, idx |-> -1, cnt |-> -1] >>
  ELSE IF ~fragOn THEN << >>
  ELSE LET eff == mtu - Overhead(tlen, mark, inface) - 30 IN
       IF eff <= 0 THEN << >>
       ELSE LET n == CeilDiv(L, eff) IN
            [i \in 1..n |-> [flen |-> IF i < n THEN eff ELSE L - eff * (n - 1), idx |-> i - 1, cnt |-> n]]
SizeOf(f, tlen, mark, inface) == FrameSize(f.flen, tlen, mark, inface, f.cnt # -1, IF f.idx < 0 THEN 0 ELSE f.idx, IF f.cnt < 0 THEN 0 ELSE f.cnt)
\* C10 for one send, stated on the observable frames F (records [size, flen, idx, cnt, seq, tok, mark]); e = the inputs
SendOK(e, F) ==
  LET n == Len(F) IN
  /\ \A x \in 1..n : F[x].size <= e.mtu                                         \* every frame fits the MTU
  /\ (~e.frag) => n <= 1
  /\ (~e.frag /\ FrameSize(e.len, e.tok, e.mark, e.inface, FALSE, 0, 0) > e.mtu) => n = 0   \* dropped, never truncated
  /\ (e.len <= e.mtu - Slack) => n = 1                                          \* a packet that fits is one frame
  /\ (e.frag /\ e.mtu >= 128) => n >= 1
  /\ n >= 1 => /\ e.concat = e.orig                                             \* payloads partition the packet, in order
               /\ \A x \in 1..n : F[x].tok = e.tok /\ (e.mark => F[x].mark)      \* token and mark travel with the packet
  /\ n = 1 => (F[1].cnt \in {-1, 1} /\ F[1].idx \in {-1, 0})
  /\ n > 1 => \A x \in 1..n : F[x].idx = x - 1 /\ F[x].cnt = n /\ F[x].seq = F[1].seq + x - 1 /\ F[x].flen >= 1

(* ---------------- receiver --------------------------------------------------- *)
\* a frame [seq, idx, cnt] of the message with base sequence seq - idx
Valid(idx, cnt) == cnt >= 1 /\ cnt <= MaxFrag /\ idx >= 0 /\ idx < cnt
Base(f) == f.seq - f.idx
Accepts(f) == /\ Valid(f.idx, f.cnt)
              /\ (Base(f) \in DOMAIN store => store[Base(f)].cnt = f.cnt)
Completes(f) == Accepts(f) /\ (IF Base(f) \in DOMAIN store THEN store[Base(f)].have ELSE {}) \cup {f.idx} = 0..(f.cnt - 1)
\* delivered: sequence of base sequences handed to the forwarder by this step (observable)
Rx(f, delivered) ==
  /\ ev' = [ev |-> "rx", f |-> f, delivered |-> delivered]
  /\ IF ~Accepts(f) \/ (f.idx = 0 /\ f.cnt = 1) THEN UNCHANGED store
     ELSE IF Completes(f) THEN store' = Drop(store, {Base(f)})
     ELSE store' = Ext(store, Base(f), [cnt |-> f.cnt, have |-> (IF Base(f) \in DOMAIN store THEN store[Base(f)].have ELSE {}) \cup {f.idx}])
  /\ done' = [m \in DOMAIN done \cup { delivered[x] : x \in 1..Len(delivered) } |->
                (IF m \in DOMAIN done THEN done[m] ELSE 0) + Cardinality({ x \in 1..Len(delivered) : delivered[x] = m })]
\* what must be handed up: exactly the message this frame completes (or the unfragmented frame itself), nothing otherwise
RxOK(f, delivered) ==
  IF Accepts(f) /\ (Completes(f) \/ (f.idx = 0 /\ f.cnt = 1)) THEN delivered = << Base(f) >> ELSE delivered = << >>
P_C10rx == [][ev'.ev = "rx" => RxOK(ev'.f, ev'.delivered)]_vars
\* a rejected frame changes nothing (C04)
P_C04rx == [][(ev'.ev = "rx" /\ ~Accepts(ev'.f)) => store' = store]_vars
StoreSound == \A b \in DOMAIN store : store[b].have # {} /\ store[b].have \subseteq 0..(store[b].cnt - 1) /\ store[b].have # 0..(store[b].cnt - 1)
ImplDelivered(f) == IF Accepts(f) /\ (Completes(f) \/ (f.idx = 0 /\ f.cnt = 1)) THEN << Base(f) >> ELSE << >>
\* ---- local header fields on reception -----------------------------------------------------------------------
\* NextHopFaceId (consumer-controlled forwarding, used by C02/C09) and CachePolicy are handed to the forwarder only on
\* faces where the corresponding option is enabled; the congestion mark and the PIT token always
LocalFieldsOK(e) == /\ e.gotNextHop = (e.hasNextHop /\ e.optNextHop)
                    /\ e.gotCachePolicy = (e.hasCachePolicy /\ e.optCachePolicy)
                    /\ e.gotMark = e.hasMark /\ e.gotToken = e.hasToken
=============================================================================
