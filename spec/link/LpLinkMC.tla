---- MODULE LpLinkMC ----
(* (1) sender arithmetic: for every (length, MTU, header fields) of a boundary universe the coded sender's frames satisfy C10;   *)
(* (2) receiver: every interleaving of the frames of up to three concurrent messages plus adversarial frames.                  *)
EXTENDS LpLink
CONSTANTS Mode
VARIABLES sent, pool
mvars == <<vars, sent, pool>>
Lens == {1, 2, 40, 64, 86, 87, 88, 100, 127, 128, 200, 252, 253, 254, 255, 256, 257, 300, 1000, 1463, 1464, 1465, 1500, 2999, 3000, 8799, 8800}
Mtus == {128, 129, 150, 253, 256, 300, 512, 1280, 1500, 4000, 8800}
\* ---- (1)
SendStep == \E L \in Lens, mtu \in Mtus, tlen \in {0, 6}, mark \in BOOLEAN, inface \in BOOLEAN, fragOn \in BOOLEAN :
              /\ sent' = [e |-> [len |-> L, mtu |-> mtu, tok |-> tlen, mark |-> mark, inface |-> inface, frag |-> fragOn, concat |-> 0, orig |-> 0],
                          F |-> LET Fr == Frames(L, mtu, tlen, mark, inface, fragOn)
                                IN [x \in 1..Len(Fr) |-> [size |-> SizeOf(Fr[x], tlen, mark, inface), flen |-> Fr[x].flen, idx |-> Fr[x].idx, cnt |-> Fr[x].cnt,
                                                          seq |-> 100 + x - 1, tok |-> tlen, mark |-> mark]]]
              /\ UNCHANGED <<vars, pool>>
RECURSIVE SumLen(_, _)
SumLen(F, k) == IF k = 0 THEN 0 ELSE F[k].flen + SumLen(F, k - 1)
SentOK == /\ SendOK(sent.e, sent.F)
          /\ (sent.F = <<>> \/ SumLen(sent.F, Len(sent.F)) = sent.e.len)      \* payload lengths add up to the packet
SentNonEmpty == (sent.e.frag /\ sent.e.mtu >= 128) => Len(sent.F) >= 1
\* ---- (2): messages with base sequences 10, 20, 30 and 2..3 fragments; adversarial frames
Msgs == [m \in {10, 20, 30} |-> IF m = 20 THEN 3 ELSE 2]
Good == UNION { { [seq |-> m + i, idx |-> i, cnt |-> Msgs[m]] : i \in 0..(Msgs[m] - 1) } : m \in DOMAIN Msgs }
Bad == { [seq |-> 10, idx |-> 2, cnt |-> 2], [seq |-> 12, idx |-> 0, cnt |-> 0],
         [seq |-> 40, idx |-> 0, cnt |-> MaxFrag + 1], [seq |-> 50, idx |-> 0, cnt |-> 1] }
\* a well-formed frame that claims the base sequence of message 20 with another count: it can starve message 20
\* (no timer purges the store), so with it only safety is checked (Mode "adv")
Collide == { [seq |-> 21, idx |-> 1, cnt |-> 2], [seq |-> 31, idx |-> 1, cnt |-> 3] }
RxStep == \E f \in pool : Rx(f, ImplDelivered(f)) /\ pool' = pool \ {f} /\ UNCHANGED sent
Init == /\ store = Empty /\ done = Empty /\ ev = [ev |-> "0"] /\ pool = Good \cup Bad \cup (IF Mode = "adv" THEN Collide ELSE {})
        /\ sent = [e |-> [len |-> 1, mtu |-> 128, tok |-> 0, mark |-> FALSE, inface |-> FALSE, frag |-> TRUE, concat |-> 0, orig |-> 0],
                   F |-> << [size |-> FrameSize(1, 0, FALSE, FALSE, FALSE, 0, 0), flen |-> 1, idx |-> -1, cnt |-> -1, seq |-> 100, tok |-> 0, mark |-> FALSE] >>]
Next == IF Mode = "send" THEN SendStep ELSE RxStep
Spec == Init /\ [][Next]_mvars
\* at the end every message was delivered exactly once and nothing else
AllOnce == (Mode = "rx" /\ pool = {}) => /\ store = Empty
                        /\ (\A m \in {10, 20, 30} : m \in DOMAIN done /\ done[m] = 1)
                        /\ (\A k \in DOMAIN done : done[k] = 1 /\ k \in {10, 20, 30, 50})
OneStep == TLCGet("level") <= 1
NeverTwice == \A m \in DOMAIN done : done[m] <= 1
====
