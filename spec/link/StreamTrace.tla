---- MODULE StreamTrace ----
(* reads performed by the real readTlvStream (and by the application-side stream face) over scripted chunkings *)
EXTENDS StreamFraming, Json
CONSTANT TraceFile
VARIABLES l, hi
Trace == ndJsonDeserialize(TraceFile)
tvars == <<vars, l, hi>>
Ev == Trace[l]
TInit == blocks = <<>> /\ pos = 0 /\ k = 0 /\ buf = <<>> /\ recvOff = 0 /\ tlvOff = 0 /\ err = FALSE /\ ev = [ev |-> "0"] /\ l = 1 /\ hi = 0 /\ TLCSet(7, 0)
Step ==
  /\ l <= Len(Trace) /\ l' = l + 1 /\ hi' = l
  /\ \/ Ev.ev = "Reset" /\ blocks' = Ev.blocks /\ pos' = 0 /\ k' = 0 /\ ev' = [ev |-> "R"] /\ UNCHANGED <<buf, recvOff, tlvOff, err>>
     \/ Ev.ev = "read" /\ Read(Ev.n, Ev.frames)
     \/ Ev.ev = "eof" /\ UNCHANGED <<blocks, pos, k, buf, recvOff, tlvOff, err>> /\ ev' = [ev |-> "eof", err |-> Ev.err]
TSpec == TInit /\ [][Step]_tvars
HiWater == TLCSet(7, IF TLCGet(7) < hi THEN hi ELSE TLCGet(7))
Accepted == PrintT(<<"hiwater", TLCGet(7), Len(Trace)>>) /\ TLCGet(7) = Len(Trace)
P_C11 == [][(ev'.ev = "read" => ReadOK(ev'.n, ev'.frames))
            /\ (ev'.ev = "eof" => (k = Len(blocks) /\ pos = Total(blocks) /\ ev'.err = ""))]_tvars
====
