---- MODULE StreamTrace ----
(* reads performed by the real readTlvStream (and by the application-side stream face) over scripted chunkings *)
EXTENDS StreamFraming, Json
CONSTANT TraceFile
VARIABLES l, hi
Trace == ndJsonDeserialize(TraceFile)
tvars == <<vars, l, hi>>
Ev == Trace[l]
TInit == blocks = <<>> /\ pos = 0 /\ k = 0 /\ buf = <<>> /\ recvOff = 0 /\ tlvOff = 0 /\ err = FALSE /\ ev = [ev |-> "0"] /\ l = 1 /\ hi = 0 /\ TLCSet(7, 0)
Step ==
  /\ l <= Len(Trace) /\ l' = l + 1 /\ hi' = l
  /\ \/ Ev.ev = "Reset" /\ blocks' = Ev.blocks /\ pos' = 0 /\ k' = 0 /\ ev' = [ev |-> "R"] /\ UNCHANGED <<buf, recvOff, tlvOff, err>>
     \/ Ev.ev = "read" /\ Read(Ev.n, Ev.frames)
     \/ Ev.ev = "stream" /\ UNCHANGED <<blocks, pos, k, buf, recvOff, tlvOff, err>> /\ ev' = [ev |-> "stream", frames |-> Ev.frames, stalled |-> Ev.stalled]
     \/ Ev.ev = "eof" /\ UNCHANGED <<blocks, pos, k, buf, recvOff, tlvOff, err>> /\ ev' = [ev |-> "eof", err |-> Ev.err]
TSpec == TInit /\ [][Step]_tvars
HiWater == TLCSet(7, IF TLCGet(7) < hi THEN hi ELSE TLCGet(7))
Accepted == PrintT(<<"hiwater", TLCGet(7), Len(Trace)>>) /\ TLCGet(7) = Len(Trace)
P_C11 == [][(ev'.ev = "read" => ReadOK(ev'.n, ev'.frames))
            /\ (ev'.ev = "eof" => (k = Len(blocks) /\ pos = Total(blocks) /\ ev'.err = ""))]_tvars
\* transport stage: what a real socket transport (TCP, Unix stream, UDP) under a real link service handed on, end to end, for the blocks the
\* peer sent / what the peer received for the packets queued: exactly those blocks, byte-identical, in order, nothing else, no stall
T_C11xport == [][ev'.ev = "stream" => /\ ev'.stalled = -1 /\ Len(ev'.frames) = Len(blocks)
                                      /\ \A x \in 1..Len(blocks) : ev'.frames[x].size = blocks[x].size /\ ev'.frames[x].hash = blocks[x].hash]_tvars
====
