----------------------------- MODULE StreamSend -----------------------------
(***************************************************************************)
(* The sending side of a stream face (std/engine/face/stream_face.go       *)
(* Send): a packet is a wire of several buffers, written to the connection *)
(* one buffer at a time; several goroutines send on one face.  The send    *)
(* mutex makes the buffers of one packet contiguous on the stream, which   *)
(* is what lets the receiver of C11 find the blocks again.                 *)
(* One action per lock operation / buffer write.                           *)
(***************************************************************************)
EXTENDS Integers, Sequences, FiniteSets, TLC
CONSTANTS Senders,   \* sender -> sequence of packets, a packet = number of buffers
          Dev        \* "NoSendLock": no mutex;  "FastPathSingle": a one-buffer packet is written without the mutex
VARIABLES stream,    \* what is on the connection: sequence of [s, k, b] (sender, its k-th packet, buffer b)
          pc,        \* sender -> [k, b, held] : next packet, next buffer, holds the mutex
          lock
vars == <<stream, pc, lock>>
S == DOMAIN Senders
Init == stream = <<>> /\ pc = [s \in S |-> [k |-> 1, b |-> 1, held |-> FALSE]] /\ lock = FALSE
Done(s) == pc[s].k > Len(Senders[s])
NeedsLock(s) == ~("NoSendLock" \in Dev) /\ ~("FastPathSingle" \in Dev /\ Senders[s][pc[s].k] = 1)
Acquire(s) == /\ ~Done(s) /\ pc[s].b = 1 /\ ~pc[s].held /\ NeedsLock(s) /\ ~lock
              /\ lock' = TRUE /\ pc' = [pc EXCEPT ![s].held = TRUE] /\ UNCHANGED stream
Write(s) == /\ ~Done(s) /\ (pc[s].held \/ ~NeedsLock(s))
            /\ stream' = Append(stream, [s |-> s, k |-> pc[s].k, b |-> pc[s].b])
            /\ IF pc[s].b = Senders[s][pc[s].k]
               THEN /\ pc' = [pc EXCEPT ![s] = [k |-> pc[s].k + 1, b |-> 1, held |-> FALSE]]
                    /\ lock' = (IF pc[s].held THEN FALSE ELSE lock)
               ELSE pc' = [pc EXCEPT ![s].b = @ + 1] /\ UNCHANGED lock
Next == \E s \in S : Acquire(s) \/ Write(s)
Spec == Init /\ [][Next]_vars /\ \A s \in S : WF_vars(Acquire(s) \/ Write(s))
\* the buffers of a packet are contiguous on the stream (what is written so far of each packet is one run)
Contiguous(st) == \A i, j \in 1..Len(st) : (i < j /\ st[i].s = st[j].s /\ st[i].k = st[j].k) => \A m \in i..j : (st[m].s = st[i].s /\ st[m].k = st[i].k)
FramesIntact == Contiguous(stream)
AllSent == <>(\A s \in S : Done(s))
=========================================================================
