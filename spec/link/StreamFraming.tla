---------------------------- MODULE StreamFraming ----------------------------
(***************************************************************************)
(* Stream framing of fw/face/stream-transport.go readTlvStream: a byte     *)
(* stream of TLV blocks is read in arbitrary chunks into a fixed buffer;   *)
(* every complete block is handed up exactly once, in order; the unread    *)
(* tail is moved to the front of the buffer when less than one maximum     *)
(* packet remains unread.                                                  *)
(* Abstract part (used by the trace spec): blocks, bytes consumed, blocks  *)
(* delivered.  Implementation-shaped part (model-checked with scaled       *)
(* constants): the buffer holds STREAM OFFSETS, so that a wrong copy or a  *)
(* split/merged frame shows up as a frame whose offsets are not a block's. *)
(***************************************************************************)
EXTENDS Integers, Sequences, FiniteSets, TLC
CONSTANTS MaxPkt,   \* maximum packet size
          BufLen,   \* receive buffer length (32 packets in the code)
          Dev
VARIABLES blocks,  \* the stream: sequence of [hdr, size, end]  (hdr = bytes of type+length, end = offset of the last byte)
          pos,     \* bytes handed to the reader so far
          k,       \* blocks delivered so far
          buf, recvOff, tlvOff,   \* implementation: buffer (sequence of stream offsets), fill mark, parse mark
          err,
          ev
vars == <<blocks, pos, k, buf, recvOff, tlvOff, err, ev>>
Total(b) == IF Len(b) = 0 THEN 0 ELSE b[Len(b)].end
Complete(b, p) == Cardinality({ j \in 1..Len(b) : b[j].end <= p })
\* ---- abstract action and rule: frames = observed [size, hash] of blocks handed up by this read
Read(n, frames) ==
  /\ pos' = pos + n /\ k' = k + Len(frames)
  /\ ev' = [ev |-> "read", n |-> n, frames |-> frames]
  /\ UNCHANGED <<blocks, buf, recvOff, tlvOff, err>>
ReadOK(n, frames) ==
  LET c == Complete(blocks, pos + n)
  IN /\ Len(frames) = c - k
     /\ \A x \in 1..Len(frames) : frames[x].size = blocks[k + x].size /\ frames[x].hash = blocks[k + x].hash

\* ---- implementation-shaped: the block starting at stream offset o (0 if o is not a block start)
StartOf(j) == blocks[j].end - blocks[j].size + 1
BlockAt(o) == IF \E j \in 1..Len(blocks) : StartOf(j) = o THEN CHOOSE j \in 1..Len(blocks) : StartOf(j) = o ELSE 0
\* parse loop over the buffer content b between marks t..r; returns [t, delivered (sequence of offset sequences), err]
RECURSIVE Extract(_, _, _, _)
Extract(b, t, r, out) ==
  IF r - t < 1 THEN [t |-> t, out |-> out, err |-> FALSE]
  ELSE LET j == BlockAt(b[t + 1]) IN
       IF j = 0 THEN [t |-> t, out |-> out, err |-> TRUE]                         \* parse mark not at a block start: desynchronised
       ELSE IF r - t < blocks[j].hdr THEN [t |-> t, out |-> out, err |-> FALSE]      \* type/length not complete yet
       ELSE IF r - t >= blocks[j].size THEN Extract(b, t + blocks[j].size, r, Append(out, SubSeq(b, t + 1, t + blocks[j].size)))
       ELSE IF r - t > MaxPkt THEN [t |-> t, out |-> out, err |-> TRUE]
       ELSE [t |-> t, out |-> out, err |-> FALSE]
ImplRead(n) ==
  LET b1 == [i \in 1..BufLen |-> IF i > recvOff /\ i <= recvOff + n THEN pos + (i - recvOff) ELSE buf[i]]
      r1 == recvOff + n
      x  == Extract(b1, tlvOff, r1, <<>>)
      shift == r1 - x.t < MaxPkt
      src(i) == IF "BadCopy" \in Dev THEN x.t + i - 1 ELSE x.t + i       \* deviation: copy from one byte too early
      b2 == IF shift THEN [i \in 1..BufLen |-> IF i <= r1 - x.t /\ src(i) >= 1 THEN b1[src(i)] ELSE b1[i]] ELSE b1
  IN /\ n >= 1 /\ n <= BufLen - recvOff /\ pos + n <= Total(blocks) /\ ~err
     /\ buf' = b2 /\ recvOff' = (IF shift THEN r1 - x.t ELSE r1) /\ tlvOff' = (IF shift THEN 0 ELSE x.t)
     /\ pos' = pos + n /\ k' = k + Len(x.out) /\ err' = x.err
     /\ ev' = [ev |-> "read", n |-> n, out |-> x.out]
     /\ UNCHANGED blocks
\* ---- invariants of the implementation-shaped part
FramesAreBlocks == ev.ev = "read" /\ "out" \in DOMAIN ev =>
      \A x \in 1..Len(ev.out) : LET j == k - Len(ev.out) + x IN
          j <= Len(blocks) /\ ev.out[x] = [i \in 1..blocks[j].size |-> StartOf(j) + i - 1]
NoError == ~err
Bounded == recvOff <= BufLen /\ tlvOff <= recvOff
\* the unread region of the buffer is the corresponding slice of the stream
UnreadIsStream == \A i \in 1..(recvOff - tlvOff) : buf[tlvOff + i] = (pos - (recvOff - tlvOff)) + i
DeliveredAsSoonAsComplete == k = Complete(blocks, pos)
AllAtEof == pos = Total(blocks) => k = Len(blocks)
=============================================================================
