---- MODULE StreamMC ----
(* scaled constants: MaxPkt = 4, buffer of 3 packets, blocks of 2..4 bytes with 2- and 3-byte headers; *)
(* every stream of up to MaxBlocks blocks and every partition of it into reads                            *)
EXTENDS StreamFraming
CONSTANTS MaxBlocks
Kinds == { [hdr |-> 2, size |-> 2], [hdr |-> 2, size |-> 3], [hdr |-> 2, size |-> 4], [hdr |-> 3, size |-> 3], [hdr |-> 3, size |-> 4] }
RECURSIVE WithEnds(_, _, _)
WithEnds(s, i, off) == IF i > Len(s) THEN <<>> ELSE <<[hdr |-> s[i].hdr, size |-> s[i].size, end |-> off + s[i].size]>> \o WithEnds(s, i + 1, off + s[i].size)
Streams == UNION { [1..n -> Kinds] : n \in 1..MaxBlocks }
Init == /\ blocks \in { WithEnds(s, 1, 0) : s \in Streams }
        /\ pos = 0 /\ k = 0 /\ buf = [i \in 1..BufLen |-> 0] /\ recvOff = 0 /\ tlvOff = 0 /\ err = FALSE /\ ev = [ev |-> "0"]
Next == \E n \in 1..BufLen : ImplRead(n)
Spec == Init /\ [][Next]_vars
====
