---- MODULE LpTrace ----
(* Recorded sends and frame arrivals of the real NDNLPLinkService *)
EXTENDS LpLink, Json
CONSTANT TraceFile
VARIABLES l, hi
Trace == ndJsonDeserialize(TraceFile)
tvars == <<vars, l, hi>>
Ev == Trace[l]
TInit == store = Empty /\ done = Empty /\ ev = [ev |-> "0"] /\ l = 1 /\ hi = 0 /\ TLCSet(7, 0)
Fr == [seq |-> Ev.f.seq, idx |-> (IF Ev.f.idx < 0 THEN 0 ELSE Ev.f.idx), cnt |-> (IF Ev.f.cnt < 0 THEN 1 ELSE Ev.f.cnt)]
\* an unfragmented frame carries no sequence number: it is its own message
Step ==
  /\ l <= Len(Trace) /\ l' = l + 1 /\ hi' = l
  /\ \/ Ev.ev = "Reset" /\ store' = Empty /\ done' = Empty /\ ev' = [ev |-> "R"]
     \/ Ev.ev = "send" /\ UNCHANGED <<store, done>> /\ ev' = Ev
     \/ Ev.ev = "local" /\ UNCHANGED <<store, done>> /\ ev' = Ev
     \/ Ev.ev = "cong" /\ UNCHANGED <<store, done>> /\ ev' = Ev
     \/ Ev.ev = "rx" /\ Ev.f.seq >= 0 /\ Rx(Fr, Ev.delivered)
     \/ Ev.ev = "rx" /\ Ev.f.seq < 0 /\ UNCHANGED <<store, done>> /\ ev' = [ev |-> "rx1", m |-> Ev.m, delivered |-> Ev.delivered]
TSpec == TInit /\ [][Step]_tvars
HiWater == TLCSet(7, IF TLCGet(7) < hi THEN hi ELSE TLCGet(7))
Accepted == PrintT(<<"hiwater", TLCGet(7), Len(Trace)>>) /\ TLCGet(7) = Len(Trace)
Frames4(e) == [x \in 1..Len(e.frames) |-> e.frames[x]]
I_C10send == (ev.ev = "send") => SendOK(ev, Frames4(ev))
I_nopanic == hi >= 1 => ~("panic" \in DOMAIN Trace[hi])
\* an unfragmented frame is delivered at once, as itself
I_C10local == (ev.ev = "local") => LocalFieldsOK(ev)
\* congestion marks: only for a packet that came with one or on a face whose queue is over the threshold, always (on the first
\* fragment, which is where the receiver reads it) when the packet came with one; the packet object handed to the link service is left as it was
I_C10cong == (ev.ev = "cong") => /\ Len(ev.marks) >= 1 /\ ~ev.mutated
                                 /\ (\E x \in 1..Len(ev.marks) : ev.marks[x]) => (ev.up \/ ev.congested)
                                 /\ ev.up => ev.marks[1]
I_C10single == (ev.ev = "rx1") => ev.delivered = << ev.m >>
\* delivered packets are the original bytes with the original token and congestion mark
T_C10intact == [][(l <= Len(Trace) /\ Ev.ev = "rx") => Ev.intact]_tvars
====
