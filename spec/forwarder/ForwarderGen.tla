---- MODULE ForwarderGen ----
(* TLC as schedule generator: simulate Forwarder (witness Next) and dump the INPUTS of each   *)
(* behaviour as NDJSON rows in the trace-row format; harness/fwd_test.go TestFwdSched replays *)
(* them on the real thread.  Parameters are drawn with RandomElement (see DESIGN appendix A). *)
EXTENDS Forwarder, Json
CONSTANTS Depth, OutDir
VARIABLE hist
GNames == { <<"a">>, <<"a","b">>, <<"a","b","c">>, <<"localhost","x">>, <<>> }
GData  == { <<"a">>, <<"a","b">>, <<"a","b","c">>, <<"a","b","c","e">>, <<"localhost","x">>, <<"localhost","x","y">> }
Init == /\ now = 0 /\ up = Faces /\ pit = Empty /\ nextTok = 1 /\ dnl = Empty
        /\ cs = Empty /\ lru = <<>> /\ cap = 1 /\ csAdmit = TRUE /\ csServe = TRUE
        /\ fib = (<<"a">> :> (3 :> 2 @@ 4 :> 2)) @@ (<<>> :> (4 :> 1))
        /\ strat = (<<>> :> "best-route") @@ (<<"a","b">> :> "multicast")
        /\ ev = [kind |-> "0"]
        /\ hist = << [ev |-> "E", e |-> "fib+", p |-> <<"a">>, g |-> 3, c |-> 2], [ev |-> "E", e |-> "fib+", p |-> <<"a">>, g |-> 4, c |-> 2],
                     [ev |-> "E", e |-> "fib+", p |-> <<>>, g |-> 4, c |-> 1], [ev |-> "E", e |-> "strat+", p |-> <<"a","b">>, s |-> "multicast"] >>
DnlKnown(n, nonce) == [name |-> n, nonce |-> nonce] \in DOMAIN dnl
Toks == { pit[k].tok : k \in DOMAIN pit }
IWith(i) == LET j == [i EXCEPT !.dtok = i.f * 10, !.dnl = DnlKnown(i.n, i.nonce)]
            IN \E csn \in ImplCsSet(j) : \E S \in ImplSSet(j, csn) :
                RecvInterest(j, [S |-> S, csn |-> (IF ScopeOk(j.f, csn) THEN csn ELSE NoName), hit |-> csn # NoName, ex |-> ImplEx(j, csn), dins |-> ImplDinsI(j, csn)])
IStep == IWith([f |-> RandomElement(Faces), n |-> RandomElement(GNames), cbp |-> RandomElement({FALSE, FALSE, TRUE}),
                mbf |-> RandomElement({FALSE, FALSE, TRUE}), nonce |-> RandomElement({7, 8, 9}), life |-> RandomElement({1, 2, 3}),
                hop |-> RandomElement({-1, -1, -1, 0, 1, 2}), hints |-> <<>>, nh |-> -1, dtok |-> 0, dnl |-> FALSE])
DWith(d) == \E di \in ImplDinsDSet(d) : RecvData(d, [D |-> ImplD(d), dins |-> di])
DStep == DWith([f |-> RandomElement(Faces), n |-> RandomElement(GData), fresh |-> RandomElement({-1, 0, 1, 3}),
                tk |-> RandomElement({-1, -1, -1, -2} \cup Toks), wire |-> 0])
\* every environment change is enabled in every state (a disabled draw would end the simulated behaviour)
EWith(r) == \/ r.e = "fib+" /\ FibInsert(r.p, r.g, r.c)
            \/ r.e = "fib-" /\ (IF r.p \in DOMAIN fib THEN FibRemove(r.p, r.g) ELSE FibInsert(r.p, r.g, r.c))
            \/ r.e = "strat+" /\ SetStrategy(r.p, r.s)
            \/ r.e = "strat-" /\ (IF r.p # <<>> THEN UnsetStrategy(r.p) ELSE SetStrategy(r.p, r.s))
            \/ r.e = "cap" /\ SetCapacity(r.c - 1)
            \/ r.e = "face" /\ (IF r.g \in up THEN FaceDown(r.g) ELSE FaceUp(r.g))
EStep == EWith([e |-> RandomElement({"fib+", "fib+", "fib+", "fib-", "strat+", "strat-", "cap", "face"}),
                p |-> RandomElement({ <<>>, <<"a">>, <<"a","b">>, <<"localhost">> }),
                g |-> RandomElement(Faces), c |-> RandomElement({1, 2, 3}), s |-> RandomElement({"best-route", "multicast"})])
\* the simulator picks uniformly among the successors; repeated disjuncts are weights
Step == IStep \/ IStep \/ IStep \/ DStep \/ DStep \/ Tick \/ PitUpdate(ImplR, ImplDinsU(ImplR)) \/ DnlExpire(ImplX) \/ EStep
\* environment-visible part of an event (inputs only), in the trace-row format
In(e) == IF e.kind \in {"I", "D"} THEN [ev |-> e.kind, i |-> e.i]
         ELSE IF e.kind = "E" THEN [x \in (DOMAIN e \ {"kind"}) \cup {"ev"} |-> IF x = "ev" THEN "E" ELSE e[x]]
         ELSE [ev |-> e.kind]
Next == Len(hist) < Depth /\ Step /\ hist' = Append(hist, In(ev'))
Spec == Init /\ [][Next]_<<vars, hist>>
Dump == Len(hist) = Depth => ndJsonSerialize(OutDir \o "/s" \o ToString(TLCGet("stats").traces) \o ".ndjson", hist)
====
