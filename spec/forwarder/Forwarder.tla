----------------------------- MODULE Forwarder -----------------------------
(***************************************************************************)
(* One YaNFD forwarding thread: PIT (in/out records, tokens, expiry        *)
(* scheduling), CS (LRU, freshness), dead-nonce list, FIB/strategy lookup, *)
(* both strategies.  One action per critical section of fw/fw/thread.go.   *)
(*                                                                         *)
(* Observables are PARAMETERS of the actions (S, csn, ex, D, R, X); the    *)
(* state update uses the parameter, so the model follows what the          *)
(* implementation did.  What a property allows is a separate rule          *)
(* (RI_C02, RI_C07, RI_C08, RI_C09, RD_C01, RD_C09, PU_C08 ...) checked as *)
(* an action property over the event record `ev`.  Impl* operators are the *)
(* implementation-shaped witnesses used by the model-checking Next; with   *)
(* Dev = {} they describe the code the properties demand, with a deviation *)
(* name in Dev they describe what the shipped code does.                   *)
(***************************************************************************)
EXTENDS Integers, Sequences, FiniteSets, TLC

CONSTANTS Faces, LocalFaces, AdHocFaces, SuppBR, SuppMC, DnlLife, Regions, Dev

VARIABLES now, up, fib, strat, pit, nextTok, cs, lru, cap, csAdmit, csServe, dnl,
          ev      \* the last event with its observables (output only; not in the VIEW)
svars == <<now, up, fib, strat, pit, nextTok, cs, lru, cap, csAdmit, csServe, dnl>>
vars  == <<svars, ev>>

Empty   == [x \in {} |-> 0]
NoName  == <<"$none">>
NoHint  == <<"$nohint">>
IsPrefix(p, n) == Len(p) <= Len(n) /\ \A i \in 1..Len(p) : p[i] = n[i]
IsLocalhost(n) == Len(n) > 0 /\ n[1] = "localhost"
MaxS(S) == CHOOSE x \in S : \A y \in S : y <= x
MinS(S) == CHOOSE x \in S : \A y \in S : x <= y
Ext(fn, k, v) == [x \in DOMAIN fn \cup {k} |-> IF x = k THEN v ELSE fn[x]]
Drop(fn, K)   == [x \in DOMAIN fn \ K |-> fn[x]]
SeqToSet(s)   == { s[i] : i \in 1..Len(s) }
RemoveSeq(s, x) == SelectSeq(s, LAMBDA y : y # x)
Local(g)      == g \in LocalFaces
ScopeOk(g, n) == ~(~Local(g) /\ IsLocalhost(n))

(* ---------------- FIB / strategy: abstract longest-prefix match ----------- *)
FibMatches(n) == { p \in DOMAIN fib : IsPrefix(p, n) /\ DOMAIN fib[p] # {} }
NextHops(n) == IF FibMatches(n) = {} THEN Empty
               ELSE fib[CHOOSE p \in FibMatches(n) : \A q \in FibMatches(n) : Len(q) <= Len(p)]
StratMatches(n) == { p \in DOMAIN strat : IsPrefix(p, n) }
StrategyOf(n) == strat[CHOOSE p \in StratMatches(n) : \A q \in StratMatches(n) : Len(q) <= Len(p)]

(* ---------------- PIT ------------------------------------------------------ *)
NewEntry == [inr |-> Empty, outr |-> Empty, exp |-> -1, sat |-> FALSE, tok |-> nextTok]
RecExpiries(e) == { e.inr[g].exp : g \in DOMAIN e.inr } \cup { e.outr[g].exp : g \in DOMAIN e.outr }
LatestExp(e)   == MaxS({now} \cup RecExpiries(e))
Hint(hints) == IF Len(hints) = 0 THEN NoHint
               ELSE IF \E i \in 1..Len(hints) : \E r \in Regions : IsPrefix(r, hints[i]) THEN NoHint
               ELSE hints[1]
KeyOf(n, cbp, mbf, hints) == [name |-> n, cbp |-> cbp, mbf |-> mbf, hint |-> Hint(hints)]
EntryOf(key) == IF key \in DOMAIN pit THEN pit[key] ELSE NewEntry

(* ---------------- CS ------------------------------------------------------- *)
Fresh(nm)     == now < cs[nm].stale
FreshEdge(nm) == now = cs[nm].stale
CsOk(nm, mbf) == mbf => Fresh(nm)
CsCand(n, cbp, mbf) == { nm \in DOMAIN cs : /\ (nm = n \/ (cbp /\ IsPrefix(n, nm)))
                                            /\ (mbf => (Fresh(nm) \/ FreshEdge(nm))) }
CsMust(n, cbp, mbf) == n \in DOMAIN cs /\ (mbf => Fresh(n))
Evict(c, l, k) ==
  LET RECURSIVE Ev(_, _)
      Ev(cc, ll) == IF Len(ll) <= k THEN <<cc, ll>> ELSE Ev(Drop(cc, {Head(ll)}), Tail(ll))
  IN Ev(c, l)
CsInsert(n, stale, wire) ==
  IF n \in DOMAIN cs
  THEN <<Ext(cs, n, [stale |-> stale, wire |-> wire]), Append(RemoveSeq(lru, n), n)>>
  ELSE Evict(Ext(cs, n, [stale |-> stale, wire |-> wire]), Append(lru, n), IF cap < 0 THEN 0 ELSE cap)

\* dead-nonce list: (name, nonce) -> [lo, hi] : expiry counted from the first / the latest insertion
DnlAdd(d, K) == [x \in DOMAIN d \cup K |-> IF x \in DOMAIN d THEN (IF x \in K THEN [lo |-> d[x].lo, hi |-> now + DnlLife] ELSE d[x])
                                           ELSE [lo |-> now + DnlLife, hi |-> now + DnlLife]]
(* =================== incoming Interest ==================================== *)
IEarly(f, n, nonce, hop, dnlKnown) ==
   f \notin up \/ hop = 0 \/ (~Local(f) /\ IsLocalhost(n)) \/ nonce = -1 \/ dnlKnown
IDup(old, f, nonce) == \E g \in DOMAIN old.inr : g # f /\ old.inr[g].nonce = nonce
SuppOf(s) == IF s = "multicast" THEN SuppMC ELSE SuppBR
ISupp(old, nonce, s)   == \E g \in DOMAIN old.outr : old.outr[g].nonce # nonce /\ old.outr[g].ts + SuppOf(s) > now
ISuppEdge(old, nonce, s) == \E g \in DOMAIN old.outr : old.outr[g].nonce # nonce /\ old.outr[g].ts + SuppOf(s) = now
Hop1(hop) == IF hop > 0 THEN hop - 1 ELSE hop

\* i : record of inputs [f, n, cbp, mbf, nonce, life, hop, hints, nh, dtok, dnl]
\* o : record of observables [S, csn, hit, ex, dins]
\*     hit = the cache answered (the in-record of f was consumed); csn = name of the Data actually emitted,
\*     NoName when the answer could not be delivered (scope) or there was no answer
RecvInterest(i, o) ==
  LET f == i.f  n == i.n
      key  == KeyOf(n, i.cbp, i.mbf, i.hints)
      isNew == key \notin DOMAIN pit
      old  == EntryOf(key)
      pend == f \in DOMAIN old.inr
      inr1 == Ext(old.inr, f, [nonce |-> i.nonce, exp |-> now + i.life,
                               toks |-> IF pend THEN Append(old.inr[f].toks, i.dtok) ELSE <<i.dtok>>])
      e1   == [old EXCEPT !.inr = inr1]
      hit  == ~pend /\ csServe /\ o.hit
      viaFib == i.nh = -1
  IN
  /\ ev' = [kind |-> "I", i |-> i, o |-> o]
  /\ IF IEarly(f, n, i.nonce, i.hop, i.dnl) THEN UNCHANGED svars
     ELSE IF IDup(old, f, i.nonce) THEN
       /\ pit' = Ext(pit, key, old)
       /\ nextTok' = IF isNew THEN nextTok + 1 ELSE nextTok
       /\ UNCHANGED <<now, up, fib, strat, cs, lru, cap, csAdmit, csServe, dnl>>
     ELSE IF hit THEN
       /\ pit' = Ext(pit, key, [e1 EXCEPT !.inr = Drop(inr1, {f}), !.exp = o.ex])
       /\ nextTok' = IF isNew THEN nextTok + 1 ELSE nextTok
       /\ lru' = IF ~i.cbp /\ o.csn \in SeqToSet(lru) THEN Append(RemoveSeq(lru, o.csn), o.csn) ELSE lru
       /\ UNCHANGED <<now, up, fib, strat, cs, cap, csAdmit, csServe, dnl>>
     ELSE
       /\ pit' = Ext(pit, key,
              [e1 EXCEPT !.exp = o.ex,
                         !.outr = [g \in DOMAIN old.outr \cup (IF viaFib THEN o.S ELSE {}) |->
                                    IF viaFib /\ g \in o.S THEN [nonce |-> i.nonce, ts |-> now, exp |-> now + i.life]
                                    ELSE old.outr[g]]])
       /\ nextTok' = IF isNew THEN nextTok + 1 ELSE nextTok
       /\ dnl' = DnlAdd(dnl, o.dins)
       /\ UNCHANGED <<now, up, fib, strat, cs, lru, cap, csAdmit, csServe>>

(* ---- rules (evaluated in the pre-state of the step) ------------------------ *)
\* the consumer names the very (point-to-point) face its Interest arrived on as next hop (Dev "NhBackToArrival": the shipped shortcut sent it)
NhBack(i) == i.nh = i.f /\ i.nh \notin AdHocFaces /\ "NhBackToArrival" \notin Dev
IUsable(g, f, hop1) == g \in up /\ (g # f \/ g \in AdHocFaces) /\ ~(hop1 = 0 /\ ~Local(g))
IStage(i) ==   \* "early" | "dup" | "cs?" (cache consulted) | "fwd" (cache not consulted)
  LET old == EntryOf(KeyOf(i.n, i.cbp, i.mbf, i.hints))
  IN IF IEarly(i.f, i.n, i.nonce, i.hop, i.dnl) THEN "early"
     ELSE IF IDup(old, i.f, i.nonce) THEN "dup"
     ELSE IF i.f \notin DOMAIN old.inr /\ csServe THEN "cs?" ELSE "fwd"

RI_C07(i, o) ==
  IF IStage(i) # "cs?" THEN o.csn = NoName /\ ~o.hit
  ELSE /\ (o.csn # NoName => (o.hit /\ o.csn \in CsCand(i.n, i.cbp, i.mbf)))
       \* an answer that is found but not emitted is one the scope rule forbids on the requesting face
       /\ ((o.hit /\ o.csn = NoName) => \E nm \in CsCand(i.n, i.cbp, i.mbf) : ~ScopeOk(i.f, nm))
       /\ (CsMust(i.n, i.cbp, i.mbf) => o.hit)

RI_C02(i, o) ==
  LET key == KeyOf(i.n, i.cbp, i.mbf, i.hints)
      isNew == key \notin DOMAIN pit
      old == EntryOf(key)
      hop1 == Hop1(i.hop)
      fh == Hint(i.hints)
      lookup == IF fh # NoHint THEN fh ELSE i.n
      nh == NextHops(lookup)
      loose  == { g \in DOMAIN nh : IUsable(g, i.f, hop1) }
      strict == { g \in loose : g \notin DOMAIN old.inr \/ g = i.f }
      cheapest(U) == IF U = {} THEN {} ELSE { g \in U : nh[g] = MinS({ nh[x] : x \in U }) }
      stage == IStage(i)
  IN IF stage \in {"early", "dup"} \/ o.hit THEN o.S = {}
     ELSE IF i.nh # -1 THEN /\ o.S \subseteq {i.nh} /\ (i.nh \in up /\ ScopeOk(i.nh, i.n) /\ ~NhBack(i) => o.S = {i.nh}) /\ (i.nh \notin up => o.S = {})
                            /\ NhBack(i) => o.S = {}      \* the consumer-chosen next hop is no exception to "never back out of the arrival face"
     ELSE /\ o.S \subseteq loose
          /\ ISupp(old, i.nonce, StrategyOf(i.n)) => o.S = {}
          /\ IF StrategyOf(i.n) = "multicast"
             THEN (~ISupp(old, i.nonce, StrategyOf(i.n)) /\ ~ISuppEdge(old, i.nonce, StrategyOf(i.n))) => { g \in strict : ScopeOk(g, i.n) } \subseteq o.S
             ELSE /\ Cardinality(o.S) <= 1
                  /\ o.S \subseteq (cheapest(loose) \cup cheapest(strict) \cup cheapest({ g \in strict : ScopeOk(g, i.n) }))
          /\ (isNew /\ { g \in strict : ScopeOk(g, i.n) } # {}) => o.S # {}

RI_C09(i, o) == \A g \in o.S : ScopeOk(g, i.n)

RI_C08(i, o) ==   \* the touched entry must be (re)scheduled sensibly
  LET key == KeyOf(i.n, i.cbp, i.mbf, i.hints)
      old == EntryOf(key)
      stage == IStage(i)
      inrA == Ext(old.inr, i.f, [nonce |-> i.nonce, exp |-> now + i.life, toks |-> <<>>])
  IN IF stage \in {"early", "dup"} THEN TRUE
     ELSE IF o.hit
          THEN o.ex # -1 /\ o.ex >= now /\ o.ex <= LatestExp([old EXCEPT !.inr = Drop(inrA, {i.f})])
          ELSE o.ex # -1 /\ o.ex >= now /\ o.ex <= LatestExp([old EXCEPT !.inr = inrA])
                         /\ o.ex >= now + i.life

(* ---- implementation-shaped witnesses for model checking --------------------- *)
ImplCsSet(i) ==
  IF IStage(i) # "cs?" THEN {NoName}
  ELSE IF ~i.cbp THEN (IF i.n \in DOMAIN cs /\ CsOk(i.n, i.mbf) THEN {i.n} ELSE {NoName})
  ELSE IF i.n \in DOMAIN cs /\ CsOk(i.n, i.mbf) THEN {i.n}
  ELSE LET c == { nm \in DOMAIN cs : IsPrefix(i.n, nm) /\ CsOk(nm, i.mbf) } IN IF c = {} THEN {NoName} ELSE c

ImplSSet(i, csn) ==
  LET key == KeyOf(i.n, i.cbp, i.mbf, i.hints)
      old == EntryOf(key)
      hop1 == Hop1(i.hop)
      fh == Hint(i.hints)
      lookup == IF fh # NoHint THEN fh ELSE i.n
      nh == NextHops(lookup)
      scoped(g) == "NoOutInterestScope" \in Dev \/ ScopeOk(g, i.n)
      allowed == { g \in DOMAIN nh : g \notin DOMAIN old.inr \/ g = i.f }
      usable == { g \in allowed : IUsable(g, i.f, hop1) /\ scoped(g) }
      stage == IStage(i)
  IN IF stage \in {"early", "dup"} \/ csn # NoName THEN {{}}
     ELSE IF i.nh # -1 THEN (IF i.nh \in up /\ scoped(i.nh) /\ ~NhBack(i) THEN {{i.nh}} ELSE {{}})
     ELSE IF allowed = {} \/ ISupp(old, i.nonce, StrategyOf(i.n)) \/ usable = {} THEN {{}}
     ELSE IF StrategyOf(i.n) = "multicast" THEN {usable}
     ELSE { {g} : g \in { h \in usable : nh[h] = MinS({ nh[x] : x \in usable }) } }

ImplEx(i, csn) ==
  LET key == KeyOf(i.n, i.cbp, i.mbf, i.hints)
      old == EntryOf(key)
      inrA == Ext(old.inr, i.f, [nonce |-> i.nonce, exp |-> now + i.life, toks |-> <<>>])
  IN IF IStage(i) \in {"early", "dup"} THEN old.exp
     ELSE IF csn # NoName
          THEN (IF "CsHitNoExpiry" \in Dev THEN old.exp ELSE LatestExp([old EXCEPT !.inr = Drop(inrA, {i.f})]))
          ELSE LatestExp([old EXCEPT !.inr = inrA])

(* =================== incoming Data ======================================== *)
Satisfies(k, dn) == IsPrefix(k.name, dn) /\ (k.cbp \/ Len(k.name) = Len(dn))
\* d.tk : -1 = no token in this forwarder's format ; otherwise the token value echoed (-2: well-formed, unknown)
Matched(dn, tk) == IF tk = -1 THEN { k \in DOMAIN pit : Satisfies(k, dn) }
                   ELSE { k \in DOMAIN pit : pit[k].tok = tk }
DEarly(d) == d.f \notin up \/ (~Local(d.f) /\ IsLocalhost(d.n))

\* d : inputs [f, n, fresh, tk, wire] ; o : observables [D] (sequence of [face, tok])
RecvData(d, o) ==
  LET M  == Matched(d.n, d.tk)
      ci == IF csAdmit THEN CsInsert(d.n, now + (IF d.fresh < 0 THEN 0 ELSE d.fresh), d.wire) ELSE <<cs, lru>>
  IN
  /\ ev' = [kind |-> "D", i |-> d, o |-> o]
  /\ IF DEarly(d) THEN UNCHANGED svars
     ELSE
      /\ cs' = ci[1] /\ lru' = ci[2]
      /\ IF M = {} THEN UNCHANGED <<pit, dnl>>
         ELSE /\ pit' = [k \in DOMAIN pit |-> IF k \in M
                            THEN [pit[k] EXCEPT !.inr = Empty, !.outr = Empty, !.sat = TRUE, !.exp = now]
                            ELSE pit[k]]
              /\ dnl' = DnlAdd(dnl, o.dins)
      /\ UNCHANGED <<now, up, fib, strat, nextTok, cap, csAdmit, csServe>>

\* C01: every copy goes to a face holding an unsatisfied pending Interest the Data satisfies, one copy per
\*      (pending Interest, face), with a token that face supplied; every such pair other than the arrival
\*      face (face up, scope permitting, in-record unexpired) got its copy.  Per face: an injective
\*      assignment of the copies sent to g to the matched entries holding an in-record of g.
RD_C01(d, o) ==
  LET M  == IF DEarly(d) THEN {} ELSE Matched(d.n, d.tk)
      Dq == o.D
      Copies(g)  == { x \in 1..Len(Dq) : Dq[x].face = g }
      Holders(g) == { k \in M : g \in DOMAIN pit[k].inr }
      MustH(g)   == IF g = d.f \/ g \notin up \/ ~ScopeOk(g, d.n) THEN {}
                    ELSE { k \in Holders(g) : pit[k].inr[g].exp > now }
  IN /\ \A x \in 1..Len(Dq) : Dq[x].face \in Faces
     /\ \A g \in Faces :
          \E a \in [Copies(g) -> Holders(g)] :
             /\ \A x, y \in Copies(g) : x # y => a[x] # a[y]
             /\ \A x \in Copies(g) : Dq[x].tok \in SeqToSet(pit[a[x]].inr[g].toks)
             /\ MustH(g) \subseteq { a[x] : x \in Copies(g) }
RD_C09(d, o) == \A x \in 1..Len(o.D) : ScopeOk(o.D[x].face, d.n)

ImplD(d) ==   \* what the code emits, as a sequence ordered by (entry, face) -- order is irrelevant to the rules
  LET M == IF DEarly(d) THEN {} ELSE Matched(d.n, d.tk)
      single == Cardinality(M) = 1
      pairs == { <<k, g>> \in M \X Faces : g \in DOMAIN pit[k].inr /\ (single \/ g # d.f) /\ g \in up /\ ScopeOk(g, d.n) }
      RECURSIVE ToSeq(_)
      ToSeq(P) == IF P = {} THEN <<>>
                  ELSE LET p == CHOOSE q \in P : TRUE
                       IN <<[face |-> p[2], tok |-> Head(pit[p[1]].inr[p[2]].toks)]>> \o ToSeq(P \ {p})
  IN ToSeq(pairs)

\* cache answer of an Interest step: exactly one copy, to the requester, with a token it supplied (C01 last sentence)
RI_C01(i, o) == TRUE   \* carried by the trace spec: the Data emitted by a hit step is logged in o.D (see trace module)

ImplDinsI(i, csn) ==
  LET old == EntryOf(KeyOf(i.n, i.cbp, i.mbf, i.hints))
  IN IF IStage(i) \in {"early", "dup"} \/ csn # NoName \/ i.f \notin DOMAIN old.inr THEN {}
     ELSE {[name |-> i.n, nonce |-> old.inr[i.f].nonce]}
ImplDinsDSet(d) ==
  LET M == IF DEarly(d) THEN {} ELSE Matched(d.n, d.tk)
  IN IF M = {} THEN {{}} ELSE { { [name |-> d.n, nonce |-> pit[k0].outr[g].nonce] : g \in DOMAIN pit[k0].outr } : k0 \in M }
ImplDinsU(R) == UNION { { [name |-> k.name, nonce |-> pit[k].outr[g].nonce] : g \in DOMAIN pit[k].outr } : k \in R }
(* =================== time, reaper, dead-nonce expiry ======================== *)
Tick == /\ now' = now + 1 /\ ev' = [kind |-> "T"]
        /\ UNCHANGED <<up, fib, strat, pit, nextTok, cs, lru, cap, csAdmit, csServe, dnl>>

Overdue     == { k \in DOMAIN pit : pit[k].exp # -1 /\ pit[k].exp < now }
OverdueEdge == { k \in DOMAIN pit : pit[k].exp # -1 /\ pit[k].exp = now }
PU_C08(R)   == Overdue \subseteq R /\ R \subseteq (Overdue \cup OverdueEdge)
ImplR       == Overdue \cup OverdueEdge
PitUpdate(R, dins) ==
  /\ ev' = [kind |-> "U", R |-> R]
  /\ pit' = Drop(pit, R)
  /\ dnl' = DnlAdd(dnl, dins)
  /\ UNCHANGED <<now, up, fib, strat, nextTok, cs, lru, cap, csAdmit, csServe>>

DnlExpire(X) ==
  /\ X \subseteq DOMAIN dnl
  /\ ev' = [kind |-> "X", X |-> X]
  /\ dnl' = Drop(dnl, X)
  /\ UNCHANGED <<now, up, fib, strat, pit, nextTok, cs, lru, cap, csAdmit, csServe>>
DX_C08(X) == { x \in DOMAIN dnl : dnl[x].hi < now } \subseteq X /\ X \subseteq { x \in DOMAIN dnl : dnl[x].lo <= now }
ImplX == { x \in DOMAIN dnl : dnl[x].lo < now }

(* =================== environment ============================================ *)
Env(r) == ev' = ("kind" :> "E") @@ r   \* r: record [e, p, g, c, s] of the change
FibInsert(p, g, c) == /\ fib' = Ext(fib, p, Ext(IF p \in DOMAIN fib THEN fib[p] ELSE Empty, g, c)) /\ Env([e |-> "fib+", p |-> p, g |-> g, c |-> c])
                      /\ UNCHANGED <<now, up, strat, pit, nextTok, cs, lru, cap, csAdmit, csServe, dnl>>
FibRemove(p, g) == /\ p \in DOMAIN fib /\ fib' = [fib EXCEPT ![p] = Drop(@, {g})] /\ Env([e |-> "fib-", p |-> p, g |-> g])
                   /\ UNCHANGED <<now, up, strat, pit, nextTok, cs, lru, cap, csAdmit, csServe, dnl>>
SetStrategy(p, s) == /\ strat' = Ext(strat, p, s) /\ Env([e |-> "strat+", p |-> p, s |-> s])
                     /\ UNCHANGED <<now, up, fib, pit, nextTok, cs, lru, cap, csAdmit, csServe, dnl>>
UnsetStrategy(p) == /\ strat' = (IF p = <<>> THEN strat ELSE Drop(strat, {p})) /\ Env([e |-> "strat-", p |-> p])
                    /\ UNCHANGED <<now, up, fib, pit, nextTok, cs, lru, cap, csAdmit, csServe, dnl>>
SetCapacity(c) == cap' = c /\ Env([e |-> "cap", c |-> c]) /\ UNCHANGED <<now, up, fib, strat, pit, nextTok, cs, lru, csAdmit, csServe, dnl>>
FaceDown(g) == up' = up \ {g} /\ Env([e |-> "face-", g |-> g]) /\ UNCHANGED <<now, fib, strat, pit, nextTok, cs, lru, cap, csAdmit, csServe, dnl>>
FaceUp(g)   == up' = up \cup {g} /\ Env([e |-> "face+", g |-> g]) /\ UNCHANGED <<now, fib, strat, pit, nextTok, cs, lru, cap, csAdmit, csServe, dnl>>

(* =================== properties ============================================= *)
\* action properties: the rule of the event just taken, evaluated on the state it was taken in
P_C01 == [][ev'.kind = "D" => RD_C01(ev'.i, ev'.o)]_vars
P_C02 == [][ev'.kind = "I" => RI_C02(ev'.i, ev'.o)]_vars
P_C07 == [][ev'.kind = "I" => RI_C07(ev'.i, ev'.o)]_vars
P_C08 == [][(ev'.kind = "I" => RI_C08(ev'.i, ev'.o)) /\ (ev'.kind = "U" => PU_C08(ev'.R)) /\ (ev'.kind = "X" => DX_C08(ev'.X))]_vars
P_C09 == [][(ev'.kind = "I" => RI_C09(ev'.i, ev'.o)) /\ (ev'.kind = "D" => RD_C09(ev'.i, ev'.o))]_vars
\* state invariants
CsConsistent == Len(lru) = Cardinality(DOMAIN cs) /\ SeqToSet(lru) = DOMAIN cs /\ (cap >= 0 => TRUE)
AllScheduled == \A k \in DOMAIN pit : pit[k].exp # -1
TokensUnique == \A k1, k2 \in DOMAIN pit : pit[k1].tok = pit[k2].tok => k1 = k2
\* ---- which faces are local (C09 rests on this classification, made where a transport is created) -----------------
\* a face is local iff its peer is on this host: a loopback address, a Unix socket, or the internal (management) face
FaceScope(kind, loopback) == IF kind \in {"unix", "internal"} \/ loopback THEN "local" ELSE "nonlocal"
=========================================================================
