---- MODULE NodeTrace ----
(* Trace specification for harness/node_test.go: NT real forwarding threads (Run loops) behind real NDNLPv2 link *)
(* services; every row is one packet injected as a frame into a face, with the threads it was queued to and      *)
(* everything the node emitted afterwards.  Rules are separate properties.                                      *)
EXTENDS Node, Json
CONSTANT TraceFile
VARIABLES l, hi
Trace == ndJsonDeserialize(TraceFile)
tvars == <<vars, l, hi>>
Ev == Trace[l]
TInit == /\ nt = 1 /\ now = 0 /\ hmap = Empty /\ pend = Empty /\ ent = Empty /\ cs = [t \in 0..0 |-> {}] /\ lastI = 0
         /\ ev = [kind |-> "0"] /\ l = 1 /\ hi = 0 /\ TLCSet(7, 0)
Reset == /\ nt' = Ev.nt /\ now' = 0 /\ hmap' = Empty /\ pend' = Empty /\ ent' = Empty /\ cs' = [t \in 0..(Ev.nt - 1) |-> {}] /\ lastI' = 0
         /\ ev' = [kind |-> "R"]
Tk(x) == IF x.thr = -1 THEN NoTok ELSE [thr |-> x.thr, tok |-> x.tok]
IIn  == [f |-> Ev.i.f, n |-> Ev.i.n, cbp |-> Ev.i.cbp, dtok |-> Ev.i.dtok]
\* the cache answered iff the Interest was not refused and either Data came back or the requester's in-record is gone
IOut == [thr |-> Ev.o.thr, etok |-> Ev.o.etok, hit |-> (~IEarly(IIn) /\ (Len(Ev.o.D) > 0 \/ (Ev.o.etok # 0 /\ ~Ev.o.inrec))),
         up |-> { [face |-> Ev.o.up[k].face, thr |-> Ev.o.up[k].thr, tok |-> Ev.o.up[k].tok] : k \in 1..Len(Ev.o.up) },
         D |-> [k \in 1..Len(Ev.o.D) |-> [face |-> Ev.o.D[k].face, tok |-> Ev.o.D[k].tok]]]
DIn  == [f |-> Ev.i.f, n |-> Ev.i.n, tk |-> Tk(Ev.i.tk)]
DOut == [T |-> Ev.o.T, D |-> [k \in 1..Len(Ev.o.D) |-> [face |-> Ev.o.D[k].face, tok |-> Ev.o.D[k].tok]]]
Step ==
  /\ l <= Len(Trace) /\ l' = l + 1 /\ hi' = l
  /\ \/ Ev.ev = "Reset" /\ Reset
     \/ Ev.ev = "I" /\ NodeInterest(IIn, IOut)
     \/ Ev.ev = "D" /\ NodeData(DIn, DOut)
     \/ Ev.ev = "T" /\ Tick
     \/ Ev.ev = "Q" /\ Quiet([t \in 0..(Len(Ev.q) - 1) |-> Ev.q[t + 1]])
     \/ Ev.ev = "P" /\ UNCHANGED svars /\ ev' = [kind |-> "P"]
TSpec == TInit /\ [][Step]_tvars
HiWater == TLCSet(7, IF TLCGet(7) < hi THEN hi ELSE TLCGet(7))
Accepted == PrintT(<<"hiwater", TLCGet(7), Len(Trace)>>) /\ TLCGet(7) = Len(Trace)

IsI == l <= Len(Trace) /\ Ev.ev = "I"
IsD == l <= Len(Trace) /\ Ev.ev = "D"
IsQ == l <= Len(Trace) /\ Ev.ev = "Q"
T_nopanic == [][~(l <= Len(Trace) /\ Ev.ev = "P")]_tvars
\* C01 at node level
T_N01dispatch == [][IsD => ND_dispatch(DIn, DOut)]_tvars
T_N01copies   == [][IsD => ND_C01(DIn, DOut)]_tvars
T_N01hit      == [][IsI => NI_hit(IIn, IOut)]_tvars
T_N01tok      == [][IsI => NI_tok(IIn, IOut)]_tvars
\* every copy is the Data that arrived, byte for byte; emitted Interests are the Interest that arrived (name)
T_N01same     == [][(IsD => \A k \in 1..Len(Ev.o.D) : Ev.o.D[k].same) /\ (IsI => \A k \in 1..Len(Ev.o.up) : Ev.o.up[k].same)]_tvars
\* C02 at node level: a name has one thread (aggregation, suppression and loop detection are per thread)
T_N02hash     == [][IsI => NI_hash(IIn, IOut)]_tvars
\* no Interest ever leaves on the face it came from, and a Data arrival never causes an Interest
T_N02noI      == [][(IsD => Ev.o.nI = 0) /\ (IsI => \A k \in 1..Len(Ev.o.up) : Ev.o.up[k].face # Ev.i.f)]_tvars
\* C08 at node level
T_N08quiet    == [][IsQ => NQ_C08([t \in 0..(Len(Ev.q) - 1) |-> Ev.q[t + 1]])]_tvars
\* C09 at node level (through the real link services)
T_N09scope    == [][(IsI => NI_scope(IIn, IOut) /\ (IEarly(IIn) => (Len(Ev.o.up) = 0 /\ Len(Ev.o.D) = 0 /\ ~Ev.o.inrec)))
                    /\ (IsD => ND_scope(DIn, DOut) /\ (DEarly(DIn) => Len(Ev.o.D) = 0))]_tvars
====
