----------------------------- MODULE Node -----------------------------
(***************************************************************************)
(* The whole forwarder as a node: NT forwarding threads behind the link    *)
(* services' dispatch (fw/face/link-service.go dispatchInterest /          *)
(* dispatchData, fw/fw/thread.go HashNameToFwThread /                      *)
(* HashNameToAllPrefixFwThreads, the thread id carried in the PIT token).  *)
(* What one thread does with a packet is Forwarder.tla; this module is     *)
(* about WHICH threads see a packet and what the node as a whole emits:    *)
(* the statement of C01 is about the node, not about a thread.             *)
(*                                                                         *)
(* One action per packet arrival at a face.  Observables are parameters:   *)
(*   Interest: thr (thread it was queued to), etok (token of the PIT entry *)
(*             it ended up in), up (Interests emitted, with their tokens), *)
(*             hit / D (cache answer)                                      *)
(*   Data    : T (threads it was queued to, in order), D (copies emitted   *)
(*             by all of them)                                             *)
(* The hash function is not modelled: `hmap` learns it from the dispatches *)
(* and NI_hash demands that it is a function (same name, same thread) -    *)
(* aggregation, loop detection and the return path all rest on that.       *)
(* Time: ticks of one second; lifetimes are Life + 0.5 s and packets are   *)
(* injected in the first half of a tick, so "alive" is never ambiguous.    *)
(***************************************************************************)
EXTENDS Integers, Sequences, FiniteSets, TLC

CONSTANTS Faces, LocalFaces, Life, Dev

VARIABLES nt,     \* number of forwarding threads (fixed during an execution)
          now,    \* ticks
          hmap,   \* name -> thread, as learned from the dispatch of Interests
          pend,   \* <<thread, key, face>> -> [dtoks, exp] : unsatisfied in-records
          ent,    \* <<thread, key>> -> token of the PIT entry (as last observed)
          cs,     \* thread -> set of names cached there
          lastI,  \* tick of the latest Interest accepted
          ev
svars == <<nt, now, hmap, pend, ent, cs, lastI>>
vars  == <<svars, ev>>

Threads == 0..(nt - 1)
Empty   == [x \in {} |-> 0]
NoTok   == [thr |-> -1, tok |-> -1]
IsPrefix(p, n) == Len(p) <= Len(n) /\ \A i \in 1..Len(p) : p[i] = n[i]
IsLocalhost(n) == Len(n) > 0 /\ n[1] = "localhost"
Local(g)       == g \in LocalFaces
ScopeOk(g, n)  == ~(~Local(g) /\ IsLocalhost(n))
Ext(fn, k, v)  == [x \in DOMAIN fn \cup {k} |-> IF x = k THEN v ELSE fn[x]]
Drop(fn, K)    == [x \in DOMAIN fn \ K |-> fn[x]]
SeqToSet(s)    == { s[i] : i \in 1..Len(s) }
Key(n, cbp)    == [name |-> n, cbp |-> cbp]
Satisfies(k, dn) == IsPrefix(k.name, dn) /\ (k.cbp \/ Len(k.name) = Len(dn))
Alive(x)       == pend[x].exp >= now
LiveEnts       == { <<x[1], x[2]>> : x \in { y \in DOMAIN pend : Alive(y) } }
\* records the open finding "RootSkipped" is about: Interests with the empty name
Exempt(x)      == "RootSkipped" \in Dev /\ x[2].name = <<>>

(* =================== Interest arrives on face i.f ========================== *)
\* i : [f, n, cbp, dtok]    o : [thr, etok, up, hit, D]
IEarly(i) == ~Local(i.f) /\ IsLocalhost(i.n)
NodeInterest(i, o) ==
  LET key == Key(i.n, i.cbp)
      x   == <<o.thr, key, i.f>>
      old == IF x \in DOMAIN pend THEN pend[x].dtoks ELSE {}
  IN
  /\ ev' = [kind |-> "I", i |-> i, o |-> o]
  /\ hmap' = IF i.n \in DOMAIN hmap THEN hmap ELSE Ext(hmap, i.n, o.thr)
  /\ IF IEarly(i) THEN UNCHANGED <<nt, now, pend, ent, cs, lastI>>
     ELSE /\ ent' = Ext(ent, <<o.thr, key>>, o.etok)
          /\ pend' = IF o.hit THEN pend ELSE Ext(pend, x, [dtoks |-> old \cup {i.dtok}, exp |-> now + Life])
          /\ lastI' = now
          /\ UNCHANGED <<nt, now, cs>>

\* the same name always reaches the same thread; /localhost goes to thread 0 (where management lives)
NI_hash(i, o) == /\ o.thr \in Threads
                 /\ (i.n \in DOMAIN hmap => o.thr = hmap[i.n])
                 /\ (IsLocalhost(i.n) => o.thr = 0)
\* every Interest sent upstream names its thread and its entry; tokens identify entries within a thread
NI_tok(i, o) ==
  LET key == Key(i.n, i.cbp) IN
  IEarly(i) \/
  /\ \A u \in o.up : u.thr = o.thr /\ u.tok = o.etok
  /\ (<<o.thr, key>> \in LiveEnts => o.etok = ent[<<o.thr, key>>])
  /\ \A e \in LiveEnts : (e[1] = o.thr /\ e[2] # key) => ent[e] # o.etok
\* a cache answer: only from that thread's store, to the requester alone with its token, instead of forwarding
NI_hit(i, o) ==
  IF IEarly(i) THEN ~o.hit /\ o.up = {} /\ o.D = <<>>
  ELSE IF o.hit THEN /\ \E nm \in cs[o.thr] : nm = i.n \/ (i.cbp /\ IsPrefix(i.n, nm))
                     /\ o.up = {}
                     /\ Len(o.D) <= 1 /\ \A k \in 1..Len(o.D) : o.D[k] = [face |-> i.f, tok |-> i.dtok]
                     \* an answer found but not emitted is one the scope rule forbids on the requesting face
                     /\ (Len(o.D) = 0 => \E nm \in cs[o.thr] : (nm = i.n \/ (i.cbp /\ IsPrefix(i.n, nm))) /\ ~ScopeOk(i.f, nm))
       ELSE o.D = <<>>
NI_scope(i, o) == \A u \in o.up : ScopeOk(u.face, i.n) /\ u.face \in Faces

(* =================== Data arrives on face d.f ============================== *)
\* d : [f, n, tk]  (tk = NoTok: no token in this forwarder's format)     o : [T, D]
DEarly(d) == ~Local(d.f) /\ IsLocalhost(d.n)
\* what thread t matches when the Data reaches it (fw/fw/thread.go: by token number if there is one, else by name)
MatchIn(t, d) == IF d.tk = NoTok THEN { x \in DOMAIN pend : x[1] = t /\ Satisfies(x[2], d.n) }
                 ELSE { x \in DOMAIN pend : x[1] = t /\ ent[<<t, x[2]>>] = d.tk.tok }
\* what the statement of C01 says the Data satisfies, node-wide
Want(d) == IF DEarly(d) THEN {}
           ELSE IF d.tk = NoTok THEN { x \in DOMAIN pend : Satisfies(x[2], d.n) }
           ELSE { x \in DOMAIN pend : x[1] = d.tk.thr /\ ent[<<x[1], x[2]>>] = d.tk.tok }
NodeData(d, o) ==
  LET TS == SeqToSet(o.T)
      consumed == IF DEarly(d) THEN {} ELSE UNION { MatchIn(t, d) : t \in TS \cap Threads }
  IN
  /\ ev' = [kind |-> "D", i |-> d, o |-> o]
  /\ pend' = Drop(pend, consumed)
  /\ cs' = [t \in Threads |-> IF t \in TS /\ ~DEarly(d) THEN cs[t] \cup {d.n} ELSE cs[t]]
  /\ UNCHANGED <<nt, now, hmap, ent, lastI>>

\* the Data is shown to every thread that holds a pending Interest it satisfies, once
ND_dispatch(d, o) ==
  /\ \A a, b \in 1..Len(o.T) : a # b => o.T[a] # o.T[b]
  /\ SeqToSet(o.T) \subseteq Threads
  /\ { x[1] : x \in { y \in Want(d) : Alive(y) /\ ~(d.tk = NoTok /\ Exempt(y)) } } \subseteq SeqToSet(o.T)
\* C01 for the node: per face, the copies are an injective choice of pending Interests the Data satisfies, each with a
\* token that face supplied, and every alive one on another face (scope permitting) is among them
ND_C01(d, o) ==
  LET Dq == o.D
      W  == Want(d)
      Copies(g)  == { k \in 1..Len(Dq) : Dq[k].face = g }
      Holders(g) == { x \in W : x[3] = g }
      MustH(g)   == IF g = d.f \/ ~ScopeOk(g, d.n) THEN {} ELSE { x \in Holders(g) : Alive(x) /\ ~(d.tk = NoTok /\ Exempt(x)) }
  IN /\ \A k \in 1..Len(Dq) : Dq[k].face \in Faces
     /\ \A g \in Faces :
          \E a \in [Copies(g) -> Holders(g)] :
             /\ \A k, m \in Copies(g) : k # m => a[k] # a[m]
             /\ \A k \in Copies(g) : Dq[k].tok \in pend[a[k]].dtoks
             /\ MustH(g) \subseteq { a[k] : k \in Copies(g) }
ND_scope(d, o) == \A k \in 1..Len(o.D) : ScopeOk(o.D[k].face, d.n)

(* =================== time ================================================== *)
Tick == /\ now' = now + 1
        \* an entry is reaped when its latest record has expired; until then its expired in-records stay in it
        /\ pend' = Drop(pend, { x \in DOMAIN pend : \A y \in DOMAIN pend : (y[1] = x[1] /\ y[2] = x[2]) => pend[y].exp < now + 1 })
        /\ ev' = [kind |-> "T"]
        /\ UNCHANGED <<nt, hmap, ent, cs, lastI>>
\* q : thread -> number of PIT entries it reports.  Once every lifetime has elapsed no thread holds anything.
Quiet(q) == ev' = [kind |-> "Q", q |-> q] /\ UNCHANGED svars
NQ_C08(q) == (now > lastI + Life + 1) => \A t \in DOMAIN q : q[t] = 0

(* =================== the dispatch as coded (witness for model checking) ==== *)
\* H : name -> thread (the hash).  Dev = {} is a dispatch that satisfies the statement for every name.
\* "RootSkipped"       : HashNameToAllPrefixFwThreads starts at the one-component prefix and sends /localhost Data to
\*                       thread 0 only, so a pending Interest with the EMPTY name is not shown token-less Data
\*                       (open finding; the rules exempt exactly those records when this element is in Dev)
\* "ExactOnlyNonLocal" : token-less Data from a non-local face reached the exact-name thread only (repaired)
PrefixThreads(H, n) == { H[SubSeq(n, 1, k)] : k \in (IF "RootSkipped" \in Dev THEN 1 ELSE 0)..Len(n) }
ImplT(H, d) ==
  IF d.tk # NoTok THEN (IF d.tk.thr \in Threads THEN {d.tk.thr} ELSE {})
  ELSE IF ~Local(d.f) /\ "ExactOnlyNonLocal" \in Dev THEN {H[d.n]}
  ELSE IF IsLocalhost(d.n) THEN {0} \cup (IF "RootSkipped" \in Dev THEN {} ELSE {H[<<>>]})
  ELSE PrefixThreads(H, d.n)

(* =================== properties ============================================ *)
P_Node == [][/\ (ev'.kind = "I" => NI_hash(ev'.i, ev'.o) /\ NI_tok(ev'.i, ev'.o) /\ NI_hit(ev'.i, ev'.o) /\ NI_scope(ev'.i, ev'.o))
             /\ (ev'.kind = "D" => ND_dispatch(ev'.i, ev'.o) /\ ND_C01(ev'.i, ev'.o) /\ ND_scope(ev'.i, ev'.o))
             /\ (ev'.kind = "Q" => NQ_C08(ev'.q))]_vars
=========================================================================
