---- MODULE NodeMC ----
(* Exhaustive, depth-bounded model checking of Node over EVERY hash function of a small name universe:       *)
(* Next uses the dispatch as coded (ImplT) and per-thread matching; P_Node must hold in every transition.   *)
(* Dev = {} is the repaired dispatch; Dev = {"ExactOnlyNonLocal"} / {"RootSkipped"} is the code as shipped  *)
(* and TLC exhibits the lost Data.                                                                          *)
EXTENDS Node
CONSTANTS NT, MaxDepth, WithRoot
VARIABLES H, nextTok
MCNames == { <<"a">>, <<"a","b">>, <<"localhost","x">> } \cup (IF WithRoot THEN { <<>> } ELSE {})
MCData  == { <<"a">>, <<"a","b">>, <<"a","b","c">>, <<"localhost","x">> }
AllNames == MCNames \cup MCData \cup { <<>>, <<"localhost">> }
mvars == <<vars, H, nextTok>>
Init == /\ nt = NT /\ now = 0 /\ hmap = Empty /\ pend = Empty /\ ent = Empty /\ cs = [t \in 0..(NT - 1) |-> {}] /\ lastI = 0
        /\ ev = [kind |-> "0"]
        /\ H \in { h \in [AllNames -> 0..(NT - 1)] : \A n \in AllNames : IsLocalhost(n) => h[n] = 0 }
        /\ nextTok = [t \in 0..(NT - 1) |-> 1]
IStep == \E f \in Faces, n \in MCNames, cbp \in BOOLEAN :
           LET i == [f |-> f, n |-> n, cbp |-> cbp, dtok |-> f * 10]
               t == H[n]
               key == Key(n, cbp)
               live == <<t, key>> \in LiveEnts
               etok == IF live THEN ent[<<t, key>>] ELSE nextTok[t]
               x == <<t, key, f>>
               cand == \E nm \in cs[t] : nm = n \/ (cbp /\ IsPrefix(n, nm))
               hit == ~IEarly(i) /\ cand /\ x \notin DOMAIN pend
               ups == { g \in Faces \ {f} : ScopeOk(g, n) }    \* which faces the strategy picks is Forwarder.tla's business
           IN /\ NodeInterest(i, [thr |-> t, etok |-> etok, hit |-> hit,
                                  up |-> IF hit \/ IEarly(i) THEN {} ELSE { [face |-> g, thr |-> t, tok |-> etok] : g \in ups },
                                  D |-> IF hit THEN <<[face |-> f, tok |-> i.dtok]>> ELSE <<>>])
              /\ nextTok' = IF live \/ IEarly(i) THEN nextTok ELSE [nextTok EXCEPT ![t] = @ + 1]
              /\ UNCHANGED H
ToSeq(S) == LET RECURSIVE F(_)
                F(P) == IF P = {} THEN <<>> ELSE LET p == CHOOSE q \in P : TRUE IN <<p>> \o F(P \ {p})
            IN F(S)
DStep == \E f \in Faces, n \in MCData, tk \in {NoTok, [thr |-> NT, tok |-> 1]} \cup { [thr |-> e[1], tok |-> ent[e]] : e \in LiveEnts } :
           LET d == [f |-> f, n |-> n, tk |-> tk]
               T == ImplT(H, d)
               got == IF DEarly(d) THEN {} ELSE UNION { MatchIn(t, d) : t \in T }
               single(x) == Cardinality({ <<y[1], y[2]>> : y \in MatchIn(x[1], d) }) = 1
               outs == { x \in got : (x[3] # f \/ single(x)) /\ ScopeOk(x[3], n) }
           IN /\ NodeData(d, [T |-> ToSeq(T), D |-> [k \in 1..Cardinality(outs) |-> LET x == ToSeq(outs)[k] IN [face |-> x[3], tok |-> CHOOSE v \in pend[x].dtoks : TRUE]]])
              /\ UNCHANGED <<H, nextTok>>
TStep == Tick /\ UNCHANGED <<H, nextTok>>
QStep == Quiet([t \in Threads |-> Cardinality({ e \in LiveEnts : e[1] = t })]) /\ UNCHANGED <<H, nextTok>>
Next == IStep \/ DStep \/ TStep \/ QStep
Spec == Init /\ [][Next]_mvars
Constr == TLCGet("level") <= MaxDepth
View == <<svars, H, nextTok>>
====
