---- MODULE ForwarderTrace ----
(***************************************************************************)
(* Trace specification: a recorded execution of the real fw.Thread         *)
(* (harness/fwd_test.go) is a behaviour of Forwarder.  One trace line =    *)
(* one Forwarder action; inputs and observables are bound from the log,    *)
(* the state evolves by the module's own actions.  Step never conjoins a   *)
(* property rule: rules are checked as PROPERTIES (one cfg per property),  *)
(* so a rejected rule names the property.  Many executions are             *)
(* concatenated, separated by Reset lines.                                 *)
(***************************************************************************)
EXTENDS Forwarder, Json
CONSTANT TraceFile
VARIABLES l, hi
Trace == ndJsonDeserialize(TraceFile)
TraceRegions == { <<"r">> }
tvars == <<vars, l, hi>>
Ev == Trace[l]

TInit ==
  /\ now = 0 /\ up = Faces /\ pit = Empty /\ nextTok = 1 /\ dnl = Empty
  /\ cs = Empty /\ lru = <<>> /\ cap = 0 /\ csAdmit = TRUE /\ csServe = TRUE
  /\ fib = Empty /\ strat = (<<>> :> "best-route")
  /\ ev = [kind |-> "0"] /\ l = 1 /\ hi = 0 /\ TLCSet(7, 0)

Reset(c) ==
  /\ now' = 0 /\ up' = Faces /\ pit' = Empty /\ nextTok' = 1 /\ dnl' = Empty
  /\ cs' = Empty /\ lru' = <<>> /\ cap' = c /\ csAdmit' = TRUE /\ csServe' = TRUE
  /\ fib' = Empty /\ strat' = (<<>> :> "best-route")
  /\ ev' = [kind |-> "R"]

IIn == [f |-> Ev.i.f, n |-> Ev.i.n, cbp |-> Ev.i.cbp, mbf |-> Ev.i.mbf, nonce |-> Ev.i.nonce, life |-> Ev.i.life,
        hop |-> Ev.i.hop, hints |-> Ev.i.hints, nh |-> Ev.i.nh, dtok |-> Ev.i.dtok, dnl |-> Ev.i.dnl]
Dins == { [name |-> Ev.dins[x].name, nonce |-> Ev.dins[x].nonce] : x \in 1..Len(Ev.dins) }
\* the cache answered iff the step was not refused early / as a duplicate and the requester's in-record is gone afterwards
IOut == [S |-> SeqToSet(Ev.o.S), csn |-> Ev.o.csn, ex |-> Ev.o.ex, dins |-> Dins,
         hit |-> (IStage(IIn) = "cs?" /\ (~Ev.o.inrec \/ Ev.o.csn # NoName))]
DIn == [f |-> Ev.i.f, n |-> Ev.i.n, fresh |-> Ev.i.fresh, wire |-> Ev.i.wire, tk |-> Ev.i.tk]
DOut == [D |-> [x \in 1..Len(Ev.o.D) |-> [face |-> Ev.o.D[x].face, tok |-> Ev.o.D[x].tok]], dins |-> Dins]
KeySet(s) == { [name |-> s[x].name, cbp |-> s[x].cbp, mbf |-> s[x].mbf, hint |-> s[x].hint] : x \in 1..Len(s) }
\* the token the model expects on Interests this entry emits via the FIB (tokens are logged by creation order)
EntryTok(i) == EntryOf(KeyOf(i.n, i.cbp, i.mbf, i.hints)).tok

Step ==
  /\ l <= Len(Trace) /\ l' = l + 1 /\ hi' = l
  /\ \/ Ev.ev = "Reset" /\ Reset(Ev.cap)
     \/ Ev.ev = "I" /\ RecvInterest(IIn, IOut)
     \/ Ev.ev = "D" /\ RecvData(DIn, DOut)
     \/ Ev.ev = "T" /\ Tick
     \/ Ev.ev = "Q" /\ UNCHANGED svars /\ ev' = [kind |-> "Q"]
     \/ Ev.ev = "P" /\ UNCHANGED svars /\ ev' = [kind |-> "P"]
     \/ Ev.ev = "F" /\ UNCHANGED svars /\ ev' = [kind |-> "F"]          \* a transport was created: its scope is judged by T_C09scope
     \/ Ev.ev = "U" /\ PitUpdate(KeySet(Ev.R), Dins)
     \/ Ev.ev = "X" /\ DnlExpire({ [name |-> Ev.X[x].name, nonce |-> Ev.X[x].nonce] : x \in 1..Len(Ev.X) } \cap DOMAIN dnl)
     \/ Ev.ev = "E" /\
          \/ Ev.e = "fib+" /\ FibInsert(Ev.p, Ev.g, Ev.c)
          \/ Ev.e = "fib-" /\ (IF Ev.p \in DOMAIN fib THEN FibRemove(Ev.p, Ev.g) ELSE (UNCHANGED svars /\ Env([e |-> "fib-"])))
          \/ Ev.e = "strat+" /\ SetStrategy(Ev.p, Ev.s)
          \/ Ev.e = "strat-" /\ UnsetStrategy(Ev.p)
          \/ Ev.e = "cap" /\ SetCapacity(Ev.c)
          \/ Ev.e = "face-" /\ FaceDown(Ev.g)
          \/ Ev.e = "face+" /\ FaceUp(Ev.g)
TSpec == TInit /\ [][Step]_tvars
HiWater == TLCSet(7, IF TLCGet(7) < hi THEN hi ELSE TLCGet(7))
Accepted == PrintT(<<"hiwater", TLCGet(7), Len(Trace)>>) /\ TLCGet(7) = Len(Trace)

\* In the rules below `l` is the index of the line consumed by the step and the unprimed
\* variables are the state that line was executed in.
IsI == l <= Len(Trace) /\ Ev.ev = "I"
IsD == l <= Len(Trace) /\ Ev.ev = "D"
Live == l <= Len(Trace) /\ Ev.ev \notin {"Reset", "P"}
IsP == l <= Len(Trace) /\ Ev.ev = "P"

\* a panic of the forwarding thread inside a pipeline call ends every guarantee (logged by the harness)
T_nopanic == [][~IsP]_tvars

(* ---------------- C01 ---------------- *)
\* tokens on emitted Interests: the FIB path carries the entry's own token; the consumer-chosen path passes dtok
T_C01tok == [][IsI => \A x \in 1..Len(Ev.oi) :
                 IF Ev.oi[x].tok > 0 THEN Ev.oi[x].tok = EntryTok(IIn) ELSE Ev.oi[x].tok = 0 - Ev.i.dtok]_tvars
\* cache answer goes to the requester only, once, with its token, and never together with an upstream Interest
T_C01hit == [][IsI => IF Ev.o.csn # NoName
                      THEN Len(Ev.od) = 1 /\ Ev.od[1].face = Ev.i.f /\ Ev.od[1].tok = Ev.i.dtok /\ Len(Ev.oi) = 0
                      ELSE Len(Ev.od) = 0]_tvars
\* every copy of an arriving Data is that Data, byte for byte
T_C01same == [][IsD => \A x \in 1..Len(Ev.o.D) : Ev.o.D[x].same /\ Ev.o.D[x].wire = Ev.i.wire]_tvars
T_C01 == P_C01 /\ T_C01tok /\ T_C01hit /\ T_C01same

(* ---------------- C02 ---------------- *)
T_C02hop == [][IsI => \A x \in 1..Len(Ev.oi) : Ev.oi[x].hop = Hop1(Ev.i.hop)]_tvars
T_C02noI == [][IsD => Ev.oi = 0]_tvars
\* each chosen face receives the Interest exactly once
T_C02once == [][IsI => \A x, y \in 1..Len(Ev.oi) : x # y => Ev.oi[x].face # Ev.oi[y].face]_tvars
\* loop prevention: once an entry is satisfied or reaped, the nonces it sent upstream are recorded as dead
\* (of at least one matched entry: the multi-match branch of the code records those of the first entry only)
OutDead(k, nmOf) == { [name |-> nmOf, nonce |-> pit[k].outr[g].nonce] : g \in DOMAIN pit[k].outr }
T_C02dead == [][/\ (IsD /\ ~DEarly(DIn) /\ Matched(DIn.n, DIn.tk) # {}) =>
                      \E k \in Matched(DIn.n, DIn.tk) : OutDead(k, DIn.n) \subseteq DOMAIN dnl'
                /\ (l <= Len(Trace) /\ Ev.ev = "U") =>
                      \A k \in KeySet(Ev.R) \cap DOMAIN pit : OutDead(k, k.name) \subseteq DOMAIN dnl']_tvars
T_C02 == P_C02 /\ T_C02hop /\ T_C02noI /\ T_C02once

(* ---------------- C07 ---------------- *)
\* bytes served = bytes most recently inserted under that name
T_C07wire == [][(IsI /\ Ev.o.csn # NoName /\ Ev.o.csn \in DOMAIN cs) => (Ev.od[1].same /\ Ev.o.csw = cs[Ev.o.csn].wire)]_tvars
\* CS content after a Data step is what capacity + LRU prescribe
T_C07cs == [][IsD => (DEarly(DIn) \/ SeqToSet(Ev.o.csNames) = DOMAIN cs')]_tvars
T_C07cap == [][IsD => (DEarly(DIn) \/ DIn.n \in DOMAIN cs \/ Len(Ev.o.csNames) <= (IF cap < 0 THEN 0 ELSE cap))]_tvars
\* the cache asked directly (prefix lookups for names with and without a tree node of their own): an answer is a cached packet whose
\* name extends the name asked for, fresh if freshness was asked for
T_C07probe == [][Live => \A x \in 1..Len(Ev.probes) : LET q == Ev.probes[x] IN
                  q.r = NoName \/ (q.r \in DOMAIN cs' /\ IsPrefix(q.n, q.r) /\ (q.mbf => now' <= cs'[q.r].stale))]_tvars
T_C07 == P_C07 /\ T_C07wire /\ T_C07cs /\ T_C07cap

(* ---------------- C08 ---------------- *)
T_C08size == [][Live => /\ Ev.obs.npit = Ev.obs.ents /\ Ev.obs.ncs = Ev.obs.csn
                        /\ Ev.obs.rpit = Ev.obs.ents /\ Ev.obs.rcs = Ev.obs.csn      \* what the thread reports (status datasets read this)
                        /\ Ev.obs.tpit = Ev.obs.ents /\ Ev.obs.tcs = Ev.obs.csn      \* what the table reports
                        /\ Ev.obs.tokmap = Ev.obs.ents /\ Ev.obs.lru = Ev.obs.csn
                        /\ Ev.obs.ents = Cardinality(DOMAIN pit') /\ Ev.obs.csn = Cardinality(DOMAIN cs')]_tvars
\* no dead branches: tree nodes = prefixes of names of live PIT entries and cached Data
T_C08dead == [][Live => Ev.obs.dead = 0 /\ Ev.obs.nodes = Ev.obs.live]_tvars
\* every entry is scheduled whenever control is back in the event loop; queue holds exactly the entries
T_C08sched == [][Live => Ev.obs.unsched = 0 /\ Ev.obs.queue = Ev.obs.ents]_tvars
\* dead-nonce list holds nothing the model does not (reported length = tracked records; universe is closed)
T_C08dnl == [][Live => Ev.obs.dnl = Cardinality(DOMAIN dnl')]_tvars
\* quiescence: the harness ends every execution with 4 ticks (> every lifetime), a reaper run, 3 ticks
\* (> dead-nonce lifetime) and a dead-nonce expiry; after that nothing but cached Data may remain
T_C08quiet == [][(Live /\ Ev.ev = "Q") => /\ Ev.obs.ents = 0 /\ Ev.obs.npit = 0 /\ Ev.obs.queue = 0 /\ Ev.obs.tokmap = 0
                                          /\ Ev.obs.dnl = 0 /\ Ev.obs.dead = 0 /\ Ev.obs.nodes = Ev.obs.live]_tvars
T_C08 == P_C08 /\ T_C08size /\ T_C08dead /\ T_C08sched /\ T_C08dnl
I_C08 == AllScheduled

(* ---------------- C09 ---------------- *)
\* evaluated on the OBSERVED emissions, independent of the model state
T_C09obs == [][Live => /\ (Ev.ev = "I" => /\ \A x \in 1..Len(Ev.oi) : ScopeOk(Ev.oi[x].face, Ev.i.n)
                                          /\ \A x \in 1..Len(Ev.od) : ScopeOk(Ev.od[x].face, Ev.od[x].name))
                       /\ (Ev.ev = "D" => \A x \in 1..Len(Ev.o.D) : ScopeOk(Ev.o.D[x].face, Ev.i.n))]_tvars
\* a /localhost packet from a non-local face changes no table
T_C09drop == [][Live => /\ ((Ev.ev = "I" /\ ~Local(Ev.i.f) /\ IsLocalhost(Ev.i.n)) =>
                              (Len(Ev.oi) = 0 /\ Len(Ev.od) = 0 /\ Ev.obs.ents = Cardinality(DOMAIN pit) /\ Ev.obs.csn = Cardinality(DOMAIN cs)))
                        /\ ((Ev.ev = "D" /\ ~Local(Ev.i.f) /\ IsLocalhost(Ev.i.n)) =>
                              (Len(Ev.o.D) = 0 /\ Ev.obs.ents = Cardinality(DOMAIN pit) /\ Ev.obs.csn = Cardinality(DOMAIN cs)))]_tvars
T_C09scope == [][(Live /\ Ev.ev = "F") => IF Ev.kind = "summary" THEN Ev.tcpOut >= 30 /\ Ev.internal >= 1      \* the classification was exercised
                                             ELSE Ev.scope = FaceScope(Ev.kind, Ev.loopback)]_tvars
T_C09 == P_C09 /\ T_C09obs /\ T_C09drop /\ T_C09scope
====
