---- MODULE ForwarderMC ----
(* Exhaustive, depth-bounded model checking of Forwarder: Next is built from the           *)
(* implementation-shaped witnesses ImplXxx; the rules P_C01..P_C09 are checked as action   *)
(* properties in every reachable transition.  Dev = {} : the design satisfies the rules;   *)
(* Dev = {d} : TLC exhibits the counterexample documenting deviation d.                    *)
EXTENDS Forwarder
CONSTANTS MaxDepth, Fan
MCNames == IF Fan = "wide" THEN { <<"a">>, <<"a","b">>, <<"localhost","x">> } ELSE { <<"a">>, <<"a","b">> }
MCData  == IF Fan = "wide" THEN { <<"a","b">>, <<"a","b","c">>, <<"localhost","x">> } ELSE { <<"a","b">>, <<"a","b","c">> }
Init == /\ now = 0 /\ up = Faces /\ pit = Empty /\ nextTok = 1 /\ dnl = Empty
        /\ cs = Empty /\ lru = <<>> /\ cap = 1 /\ csAdmit = TRUE /\ csServe = TRUE
        /\ fib = (<<"a">> :> (2 :> 10 @@ 3 :> 10)) @@ (<<>> :> (3 :> 5))
        /\ strat = (<<>> :> "best-route") @@ (<<"a","b">> :> "multicast")
        /\ ev = [kind |-> "0"]
DnlKnown(n, nonce) == [name |-> n, nonce |-> nonce] \in DOMAIN dnl
IStep == \E f \in Faces, n \in MCNames, cbp \in BOOLEAN, mbf \in (IF Fan = "wide" THEN BOOLEAN ELSE {FALSE}),
            nonce \in {7, 8}, life \in {1}, hop \in (IF Fan = "wide" THEN {-1, 1} ELSE {-1}) :
           LET i == [f |-> f, n |-> n, cbp |-> cbp, mbf |-> mbf, nonce |-> nonce, life |-> life, hop |-> hop,
                     hints |-> <<>>, nh |-> -1, dtok |-> f * 10, dnl |-> DnlKnown(n, nonce)]
           IN \E csn \in ImplCsSet(i) : \E S \in ImplSSet(i, csn) :
                RecvInterest(i, [S |-> S, csn |-> (IF ScopeOk(i.f, csn) THEN csn ELSE NoName), hit |-> csn # NoName, ex |-> ImplEx(i, csn), dins |-> ImplDinsI(i, csn)])
DStep == \E f \in Faces, n \in MCData, fresh \in {1}, tk \in {-1, 1} :
           LET d == [f |-> f, n |-> n, fresh |-> fresh, tk |-> tk, wire |-> 0]
           IN \E di \in ImplDinsDSet(d) : RecvData(d, [D |-> ImplD(d), dins |-> di])
EStep == \/ \E g \in Faces : FibInsert(<<"a","b">>, g, 1)
         \/ FibRemove(<<"a">>, 2)
         \/ SetStrategy(<<"a">>, "multicast")
         \/ SetCapacity(0)
         \/ \E g \in Faces : g \in up /\ FaceDown(g)
Next == IStep \/ DStep \/ Tick \/ PitUpdate(ImplR, ImplDinsU(ImplR)) \/ DnlExpire(ImplX) \/ (Fan = "wide" /\ EStep)
Spec == Init /\ [][Next]_vars
Constr == TLCGet("level") <= MaxDepth
View == svars
====
