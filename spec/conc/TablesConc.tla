----------------------------- MODULE TablesConc -----------------------------
(***************************************************************************)
(* Concurrency of YaNFD's shared tables (C16): the RIB (fw/table/rib.go,   *)
(* one mutex), the FIB / strategy table (fib-strategy-*.go, one RW lock)   *)
(* and the goroutines that use them -- management (register / unregister /  *)
(* fib add,remove / strategy set,unset), face teardown (one goroutine per   *)
(* face, CleanUpFace) and forwarding threads (lookups).                     *)
(*                                                                          *)
(* One action per lock-protected section, as in the code: a RIB operation   *)
(* takes the RIB mutex, changes the route tree and then makes one FIB call   *)
(* per affected prefix (the prefix itself, then its descendants); every FIB  *)
(* call and every lookup is one step under the FIB lock.  A process parks    *)
(* before every lock acquisition (the gates of the conformance harness), so  *)
(* one step here = one gate-to-gate run of a real goroutine.                 *)
(*                                                                          *)
(* Linearizability is checked inside the model: `hist` is the set of         *)
(* abstract table states some sequential order of the operations invoked so  *)
(* far (containing all that have returned) can have produced; a lookup must  *)
(* return what one of the states it overlapped answers.                      *)
(*                                                                          *)
(* Dev (deviations, the code as shipped):                                   *)
(*   "NoRibLock"   RIB operations were not serialised                       *)
(*   "ClearInsert" a FIB entry was recomputed by ClearNextHops followed by  *)
(*                 one InsertNextHop per nexthop, each under its own lock    *)
(*   "TeardownBottomUp" face teardown walked the route tree children first  *)
(*                 and recomputed each node's entry before its ancestors'    *)
(***************************************************************************)
EXTENDS Integers, Sequences, FiniteSets, TLC
CONSTANTS Procs, Dev
VARIABLES prog,     \* process -> sequence of operations (fixed after Init)
          rib,      \* set of routes [p, f, inh]
          fib,      \* prefix -> set of faces (entries with no nexthop are absent)
          strat,    \* prefix -> strategy (strategy choices other than the root's)
          lock,     \* holder of the RIB mutex, or None
          pc,       \* process -> index of its current operation
          ph,       \* process -> "idle" | "atgate" | "blocked" | "in"
          work,     \* process -> remaining micro-steps of its RIB operation
          hist,     \* linearization states: set of [a : abstract state, done : set of operation ids]
          allowed,  \* process -> answers its pending lookup may give
          bad       \* set of names of rules that were broken
vars == <<prog, rib, fib, strat, lock, pc, ph, work, hist, allowed, bad>>
None == "none"
Empty == [x \in {} |-> {}]
IsPrefix(p, n) == Len(p) <= Len(n) /\ \A i \in 1..Len(p) : p[i] = n[i]
IsProper(p, n) == Len(p) < Len(n) /\ IsPrefix(p, n)
Upd(m, k, v) == IF v = {} THEN [x \in DOMAIN m \ {k} |-> m[x]] ELSE [x \in DOMAIN m \cup {k} |-> IF x = k THEN v ELSE m[x]]
Get(m, k) == IF k \in DOMAIN m THEN m[k] ELSE {}
\* ---- the sequential meaning of the tables ----------------------------------------------------------------
\* FIB entry the RIB derives for a prefix: its own routes' faces plus the faces of child-inherit routes of its ancestors
Target(r, q) == IF \E x \in r : x.p = q
                THEN { x.f : x \in { y \in r : y.p = q \/ (y.inh /\ IsProper(y.p, q)) } } ELSE {}
RibPrefixes(r) == { x.p : x \in r }
Derived(r) == [q \in RibPrefixes(r) |-> Target(r, q)]
Longest(S) == CHOOSE p \in S : \A q \in S : Len(q) <= Len(p)
Lpm(m, n) == LET S == { p \in DOMAIN m : IsPrefix(p, n) } IN IF S = {} THEN {} ELSE m[Longest(S)]
LpmS(m, n) == LET S == { p \in DOMAIN m : IsPrefix(p, n) } IN IF S = {} THEN "best-route" ELSE m[Longest(S)]   \* the root's choice
\* abstract state: routes, directly added FIB entries (on prefixes the RIB does not use), strategy choices
AbsFib(a) == [q \in RibPrefixes(a.rib) \cup DOMAIN a.df |-> IF q \in DOMAIN a.df THEN a.df[q] ELSE Target(a.rib, q)]
Apply(op, a) ==
  CASE op.k = "reg"    -> [a EXCEPT !.rib = { x \in a.rib : ~(x.p = op.p /\ x.f = op.f) } \cup {[p |-> op.p, f |-> op.f, inh |-> op.inh]}]
    [] op.k = "unreg"  -> [a EXCEPT !.rib = { x \in a.rib : ~(x.p = op.p /\ x.f = op.f) }]
    [] op.k = "down"   -> [a EXCEPT !.rib = { x \in a.rib : x.f # op.f }]
    [] op.k = "fibadd" -> [a EXCEPT !.df = Upd(a.df, op.p, Get(a.df, op.p) \cup {op.f})]
    [] op.k = "fibdel" -> [a EXCEPT !.df = Upd(a.df, op.p, Get(a.df, op.p) \ {op.f})]
    [] op.k = "sset"   -> [a EXCEPT !.st = [x \in DOMAIN a.st \cup {op.p} |-> IF x = op.p THEN op.s ELSE a.st[x]]]
    [] op.k = "sunset" -> [a EXCEPT !.st = [x \in DOMAIN a.st \ {op.p} |-> a.st[x]]]
    [] OTHER -> a
Answer(op, a) == IF op.k = "look" THEN Lpm(AbsFib(a), op.n) ELSE LpmS(a.st, op.n)
IsLookup(op) == op.k \in {"look", "slook"}
IsRibOp(op) == op.k \in {"reg", "unreg", "down"}
\* ---- linearization bookkeeping -----------------------------------------------------------------------
\* ops: the operations invoked so far, as [id, op]; the set is closed under applying any of them that a state lacks
RECURSIVE Close(_, _)
Close(h, ops) == LET more == h \cup UNION { { [a |-> Apply(o.op, x.a), done |-> x.done \cup {o.id}] : o \in { y \in ops : y.id \notin x.done } } : x \in h }
                 IN IF more = h THEN h ELSE Close(more, ops)
\* (an operation that has returned is in every remaining state: its id is dropped, `done` only tracks pending operations)
OnReturn(h, id) == { [a |-> x.a, done |-> x.done \ {id}] : x \in { y \in h : id \in y.done } }
Answers(h, op) == { Answer(op, x.a) : x \in h }
\* ---- processes -------------------------------------------------------------------------------------------
Cur(p) == prog[p][pc[p]]
Id(p) == <<p, pc[p]>>
\* the pending operations (lookups change nothing: they are left out of the closure)
Invoked == UNION { { [id |-> <<q, i>>, op |-> prog[q][i]] : i \in { j \in 1..Len(prog[q]) : ~IsLookup(prog[q][j]) /\ j = pc[q] /\ ph[q] # "idle" } } : q \in Procs }
Running(p) == pc[p] <= Len(prog[p])
\* the Go mutex hands the lock to a waiter when it is released: that goes first
GrantPending == \E b \in Procs : ph[b] = "blocked" /\ lock = None
\* a process calls its next operation and parks at the operation's first gate
Invoke(p) ==
  /\ ~GrantPending /\ Running(p) /\ ph[p] = "idle"
  /\ ph' = [ph EXCEPT ![p] = "atgate"]
  /\ hist' = IF IsLookup(Cur(p)) THEN hist ELSE Close(hist, Invoked \cup {[id |-> Id(p), op |-> Cur(p)]})
  /\ allowed' = [q \in Procs |-> IF q = p THEN (IF IsLookup(Cur(p)) THEN Answers(hist', Cur(p)) ELSE {})
                                ELSE IF ph[q] = "atgate" /\ IsLookup(Cur(q)) THEN allowed[q] \cup Answers(hist', Cur(q)) ELSE allowed[q]]
  /\ UNCHANGED <<prog, rib, fib, strat, lock, pc, work, bad>>
Return(p) == /\ pc' = [pc EXCEPT ![p] = @ + 1] /\ ph' = [ph EXCEPT ![p] = "idle"] /\ hist' = IF IsLookup(Cur(p)) THEN hist ELSE OnReturn(hist, Id(p))
\* micro-steps of a RIB operation after it has the mutex
\*   <<"ribdel", n, f>>  routes of face f leave node n (face teardown walks the tree, children first)
\*   <<"set", q>>        FIB call: the entry of q becomes what the RIB derives now
\*   <<"clear", q>>, <<"ins", q, g>>   (Dev ClearInsert) the same in separate FIB calls
RECURSIVE Perms(_)
Perms(S) == IF S = {} THEN {<<>>} ELSE UNION { { <<x>> \o t : t \in Perms(S \ {x}) } : x \in S }   \* tiny sets only
RECURSIVE Flat(_)
Flat(ss) == IF ss = <<>> THEN <<>> ELSE Head(ss) \o Flat(Tail(ss))
Desc(r, q) == { x \in RibPrefixes(r) : IsProper(q, x) }
SetSteps(r, q) == IF "ClearInsert" \in Dev
                  THEN <<<<"clear", q>>>> \o Flat([g \in 1..Len(CHOOSE s \in Perms(Target(r, q)) : TRUE) |-> <<<<"ins", q, (CHOOSE s \in Perms(Target(r, q)) : TRUE)[g]>>>>])
                  ELSE <<<<"set", q>>>>
\* the plans a RIB operation may follow (children are visited in map order: any order)
Plans(op, r) ==
  IF op.k \in {"reg", "unreg"}
  THEN LET r2 == Apply(op, [rib |-> r, df |-> Empty, st |-> Empty]).rib
           touched == (op.k = "reg") \/ (\E x \in r : x.p = op.p)
       IN IF ~touched THEN {<<>>}
          ELSE { SetSteps(r2, op.p) \o Flat([i \in 1..Len(ord) |-> SetSteps(r2, ord[i])]) : ord \in Perms(Desc(r2, op.p)) }
  ELSE \* down: the face's routes leave every node, then every entry is recomputed from the top of the tree downwards
       \* (Dev "TeardownBottomUp": as shipped -- node by node, children first, each node's entry recomputed right after its routes went)
       LET nodes == RibPrefixes(r)
           rAfter(S) == { x \in r : ~(x.f = op.f /\ x.p \in S) }
           r2 == rAfter(nodes)
       IN IF "TeardownBottomUp" \in Dev
          THEN { Flat([i \in 1..Len(o) |->
                   LET rr == rAfter({ o[k] : k \in 1..i }) IN
                   <<<<"ribdel", o[i], op.f>>>> \o SetSteps(rr, o[i])
                     \o Flat([d \in 1..Len(CHOOSE s \in Perms(Desc(rr, o[i])) : TRUE) |-> SetSteps(rr, (CHOOSE s \in Perms(Desc(rr, o[i])) : TRUE)[d])])])
                 : o \in { o \in Perms(nodes) : \A i, j \in 1..Len(o) : IsProper(o[i], o[j]) => j < i } }
          ELSE { Flat([i \in 1..Len(o) |-> <<<<"ribdel", o[i], op.f>>>>]) \o Flat([i \in 1..Len(o) |-> SetSteps(r2, o[i])])
                 : o \in { o \in Perms(nodes) : \A i, j \in 1..Len(o) : IsProper(o[i], o[j]) => i < j } }
IsFibStep(ms) == ms[1] \in {"set", "clear", "ins"}
\* run the non-FIB micro-steps at the head of w (they happen in the same gate-to-gate run)
RECURSIVE RunRib(_, _)
RunRib(r, w) == IF w # <<>> /\ Head(w)[1] = "ribdel" THEN RunRib({ x \in r : ~(x.p = Head(w)[2] /\ x.f = Head(w)[3]) }, Tail(w)) ELSE [r |-> r, w |-> w]
\* take the RIB mutex and run up to the first FIB call
EnterWith(p, r0) ==
  \E plan \in Plans(Cur(p), r0) :
    LET r1 == IF Cur(p).k = "down" THEN r0 ELSE Apply(Cur(p), [rib |-> r0, df |-> Empty, st |-> Empty]).rib
        run == RunRib(r1, plan)
    IN /\ rib' = run.r
       /\ IF run.w = <<>>
          THEN /\ Return(p) /\ work' = [work EXCEPT ![p] = <<>>] /\ UNCHANGED lock
          ELSE /\ lock' = p /\ ph' = [ph EXCEPT ![p] = "in"] /\ work' = [work EXCEPT ![p] = run.w] /\ UNCHANGED <<pc, hist>>
Enter(p) ==
  /\ ~GrantPending /\ Running(p) /\ ph[p] = "atgate" /\ IsRibOp(Cur(p))
  /\ (lock = None \/ "NoRibLock" \in Dev)
  /\ bad' = IF lock # None THEN bad \cup {"RaceFree"} ELSE bad
  /\ EnterWith(p, rib)
  /\ UNCHANGED <<prog, fib, strat, allowed>>
\* the mutex is held: the caller blocks (at most one waiter, so that the hand-over is determined)
Block(p) ==
  /\ ~GrantPending /\ Running(p) /\ ph[p] = "atgate" /\ IsRibOp(Cur(p))
  /\ lock # None /\ "NoRibLock" \notin Dev /\ ~\E b \in Procs : ph[b] = "blocked"
  /\ ph' = [ph EXCEPT ![p] = "blocked"]
  /\ UNCHANGED <<prog, rib, fib, strat, lock, pc, work, hist, allowed, bad>>
Grant(p) ==
  /\ ph[p] = "blocked" /\ lock = None
  /\ EnterWith(p, rib)
  /\ UNCHANGED <<prog, fib, strat, allowed, bad>>
\* one FIB call of a RIB operation, and whatever RIB work follows it up to the next FIB call
FibStep(p) ==
  /\ ~GrantPending /\ ph[p] = "in" /\ work[p] # <<>>
  /\ LET ms == Head(work[p])
         f1 == CASE ms[1] = "set" -> Upd(fib, ms[2], Target(rib, ms[2]))
                 [] ms[1] = "clear" -> Upd(fib, ms[2], {})
                 [] ms[1] = "ins" -> Upd(fib, ms[2], Get(fib, ms[2]) \cup {ms[3]})
         run == RunRib(rib, Tail(work[p]))
     IN /\ fib' = f1 /\ rib' = run.r
        /\ IF run.w = <<>>
           THEN /\ Return(p) /\ lock' = (IF lock = p THEN None ELSE lock) /\ work' = [work EXCEPT ![p] = <<>>]
           ELSE /\ work' = [work EXCEPT ![p] = run.w] /\ UNCHANGED <<lock, pc, ph, hist>>
  /\ UNCHANGED <<prog, strat, allowed, bad>>
\* operations that are a single FIB-lock section
Exec(p) ==
  /\ ~GrantPending /\ Running(p) /\ ph[p] = "atgate" /\ ~IsRibOp(Cur(p))
  /\ LET op == Cur(p) IN
     /\ fib' = CASE op.k = "fibadd" -> Upd(fib, op.p, Get(fib, op.p) \cup {op.f})
                 [] op.k = "fibdel" -> Upd(fib, op.p, Get(fib, op.p) \ {op.f})
                 [] OTHER -> fib
     /\ strat' = Apply(op, [rib |-> {}, df |-> Empty, st |-> strat]).st
     /\ bad' = IF op.k = "look" /\ Lpm(fib, op.n) \notin allowed[p] THEN bad \cup {"LookupAtomic"}
               ELSE IF op.k = "slook" /\ LpmS(strat, op.n) \notin allowed[p] THEN bad \cup {"LookupAtomic"} ELSE bad
  /\ Return(p)
  /\ UNCHANGED <<prog, rib, lock, work, allowed>>
Next == \E p \in Procs : Invoke(p) \/ Enter(p) \/ Block(p) \/ Grant(p) \/ FibStep(p) \/ Exec(p)
AllDone == \A p \in Procs : ~Running(p)
\* ---- properties --------------------------------------------------------------------------------------
LookupAtomic == "LookupAtomic" \notin bad
RaceFree == "RaceFree" \notin bad /\ Cardinality({ p \in Procs : ph[p] = "in" }) <= 1
\* when everything has returned the tables are those of some sequential order of the operations
FinalOK == AllDone => \E h \in hist : h.a.rib = rib /\ h.a.st = strat /\ AbsFib(h.a) = fib
NoDeadlock == AllDone \/ ENABLED Next
Progress == <>AllDone
=============================================================================
