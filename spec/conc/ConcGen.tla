---- MODULE ConcGen ----
(* TLC as generator of operation sets and interleavings for harness/conc_test.go TestConcSched:                       *)
(* -simulate walks the model's own interleavings (gate-to-gate steps, blocking on the RIB mutex, hand-over), so every  *)
(* schedule is one the code can follow; the first step draws the initial routes and each process's operations.        *)
EXTENDS TablesConc, Json, SequencesExt
CONSTANTS OutDir, MaxOps
VARIABLES chosen, sch, conf
PA == <<"a">>
PB == <<"a", "b">>
PC == <<"a", "c">>
PD == <<"d">>
X(p) == p \o <<"x">>
\* TLC's RandomElement repeats itself in the first step of every simulated behaviour: the draw of the operation sets is
\* a hash of the behaviour's number instead (the interleaving is still TLC's random walk)
T == TLCGet("stats").traces
H(salt) == ((((((T % 9973) + 13) * ((salt * 31 + 7) % 9967)) % 100003) * 97) + ((T \div 3) % 9973) * 7919 + ((salt * salt) % 9973) * 131) % 100003
Pick(S, salt) == SetToSeq(S)[(H(salt) % Cardinality(S)) + 1]
PickQ(q, salt) == q[(H(salt) % Len(q)) + 1]
RandOp(role, z) ==
  LET k == IF role = "look" THEN PickQ(<<"look", "look", "look", "slook">>, z)
           ELSE PickQ(<<"reg", "reg", "reg", "unreg", "unreg", "down", "down", "fibadd", "fibdel", "sset", "sunset", "look">>, z)
      p == PickQ(<<PA, PA, PB, PB, PC>>, z + 1)  f == PickQ(<<1, 2, 3>>, z + 2)  i == PickQ(<<TRUE, TRUE, FALSE>>, z + 3)
      n == PickQ(<<X(PA), X(PB), X(PB), X(PC), X(PD)>>, z + 4)
  IN CASE k = "reg" -> [k |-> "reg", p |-> p, f |-> f, inh |-> i]
       [] k = "unreg" -> [k |-> "unreg", p |-> p, f |-> f]
       [] k = "down" -> [k |-> "down", f |-> f]
       [] k = "fibadd" -> [k |-> "fibadd", p |-> PD, f |-> f]
       [] k = "fibdel" -> [k |-> "fibdel", p |-> PD, f |-> f]
       [] k = "sset" -> [k |-> "sset", p |-> PickQ(<<PA, PB>>, z + 5), s |-> PickQ(<<"multicast", "best-route">>, z + 6)]
       [] k = "sunset" -> [k |-> "sunset", p |-> PickQ(<<PA, PB>>, z + 5)]
       [] k = "look" -> [k |-> "look", n |-> n]
       [] OTHER -> [k |-> "slook", n |-> PickQ(<<X(PA), X(PB)>>, z + 7)]
RandProg(role, z) == LET len == (H(z) % MaxOps) + 1 IN [j \in 1..len |-> RandOp(role, z + 10 * j)]
RandRib == LET base == << [p |-> PA, f |-> 1, inh |-> TRUE], [p |-> PA, f |-> 2, inh |-> FALSE], [p |-> PB, f |-> 1, inh |-> FALSE], [p |-> PB, f |-> 2, inh |-> TRUE],
                         [p |-> PC, f |-> 3, inh |-> TRUE], [p |-> PA, f |-> 3, inh |-> TRUE] >>
           IN { base[j] : j \in { x \in 1..6 : (H(900 + x) % 2) = 0 } }
ProcNo(p) == CHOOSE j \in 1..Len(SetToSeq(Procs)) : SetToSeq(Procs)[j] = p
Role(p) == IF p \in {"l", "k"} THEN "look" ELSE "any"
ChooseWith(r0, pg) ==
  /\ ~chosen /\ chosen' = TRUE
  /\ prog' = pg /\ rib' = r0 /\ fib' = Derived(r0)
  /\ hist' = {[a |-> [rib |-> r0, df |-> Empty, st |-> Empty], done |-> {}]}
  /\ conf' = [ev |-> "conf", rib0 |-> SetToSeq(r0), procs |-> SetToSeq(Procs), prog |-> pg]
  /\ UNCHANGED <<strat, lock, pc, ph, work, allowed, bad, sch>>
Choose == ChooseWith(RandRib, [p \in Procs |-> RandProg(Role(p), 100 * ProcNo(p))])
StepOf(p) == (Invoke(p) \/ Enter(p) \/ Block(p) \/ FibStep(p) \/ Exec(p)) /\ sch' = Append(sch, [ev |-> "go", p |-> p])
GStep == \/ Choose
         \/ chosen /\ UNCHANGED <<chosen, conf>> /\ ((\E p \in Procs : StepOf(p)) \/ (\E p \in Procs : Grant(p) /\ UNCHANGED sch))
GInit == /\ prog = [p \in Procs |-> <<>>] /\ rib = {} /\ fib = Empty /\ strat = Empty /\ lock = None
         /\ pc = [p \in Procs |-> 1] /\ ph = [p \in Procs |-> "idle"] /\ work = [p \in Procs |-> <<>>]
         /\ hist = {} /\ allowed = [p \in Procs |-> {}] /\ bad = {} /\ chosen = FALSE /\ sch = <<>> /\ conf = [ev |-> "none"]
GSpec == GInit /\ [][GStep]_<<vars, chosen, sch, conf>>
Dump == (chosen /\ AllDone) => ndJsonSerialize(OutDir \o "/s" \o ToString(TLCGet("stats").traces) \o ".ndjson", <<conf>> \o sch)
ModelOK == bad = {}
====
