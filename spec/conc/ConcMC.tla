---- MODULE ConcMC ----
(* Exhaustive interleavings of small operation sets on three processes: management (m), a face's teardown (t), a forwarding thread (l). *)
EXTENDS TablesConc
CONSTANT Scenario
PA == <<"a">>
PB == <<"a", "b">>
PC == <<"a", "c">>
PD == <<"d">>
X(p) == p \o <<"x">>
Reg(p, f, i) == [k |-> "reg", p |-> p, f |-> f, inh |-> i]
Unreg(p, f) == [k |-> "unreg", p |-> p, f |-> f]
Down(f) == [k |-> "down", f |-> f]
Look(n) == [k |-> "look", n |-> n]
FibAdd(p, f) == [k |-> "fibadd", p |-> p, f |-> f]
FibDel(p, f) == [k |-> "fibdel", p |-> p, f |-> f]
SSet(p, s) == [k |-> "sset", p |-> p, s |-> s]
SUnset(p) == [k |-> "sunset", p |-> p]
SLook(n) == [k |-> "slook", n |-> n]
R(p, f, i) == [p |-> p, f |-> f, inh |-> i]
Scen ==
  CASE Scenario = "A" -> [rib0 |-> {}, m |-> <<Reg(PA, 1, TRUE), Reg(PB, 2, TRUE)>>, t |-> <<Down(1)>>, l |-> <<Look(X(PB)), Look(X(PA))>>]
    [] Scenario = "B" -> [rib0 |-> {R(PA, 1, TRUE)}, m |-> <<Reg(PA, 2, TRUE), Unreg(PA, 1)>>, t |-> <<Look(X(PA))>>, l |-> <<Look(X(PA)), Look(X(PA))>>]
    [] Scenario = "C" -> [rib0 |-> {R(PA, 1, TRUE), R(PB, 1, FALSE), R(PC, 2, TRUE)}, m |-> <<Reg(PA, 3, TRUE)>>, t |-> <<Down(1)>>, l |-> <<Look(X(PB)), Look(X(PC))>>]
    [] Scenario = "D" -> [rib0 |-> {R(PA, 1, TRUE), R(PB, 2, TRUE)}, m |-> <<Unreg(PB, 2), Reg(PB, 3, FALSE)>>, t |-> <<Down(1), Down(3)>>, l |-> <<Look(X(PB))>>]
    [] Scenario = "E" -> [rib0 |-> {}, m |-> <<FibAdd(PD, 1), FibAdd(PD, 2), FibDel(PD, 1)>>, t |-> <<SSet(PA, "mc"), SUnset(PA)>>, l |-> <<Look(X(PD)), SLook(X(PA)), Look(X(PD))>>]
    [] Scenario = "G" -> [rib0 |-> {R(PA, 1, TRUE), R(PA, 2, FALSE), R(PA, 3, TRUE), R(PC, 3, TRUE)}, m |-> <<Reg(PC, 3, FALSE)>>, t |-> <<Down(3)>>, l |-> <<Look(X(PC)), Look(X(PA))>>]
    [] Scenario = "F" -> [rib0 |-> {R(PA, 1, TRUE), R(PA, 2, FALSE), R(PB, 2, TRUE)}, m |-> <<Down(2)>>, t |-> <<Down(1)>>, l |-> <<Look(X(PB)), Look(X(PA))>>]
Init == /\ prog = [p \in Procs |-> IF p = "m" THEN Scen.m ELSE IF p = "t" THEN Scen.t ELSE Scen.l]
        /\ rib = Scen.rib0 /\ fib = Derived(Scen.rib0) /\ strat = Empty /\ lock = None
        /\ pc = [p \in Procs |-> 1] /\ ph = [p \in Procs |-> "idle"] /\ work = [p \in Procs |-> <<>>]
        /\ hist = {[a |-> [rib |-> Scen.rib0, df |-> Empty, st |-> Empty], done |-> {}]}
        /\ allowed = [p \in Procs |-> {}] /\ bad = {}
Spec == Init /\ [][Next]_vars /\ WF_vars(Next)
====
