---- MODULE ConcTrace ----
(* Validation of executions of the real tables (harness/conc_test.go) against TablesConc.tla.                           *)
(*  - gated replay ("step" rows): real goroutines parked before every RIB / FIB lock acquisition and released one at a  *)
(*    time along a TLC-generated interleaving; after every step the routes, the FIB and the strategy table are logged;  *)
(*  - free-running stress ("inv" / "ret" rows, stamped by one atomic counter), run under the race detector.             *)
(* The module keeps the linearization set of TablesConc (hist) along the recorded invocations and returns and judges:   *)
(*    T_C16look   every lookup answered what some state it overlapped answers, without duplicates                        *)
(*    I_C16virt   after every step, a lookup of any name *now* would be answered correctly (no torn intermediate FIB)     *)
(*    T_C16race   no goroutine got into a RIB section while another one was inside                                      *)
(*    I_C16final  when everything has returned the tables are those of some sequential order                            *)
(*    I_C16safe   no crash, deadlock or data-race report                                                                *)
EXTENDS TablesConc, Json
CONSTANT TraceFile
VARIABLES l, hi, inrib
Trace == ndJsonDeserialize(TraceFile)
tvars == <<vars, l, hi, inrib>>
Ev == Trace[l]
Last == Trace[hi]
ToSet(s) == { s[i] : i \in 1..Len(s) }
RibOf(s) == { [p |-> s[i].p, f |-> s[i].f, inh |-> s[i].inh] : i \in 1..Len(s) }
FibOf(s) == [q \in { s[i].p : i \in 1..Len(s) } |-> ToSet(s[CHOOSE i \in 1..Len(s) : s[i].p = q].hops)]
StratOf(s) == [q \in { s[i].p : i \in { j \in 1..Len(s) : Len(s[j].p) > 0 } } |-> s[CHOOSE i \in 1..Len(s) : s[i].p = q].s]
NoDup(s) == \A i \in 1..Len(s) : Len(s[i].hops) = Cardinality(ToSet(s[i].hops))
ProbeNames == { <<"a", "x">>, <<"a", "b", "x">>, <<"a", "c", "x">>, <<"d", "x">> }
TInit == /\ prog = [p \in Procs |-> <<>>] /\ rib = {} /\ fib = Empty /\ strat = Empty /\ lock = None
         /\ pc = [p \in Procs |-> 1] /\ ph = [p \in Procs |-> "idle"] /\ work = [p \in Procs |-> <<>>]
         /\ hist = {} /\ allowed = [p \in Procs |-> {}] /\ bad = {} /\ l = 1 /\ hi = 0 /\ inrib = {} /\ TLCSet(7, 0)
OpOf(p, i) == prog[p][i]
\* bookkeeping of an invocation / a return (shared by both kinds of rows)
DoInvoke(p, i) ==
  LET op == OpOf(p, i) IN
  /\ hist' = IF IsLookup(op) THEN hist ELSE Close(hist, Invoked \cup {[id |-> <<p, i>>, op |-> op]})
  /\ allowed' = [q \in Procs |-> IF q = p THEN (IF IsLookup(op) THEN Answers(hist', op) ELSE {})
                                ELSE IF ph[q] # "idle" /\ pc[q] <= Len(prog[q]) /\ IsLookup(OpOf(q, pc[q])) THEN allowed[q] \cup Answers(hist', OpOf(q, pc[q])) ELSE allowed[q]]
  /\ ph' = [ph EXCEPT ![p] = "atgate"] /\ pc' = [pc EXCEPT ![p] = i]
DoReturn(p, i) ==
  /\ hist' = IF IsLookup(OpOf(p, i)) THEN hist ELSE OnReturn(hist, <<p, i>>)
  /\ ph' = [ph EXCEPT ![p] = "idle"] /\ pc' = [pc EXCEPT ![p] = i + 1] /\ UNCHANGED allowed
Observe == rib' = RibOf(Ev.rib) /\ fib' = FibOf(Ev.fib) /\ strat' = StratOf(Ev.strat)
Step ==
  /\ l <= Len(Trace) /\ l' = l + 1 /\ hi' = l /\ UNCHANGED <<lock, work, bad>>
  /\ \/ /\ Ev.ev = "Reset"
        /\ prog' = [p \in Procs |-> IF p \in DOMAIN Ev.prog THEN Ev.prog[p] ELSE <<>>]
        /\ rib' = RibOf(Ev.rib0) /\ fib' = Derived(RibOf(Ev.rib0)) /\ strat' = Empty
        /\ pc' = [p \in Procs |-> 1] /\ ph' = [p \in Procs |-> "idle"] /\ allowed' = [p \in Procs |-> {}] /\ inrib' = {}
        /\ hist' = {[a |-> [rib |-> RibOf(Ev.rib0), df |-> Empty, st |-> Empty], done |-> {}]}
     \/ /\ Ev.ev = "step" /\ Observe /\ UNCHANGED prog
        /\ IF Ev.from \in {"start", "ret"} THEN DoInvoke(Ev.p, Ev.opi) /\ UNCHANGED inrib        \* called its next operation, parked at the first gate
           ELSE IF Ev.to = "blocked" THEN UNCHANGED <<hist, allowed, ph, pc, inrib>>               \* waits for the RIB mutex
           ELSE IF Ev.to = "ret" THEN DoReturn(Ev.p, Ev.opi) /\ inrib' = inrib \ {Ev.p}            \* ran to the end of the operation
           ELSE /\ UNCHANGED <<hist, allowed, ph, pc>>
                /\ inrib' = IF Ev.from = "rib" THEN inrib \cup {Ev.p} ELSE inrib
     \/ Ev.ev = "inv" /\ DoInvoke(Ev.p, Ev.opi) /\ UNCHANGED <<prog, rib, fib, strat, inrib>>
     \/ Ev.ev = "ret" /\ DoReturn(Ev.p, Ev.opi) /\ UNCHANGED <<prog, rib, fib, strat, inrib>>
     \/ Ev.ev \in {"final", "hfinal"} /\ Observe /\ UNCHANGED <<prog, hist, allowed, ph, pc, inrib>>
     \/ Ev.ev = "bad" /\ UNCHANGED <<prog, rib, fib, strat, hist, allowed, ph, pc, inrib>>
TSpec == TInit /\ [][Step]_tvars
HiWater == TLCSet(7, IF TLCGet(7) < hi THEN hi ELSE TLCGet(7))
Accepted == PrintT(<<"hiwater", TLCGet(7), Len(Trace)>>) /\ TLCGet(7) = Len(Trace)
On == l <= Len(Trace)
\* a lookup's answer, read where the operation returned ("step" row reaching ret, or "ret" row)
Returns == On /\ ((Ev.ev = "step" /\ Ev.to = "ret") \/ Ev.ev = "ret")
T_C16look == [][(Returns /\ IsLookup(OpOf(Ev.p, Ev.opi))) =>
                  IF OpOf(Ev.p, Ev.opi).k = "look" THEN ToSet(Ev.res) \in allowed[Ev.p] /\ Len(Ev.res) = Cardinality(ToSet(Ev.res))
                  ELSE Ev.ress \in allowed[Ev.p]]_tvars
T_C16race == [][(On /\ Ev.ev = "step" /\ Ev.from = "rib" /\ Ev.to # "blocked") => inrib \ {Ev.p} = {}]_tvars
\* after the step: would a lookup of any name be answered correctly now?
Obs == hi > 0 /\ Last.ev = "step"
I_C16virt == Obs => /\ NoDup(Last.fib)
                    /\ \A n \in ProbeNames : Lpm(fib, n) \in { Lpm(AbsFib(h.a), n) : h \in hist }
                    /\ \A n \in ProbeNames : LpmS(strat, n) \in { LpmS(h.a.st, n) : h \in hist }
I_C16final == (hi > 0 /\ Last.ev = "final") => \E h \in hist : h.a.rib = rib /\ h.a.st = strat /\ AbsFib(h.a) = fib
\* the hammer's quiescent state (no history kept): every prefix with routes forwards exactly as its routes prescribe, nothing
\* else is in the FIB (but directly added entries on /d), and a face that went down through the face table is gone from both tables
I_C16quiet == (hi > 0 /\ Last.ev = "hfinal") =>
                 /\ \A q \in RibPrefixes(rib) : Get(fib, q) = Target(rib, q)
                 /\ \A q \in DOMAIN fib : q \in RibPrefixes(rib) \/ q = <<"d">>
                 /\ NoDup(Last.fib)
                 /\ \A g \in ToSet(Last.removed) : (\A r \in rib : r.f # g) /\ (\A q \in DOMAIN fib : g \notin fib[q])
                 \* a face id names one face for the life of the daemon (teardown, queued packets and routes go by id): none handed out twice
                 /\ Cardinality(ToSet(Last.removed)) = Len(Last.removed)
I_C16safe == (hi > 0) => Last.ev # "bad"
====
