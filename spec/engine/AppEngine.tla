----------------------------- MODULE AppEngine -----------------------------
(***************************************************************************)
(* Application engine (std/engine/basic): pending-Interest table and       *)
(* handler table kept in name tries, timers, incoming Interests and        *)
(* replies.  Observables are action parameters (which callbacks fired,     *)
(* which handler ran, whether a reply was transmitted); the C20 rules are  *)
(* action properties over `ev`.  The Impl* operators describe what the     *)
(* code does on its tries (node sets `ptrie`/`ftrie`, attachment flag of   *)
(* every pending entry) and are the witnesses for model checking; with     *)
(* Dev = {} they are the repaired trie, with "TrieDeleteDropsSubtree" the  *)
(* shipped one (deleting a node drops live descendants and ancestors).     *)
(***************************************************************************)
EXTENDS Integers, Sequences, FiniteSets, TLC
CONSTANTS Dev
VARIABLES now,
          pend,      \* id -> [name, cbp, dig, at, life, done, att]  (done = callback invocations so far; att = still reachable in the trie)
          ptrie,     \* node set of the PIT trie (root always present)
          handlers,  \* prefix -> handler id
          inq,       \* incoming Interests handed to a handler: rid -> deadline
          ev
vars == <<now, pend, ptrie, handlers, inq, ev>>
Empty == [x \in {} |-> 0]
IsPrefix(p, n) == Len(p) <= Len(n) /\ \A i \in 1..Len(p) : p[i] = n[i]
Pre(n, k) == SubSeq(n, 1, k)
Prefixes(n) == { Pre(n, k) : k \in 0..Len(n) }
Ext(fn, k, v) == [x \in DOMAIN fn \cup {k} |-> IF x = k THEN v ELSE fn[x]]
Drop(fn, K)   == [x \in DOMAIN fn \ K |-> fn[x]]
Longest(P) == CHOOSE p \in P : \A q \in P : Len(q) <= Len(p)

Open == { i \in DOMAIN pend : pend[i].done = 0 }
\* d.dig : digest id of the arriving Data ; an Interest may ask for one (dig # -1)
Sat(i, dn, w) == /\ (pend[i].name = dn \/ (pend[i].cbp /\ IsPrefix(pend[i].name, dn)))
                 /\ (pend[i].dig = -1 \/ pend[i].dig = w)
Ids(fired) == { fired[x].id : x \in 1..Len(fired) }
NoDupIds(fired) == Cardinality(Ids(fired)) = Len(fired)
Resolve(p, F) == [i \in DOMAIN p |-> IF i \in F THEN [p[i] EXCEPT !.done = @ + 1] ELSE p[i]]

(* ---------------- trie bookkeeping (implementation-shaped) ---------------- *)
Live(p, T) == { i \in DOMAIN p : p[i].done = 0 /\ p[i].att /\ p[i].name \in T }
HasVal(p, T, q) == \E i \in Live(p, T) : p[i].name = q
HasChild(T, q) == \E c \in T : Len(c) = Len(q) + 1 /\ IsPrefix(q, c)
\* repaired DeleteIf: remove q and then its ancestors while they hold no entries and no children
RECURSIVE PruneUp(_, _, _)
PruneUp(p, T, q) == IF q = <<>> \/ q \notin T \/ HasVal(p, T, q) \/ HasChild(T, q) THEN T
                    ELSE PruneUp(p, T \ {q}, Pre(q, Len(q) - 1))
\* shipped Delete/DeleteIf: the node goes with its whole subtree, then every ancestor left without children goes
\* too, whatever it holds
RECURSIVE DropUp(_, _)
DropUp(T, q) == IF q = <<>> THEN {<<>>}   \* deleting the root empties it
                ELSE LET T2 == { x \in T : ~IsPrefix(q, x) }  par == Pre(q, Len(q) - 1)
                     IN IF HasChild(T2, par) THEN T2 ELSE DropUp(T2, par)
TrieDel(p, T, q, force) ==    \* force: Delete() ; otherwise DeleteIf(list empty)
   IF "TrieDeleteDropsSubtree" \in Dev
   THEN (IF force \/ ~HasVal(p, T, q) THEN DropUp(T, q) ELSE T)
   ELSE PruneUp(p, T, q)
\* entries whose node left the trie are no longer reachable by arriving packets (their timer still holds the node)
Detached(p, T2) == [i \in DOMAIN p |-> IF p[i].name \notin T2 THEN [p[i] EXCEPT !.att = FALSE] ELSE p[i]]

(* ---------------- actions (observables are parameters) --------------------- *)
Express(id, n, cbp, dig, life) ==
  /\ pend' = Ext(pend, id, [name |-> n, cbp |-> cbp, dig |-> dig, at |-> now, life |-> life, done |-> 0, att |-> TRUE])
  /\ ptrie' = ptrie \cup Prefixes(n)
  /\ ev' = [ev |-> "express", id |-> id, fired |-> <<>>]
  /\ UNCHANGED <<now, handlers, inq>>
RecvData(dn, w, fired) ==
  LET p2 == Resolve(pend, Ids(fired))
      n0 == Longest({ q \in ptrie : IsPrefix(q, dn) })
      T2 == TrieDel(p2, ptrie, n0, FALSE)
  IN /\ pend' = Detached(p2, T2) /\ ptrie' = T2
     /\ ev' = [ev |-> "data", n |-> dn, w |-> w, fired |-> fired]
     /\ UNCHANGED <<now, handlers, inq>>
RecvNack(n, fired) ==
  LET p2 == Resolve(pend, Ids(fired))
      T2 == IF n \in ptrie THEN TrieDel(p2, ptrie, n, TRUE) ELSE ptrie
  IN /\ pend' = Detached(p2, T2) /\ ptrie' = T2
     /\ ev' = [ev |-> "nack", n |-> n, fired |-> fired]
     /\ UNCHANGED <<now, handlers, inq>>
Advance(dt, fired) ==
  LET p2 == Resolve(pend, Ids(fired))
      \* every timer that fired prunes from its own node
      RECURSIVE PruneAll(_, _)
      PruneAll(T, S) == IF S = {} THEN T ELSE LET i == CHOOSE x \in S : TRUE
                                              IN PruneAll(IF pend[i].name \in T /\ pend[i].att THEN TrieDel(p2, T, pend[i].name, FALSE) ELSE T, S \ {i})
      T2 == PruneAll(ptrie, Ids(fired))
  IN /\ now' = now + dt /\ pend' = Detached(p2, T2) /\ ptrie' = T2
     /\ ev' = [ev |-> "adv", dt |-> dt, fired |-> fired]
     /\ UNCHANGED <<handlers, inq>>
Attach(p, h)  == /\ handlers' = Ext(handlers, p, h) /\ ev' = [ev |-> "attach", fired |-> <<>>] /\ UNCHANGED <<now, pend, ptrie, inq>>
Detach(p)     == /\ handlers' = Drop(handlers, {p}) /\ ev' = [ev |-> "detach", fired |-> <<>>] /\ UNCHANGED <<now, pend, ptrie, inq>>
\* an incoming Interest: h = id of the handler that ran (-1: none); rid names the Reply closure
RecvInterest(n, life, h, rid) ==
  /\ inq' = IF h = -1 THEN inq ELSE Ext(inq, rid, now + life)
  /\ ev' = [ev |-> "interest", n |-> n, h |-> h, fired |-> <<>>]
  /\ UNCHANGED <<now, pend, ptrie, handlers>>
Reply(rid, sent) ==
  /\ rid \in DOMAIN inq
  /\ ev' = [ev |-> "reply", rid |-> rid, sent |-> sent, fired |-> <<>>]
  /\ UNCHANGED <<now, pend, ptrie, handlers, inq>>

(* ---------------- C20 rules (evaluated in the state the action was taken in) ---- *)
ExactlyOnce == \A i \in DOMAIN pend : pend[i].done <= 1
R_Data(dn, w, fired) == /\ NoDupIds(fired)
                        /\ \A x \in 1..Len(fired) : fired[x].res = "data"
                        /\ Ids(fired) = { i \in Open : Sat(i, dn, w) }
R_Nack(n, fired) == /\ NoDupIds(fired)
                    /\ \A x \in 1..Len(fired) : fired[x].res = "nack"
                    /\ Ids(fired) = { i \in Open : pend[i].name = n }
\* timeouts: never before the lifetime; certainly once it is strictly past (the code adds a margin below one tick)
R_Adv(dt, fired) == /\ NoDupIds(fired)
                    /\ \A x \in 1..Len(fired) : fired[x].res = "timeout"
                    /\ Ids(fired) \subseteq { i \in Open : pend[i].at + pend[i].life <= now + dt }
                    /\ { i \in Open : pend[i].at + pend[i].life < now + dt } \subseteq Ids(fired)
R_Int(n, h) == LET P == { p \in DOMAIN handlers : IsPrefix(p, n) }
               IN IF P = {} THEN h = -1 ELSE h = handlers[Longest(P)]
R_Reply(rid, sent) == /\ (sent => now <= inq[rid])
                      /\ (now < inq[rid] => sent)
P_C20 == [][/\ (ev'.ev = "data" => R_Data(ev'.n, ev'.w, ev'.fired))
            /\ (ev'.ev = "nack" => R_Nack(ev'.n, ev'.fired))
            /\ (ev'.ev = "adv" => R_Adv(ev'.dt, ev'.fired))
            /\ (ev'.ev = "interest" => R_Int(ev'.n, ev'.h))
            /\ (ev'.ev = "reply" => R_Reply(ev'.rid, ev'.sent))
            /\ (ev'.ev \in {"express", "attach", "detach"} => Len(ev'.fired) = 0)]_vars
\* bounded liveness as safety: nothing stays pending once its lifetime is strictly past
AllResolved == \A i \in DOMAIN pend : pend[i].at + pend[i].life < now => pend[i].done = 1

(* ---------------- implementation-shaped witnesses --------------------------- *)
ToSeq(S, res) == LET RECURSIVE F(_)
                     F(X) == IF X = {} THEN <<>> ELSE LET i == CHOOSE x \in X : TRUE IN <<[id |-> i, res |-> res]>> \o F(X \ {i})
                 IN F(S)
\* what the code resolves: entries reachable from the longest existing prefix node, walking up
ImplData(dn, w)  == ToSeq({ i \in Live(pend, ptrie) : Sat(i, dn, w) }, "data")
ImplNack(n)      == ToSeq({ i \in Live(pend, ptrie) : pend[i].name = n }, "nack")
\* timers hold their node: they fire whether or not the node is still in the trie
ImplAdv(dt)      == ToSeq({ i \in Open : pend[i].at + pend[i].life < now + dt }, "timeout")
ImplInt(n)       == LET P == { p \in DOMAIN handlers : IsPrefix(p, n) } IN IF P = {} THEN -1 ELSE handlers[Longest(P)]
=============================================================================
