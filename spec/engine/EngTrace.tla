---- MODULE EngTrace ----
(* Recorded executions of the real basic.Engine (dummy timer, or the real timer inside a synctest bubble) *)
EXTENDS AppEngine, Json
CONSTANT TraceFile
VARIABLES l, hi
Trace == ndJsonDeserialize(TraceFile)
tvars == <<vars, l, hi>>
Ev == Trace[l]
TInit == now = 0 /\ pend = Empty /\ ptrie = {<<>>} /\ handlers = Empty /\ inq = Empty /\ ev = [ev |-> "0", fired |-> <<>>]
         /\ l = 1 /\ hi = 0 /\ TLCSet(7, 0)
Step ==
  /\ l <= Len(Trace) /\ l' = l + 1 /\ hi' = l
  /\ \/ Ev.ev = "Reset" /\ now' = 0 /\ pend' = Empty /\ ptrie' = {<<>>} /\ handlers' = Empty /\ inq' = Empty /\ ev' = [ev |-> "R", fired |-> <<>>]
     \/ Ev.ev = "express" /\ Express(Ev.id, Ev.n, Ev.cbp, Ev.dig, Ev.life)
     \/ Ev.ev = "data" /\ RecvData(Ev.n, Ev.w, Ev.fired)
     \/ Ev.ev = "nack" /\ RecvNack(Ev.n, Ev.fired)
     \/ Ev.ev = "adv" /\ Advance(Ev.dt, Ev.fired)
     \/ Ev.ev = "attach" /\ Attach(Ev.p, Ev.h)
     \/ Ev.ev = "detach" /\ Detach(Ev.p)
     \/ Ev.ev = "interest" /\ RecvInterest(Ev.n, Ev.life, Ev.h, Ev.rid)
     \/ Ev.ev = "reply" /\ (IF Ev.rid \in DOMAIN inq THEN Reply(Ev.rid, Ev.sent) ELSE (UNCHANGED <<now, pend, ptrie, handlers, inq>> /\ ev' = [ev |-> "x", fired |-> <<>>]))
     \/ Ev.ev = "hammer" /\ UNCHANGED <<now, pend, ptrie, handlers, inq>> /\ ev' = [ev |-> "hammer", fired |-> <<>>]
     \/ Ev.ev = "P" /\ UNCHANGED <<now, pend, ptrie, handlers, inq>> /\ ev' = [ev |-> "P", fired |-> <<>>]
TSpec == TInit /\ [][Step]_tvars
HiWater == TLCSet(7, IF TLCGet(7) < hi THEN hi ELSE TLCGet(7))
Accepted == PrintT(<<"hiwater", TLCGet(7), Len(Trace)>>) /\ TLCGet(7) = Len(Trace)
\* callbacks are only ever invoked for Interests that were expressed (and only by data / nack / time steps)
T_C20known == [][l <= Len(Trace) /\ Ev.ev \notin {"Reset", "P"} => \A x \in 1..Len(Ev.fired) : Ev.fired[x].id \in DOMAIN pend]_tvars
\* the free-running hammer (goroutines expressing, feeding, attaching at once): at quiescence every expressed Interest was
\* resolved exactly once and only by Data that satisfies it
T_C20hammer == [][(l <= Len(Trace) /\ Ev.ev = "hammer") => (Ev.expressed > 0 /\ Ev.never = 0 /\ Ev.twice = 0 /\ Ev.wrong = 0)]_tvars
T_nopanic == [][~(l <= Len(Trace) /\ Ev.ev = "P")]_tvars
\* an Interest the engine handed to a handler got a Reply closure
T_C20rid == [][(l <= Len(Trace) /\ Ev.ev = "interest") => ((Ev.h = -1) <=> (Ev.rid = -1))]_tvars
====
