---- MODULE AppEngineMC ----
EXTENDS AppEngine
CONSTANTS MaxDepth
Names == { <<"a">>, <<"a","b">>, <<"a","b","c">>, <<"d">> }
DNames == Names \cup { <<"a","b","c","x">>, <<"e">> }
Init == now = 0 /\ pend = Empty /\ ptrie = {<<>>} /\ handlers = Empty /\ inq = Empty /\ ev = [ev |-> "0", fired |-> <<>>]
NextId == Cardinality(DOMAIN pend) + 1
Next == \/ \E n \in Names, cbp \in BOOLEAN, dig \in {-1, 1}, life \in {1, 2} : Express(NextId, n, cbp, dig, life)
        \/ \E dn \in DNames, w \in {1, 2} : RecvData(dn, w, ImplData(dn, w))
        \/ \E n \in Names : RecvNack(n, ImplNack(n))
        \/ \E dt \in {1, 2} : Advance(dt, ImplAdv(dt))
        \/ \E p \in { <<>>, <<"a">>, <<"a","b">> } : p \notin DOMAIN handlers /\ Attach(p, Len(p) + 1)
        \/ \E p \in DOMAIN handlers : Detach(p)
        \/ \E n \in DNames : RecvInterest(n, 1, ImplInt(n), Cardinality(DOMAIN inq) + 1)
        \/ \E r \in DOMAIN inq : Reply(r, now <= inq[r])
Spec == Init /\ [][Next]_vars
Constr == TLCGet("level") <= MaxDepth
View == <<now, pend, ptrie, handlers, inq>>
====
