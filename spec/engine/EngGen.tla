---- MODULE EngGen ----
(* TLC as schedule generator for harness/eng_test.go TestEngSched (inputs only, trace-row format) *)
EXTENDS AppEngine, Json
CONSTANTS Depth, OutDir
VARIABLE hist
Names == { <<"a">>, <<"a","b">>, <<"a","b","c">>, <<"d">> }
\* data wire ids of the harness table: id = 2*index + k over /a /a/b /a/b/c /a/b/c/x /d /d/y /e
DName(w) == << <<"a">>, <<"a","b">>, <<"a","b","c">>, <<"a","b","c","x">>, <<"d">>, <<"d","y">>, <<"e">> >>[((w - 1) \div 2) + 1]
Init == now = 0 /\ pend = Empty /\ ptrie = {<<>>} /\ handlers = Empty /\ inq = Empty /\ ev = [ev |-> "0", fired |-> <<>>] /\ hist = <<>>
NextId == Cardinality(DOMAIN pend) + 1
DigFor(n, cbp, w) == IF DName(w) = n \/ (cbp /\ IsPrefix(n, DName(w))) THEN w ELSE -1
With(r) ==
  \/ r.ev = "express" /\ Express(NextId, r.n, r.cbp, IF r.k = 1 THEN DigFor(r.n, r.cbp, r.w) ELSE -1, r.life)
        /\ hist' = Append(hist, [ev |-> "express", n |-> r.n, cbp |-> r.cbp, dig |-> (IF r.k = 1 THEN DigFor(r.n, r.cbp, r.w) ELSE -1), life |-> r.life])
  \/ r.ev = "data" /\ RecvData(DName(r.w), r.w, ImplData(DName(r.w), r.w)) /\ hist' = Append(hist, [ev |-> "data", w |-> r.w])
  \/ r.ev = "nack" /\ RecvNack(r.n, ImplNack(r.n)) /\ hist' = Append(hist, [ev |-> "nack", n |-> r.n])
  \/ r.ev = "adv" /\ Advance(r.dt, ImplAdv(r.dt)) /\ hist' = Append(hist, [ev |-> "adv", dt |-> r.dt])
  \/ r.ev = "attach" /\ (IF r.p \in DOMAIN handlers THEN Detach(r.p) /\ hist' = Append(hist, [ev |-> "detach", p |-> r.p])
                         ELSE Attach(r.p, r.h) /\ hist' = Append(hist, [ev |-> "attach", p |-> r.p, h |-> r.h]))
  \/ r.ev = "interest" /\ RecvInterest(DName(r.w), r.life, ImplInt(DName(r.w)), Cardinality(DOMAIN inq) + 1)
        /\ hist' = Append(hist, [ev |-> "interest", n |-> DName(r.w), life |-> r.life])
  \/ r.ev = "reply" /\ (IF DOMAIN inq = {} THEN Advance(1, ImplAdv(1)) /\ hist' = Append(hist, [ev |-> "adv", dt |-> 1])
                        ELSE LET rid == ((r.h - 1) % Cardinality(DOMAIN inq)) + 1 IN Reply(rid, now <= inq[rid]) /\ hist' = Append(hist, [ev |-> "reply", rid |-> rid]))
Step == With([ev |-> RandomElement({"express", "express", "express", "data", "data", "data", "nack", "adv", "adv", "attach", "interest", "reply"}),
              n |-> RandomElement(Names), cbp |-> RandomElement({FALSE, FALSE, TRUE}), k |-> RandomElement(1..5), w |-> RandomElement(1..14),
              life |-> RandomElement(1..4), dt |-> RandomElement(1..3), p |-> RandomElement({ <<>>, <<"a">>, <<"a","b">>, <<"d">> }), h |-> RandomElement(1..50)])
Next == Len(hist) < Depth /\ Step
Spec == Init /\ [][Next]_<<vars, hist>>
Dump == Len(hist) = Depth => ndJsonSerialize(OutDir \o "/s" \o ToString(TLCGet("stats").traces) \o ".ndjson", hist)
====
