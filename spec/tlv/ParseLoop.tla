----------------------------- MODULE ParseLoop -----------------------------
(***************************************************************************)
(* The parse loop emitted by the TLV code generator (std/encoding/codegen/ *)
(* model.go) for one model: fields are (type number, required) in          *)
(* definition order; an ORDERED model accepts them only in that order and  *)
(* keeps a `progress` index, an unordered one dispatches on the type.      *)
(* Unknown element types are rejected when critical (type <= 31 or odd)    *)
(* unless the caller asked to ignore that; otherwise they are skipped.     *)
(* Property (C13): inserting an unrecognised non-critical element at any   *)
(* position of a valid encoding changes the outcome of no other field; a   *)
(* critical one causes rejection unless ignored.                           *)
(***************************************************************************)
EXTENDS Integers, Sequences, FiniteSets, TLC
CONSTANTS Dev     \* "UnknownTakesSlot": the shipped ordered loop lets a skipped unknown element consume a progress slot
Critical(t) == t <= 31 \/ t % 2 = 1
\* fields: sequence of [t, req]; input: sequence of element types; returns [ok, set] (set = indices of fields filled)
RECURSIVE Run(_, _, _, _, _, _, _)
\* i: next input position; prog: progress (ordered); set: fields filled
Run(fields, ordered, input, ic, i, prog, set) ==
  IF i > Len(input) THEN
      [ok |-> \A j \in 1..Len(fields) : fields[j].req => j \in set, set |-> set]
  ELSE LET t == input[i]
           known == { j \in 1..Len(fields) : fields[j].t = t }
       IN IF known = {} THEN
             IF Critical(t) /\ ~ic THEN [ok |-> FALSE, set |-> set]
             ELSE Run(fields, ordered, input, ic, i + 1, IF ordered /\ "UnknownTakesSlot" \in Dev THEN prog + 1 ELSE prog, set)
          ELSE LET j == CHOOSE x \in known : TRUE IN
               IF ~ordered THEN Run(fields, ordered, input, ic, i + 1, prog, set \cup {j})
               ELSE IF j > prog THEN
                       \* fields skipped on the way must not be required ones ... they are reported missing at the end
                       Run(fields, ordered, input, ic, i + 1, j, set \cup {j})
                    ELSE \* out of order (or progress already past it): the element is not consumed by any field; the loop
                         \* falls off the end of the field list and the next read starts inside this element: reject
                         [ok |-> FALSE, set |-> set]
Parse(fields, ordered, input, ic) == Run(fields, ordered, input, ic, 1, 0, {})
InsertAt(s, p, x) == SubSeq(s, 1, p) \o <<x>> \o SubSeq(s, p + 1, Len(s))
\* what C13 demands of the parse of `input` with unknown element u inserted after position p
InsertionOK(fields, ordered, input, ic, p, u) ==
  LET base == Parse(fields, ordered, input, ic)
      ins  == Parse(fields, ordered, InsertAt(input, p, u), ic)
  IN IF Critical(u) /\ ~ic THEN ~ins.ok
     ELSE ins.ok = base.ok /\ (base.ok => ins.set = base.set)
\* the observable outcome the harness logs for one insertion experiment on a VALID encoding
Expected(u, ic) == IF Critical(u) /\ ~ic THEN "reject" ELSE "same"
=============================================================================
