------------------------------ MODULE NameOrder ------------------------------
(***************************************************************************)
(* NDN canonical order on names (C14).  A name is a sequence of components *)
(* [t, v] with v a sequence of byte values.  Components are ordered by     *)
(* type, then value length, then value bytes; names component-wise, a      *)
(* proper prefix first.                                                    *)
(***************************************************************************)
EXTENDS Integers, Sequences, FiniteSets, TLC
RECURSIVE LexCmp(_, _, _)
LexCmp(a, b, i) == IF i > Len(a) THEN 0
                   ELSE IF a[i] < b[i] THEN -1 ELSE IF a[i] > b[i] THEN 1 ELSE LexCmp(a, b, i + 1)
CompCmp(x, y) == IF x.t < y.t THEN -1 ELSE IF x.t > y.t THEN 1
                 ELSE IF Len(x.v) < Len(y.v) THEN -1 ELSE IF Len(x.v) > Len(y.v) THEN 1
                 ELSE LexCmp(x.v, y.v, 1)
RECURSIVE NameCmpFrom(_, _, _)
NameCmpFrom(a, b, i) ==
  IF i > Len(a) /\ i > Len(b) THEN 0
  ELSE IF i > Len(a) THEN -1 ELSE IF i > Len(b) THEN 1
  ELSE LET c == CompCmp(a[i], b[i]) IN IF c # 0 THEN c ELSE NameCmpFrom(a, b, i + 1)
NameCmp(a, b) == NameCmpFrom(a, b, 1)
IsPrefix(p, n) == Len(p) <= Len(n) /\ \A i \in 1..Len(p) : p[i] = n[i]
Sign(x) == IF x < 0 THEN -1 ELSE IF x > 0 THEN 1 ELSE 0
\* rule on one logged pair observation
PairOK(e) ==
  /\ Sign(e.cmp) = NameCmp(e.a, e.b)
  /\ Sign(e.cmpRev) = 0 - NameCmp(e.a, e.b)
  /\ e.eq = (e.a = e.b)
  /\ e.encEq = (e.a = e.b)                      \* equality coincides with equality of encodings
  /\ e.prefix = IsPrefix(e.a, e.b)
  /\ ((e.a = e.b) => e.hashEq)                  \* equal names hash equally
\* rule on one logged single-name observation
NameOK(e) ==
  /\ e.prefixHashOk                             \* i-th prefix hash = hash of the i-component prefix
  /\ e.bytesBack = e.n                          \* Bytes -> NameFromBytes
  /\ (e.uriEligible => (e.uriErr = "" /\ e.uriBack = e.n))     \* URI round trip (types 1..65535, shortest-form numbers)
  /\ e.panic = ""
\* the URI parser never panics, whatever the string
StrOK(e) == e.outcome \in {"ok", "error"}
=============================================================================
