---- MODULE RegTrace ----
(* Round-trip and unknown-element experiments on every generated TLV model (harness/reg), judged by ParseLoop *)
EXTENDS ParseLoop, Json
CONSTANT TraceFile
VARIABLES l, hi
Trace == ndJsonDeserialize(TraceFile)
tvars == <<l, hi>>
TInit == l = 1 /\ hi = 0 /\ TLCSet(7, 0)
Step == l <= Len(Trace) /\ l' = l + 1 /\ hi' = l
TSpec == TInit /\ [][Step]_tvars
HiWater == TLCSet(7, IF TLCGet(7) < hi THEN hi ELSE TLCGet(7))
Accepted == PrintT(<<"hiwater", TLCGet(7), Len(Trace)>>) /\ TLCGet(7) = Len(Trace)
Last == Trace[hi]
Is(e) == hi >= 1 /\ Last.ev = e
\* every value the type-directed generator builds encodes to exactly the announced bytes (a well-formed TLV sequence
\* covering the buffer) and decodes, contiguous or segmented, to the same value; the encoder may refuse a value
\* (e.g. a required field left nil) but never panics
I_C13rt == Is("rt") => /\ Last.outcome \in {"equal", "noencode"}
                       /\ (Last.outcome = "equal" => Last.walk)
\* an unrecognised element: skipped when non-critical (or when the caller ignores criticality), rejected otherwise
I_C13ins == Is("ins") => Last.outcome = Expected(Last.u, Last.ic)
I_C13models == Is("Reset") => Last.models >= 1 /\ Last.files >= 1
\* the checked-in generated file of a package is byte for byte what the checked-in generator makes of the checked-in definitions
I_C13gen == Is("gen") => Last.equal /\ Last.generated > 0
Failed == (IF I_C13rt THEN {} ELSE {"I_C13rt"}) \cup (IF I_C13ins THEN {} ELSE {"I_C13ins"}) \cup (IF I_C13models THEN {} ELSE {"I_C13models"})
          \cup (IF I_C13gen THEN {} ELSE {"I_C13gen"})
CollectViol == Failed = {} \/ PrintT(<<"viol", hi, Failed>>)
====
