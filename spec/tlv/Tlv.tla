--------------------------------- MODULE Tlv ---------------------------------
(***************************************************************************)
(* NDN-TLV wire arithmetic and packet layout as an oracle that is          *)
(* independent of the code (C03, C12): for a packet SHAPE (component types *)
(* and value lengths, presence and magnitude of every optional field,      *)
(* content / parameter lengths, signature-info and signature-value         *)
(* lengths) it yields the exact total length, the outer and Name length    *)
(* fields, and the byte ranges (offset, length) covered by the signature   *)
(* and by the parameters digest.                                           *)
(***************************************************************************)
EXTENDS Integers, Sequences, FiniteSets, TLC
VarLen(n) == IF n <= 252 THEN 1 ELSE IF n <= 65535 THEN 3 ELSE 5      \* TLV-TYPE / TLV-LENGTH number
NatLen(n) == IF n <= 255 THEN 1 ELSE IF n <= 65535 THEN 2 ELSE 4      \* non-negative integer (values < 2^31 here)
TlvLen(t, l) == VarLen(t) + VarLen(l) + l
Hdr(t, l) == VarLen(t) + VarLen(l)
RECURSIVE SumComps(_, _)
SumComps(comps, i) == IF i > Len(comps) THEN 0 ELSE TlvLen(comps[i].t, comps[i].vlen) + SumComps(comps, i + 1)
NameBody(comps) == SumComps(comps, 1)
NameTlv(comps) == TlvLen(7, NameBody(comps))
RECURSIVE SumNames(_, _)
SumNames(ns, i) == IF i > Len(ns) THEN 0 ELSE NameTlv(ns[i]) + SumNames(ns, i + 1)

(* ---------------- Data ------------------------------------------------------ *)
\* s: [comps, ct, fresh, fbid, content (-1: absent), siL, sigL (-1: unsigned)]  siL/sigL: SignatureInfo body / value lengths
MetaBody(s) == (IF s.ct >= 0 THEN TlvLen(24, NatLen(s.ct)) ELSE 0)
             + (IF s.fresh >= 0 THEN TlvLen(25, NatLen(s.fresh)) ELSE 0)
             + (IF s.fbid >= 0 THEN TlvLen(26, TlvLen(50, s.fbid)) ELSE 0)
DataSigned(s) == NameTlv(s.comps) + TlvLen(20, MetaBody(s)) + (IF s.content >= 0 THEN TlvLen(21, s.content) ELSE 0)
               + (IF s.sigL >= 0 THEN TlvLen(22, s.siL) ELSE 0)
DataBody(s) == DataSigned(s) + (IF s.sigL >= 0 THEN TlvLen(23, s.sigL) ELSE 0)
DataLen(s) == TlvLen(6, DataBody(s))
\* signed portion of a Data: everything from the Name up to and including SignatureInfo
DataCovered(s) == IF s.sigL >= 0 THEN << <<Hdr(6, DataBody(s)), DataSigned(s)>> >> ELSE << >>

(* ---------------- Interest --------------------------------------------------- *)
\* s: [comps, cbp, mbf, hints (seq of comps), nonce (bool), life, hop, params (-1: absent), siL, sigL]
DigestComp == [t |-> 2, vlen |-> 32]
IName(s) == IF s.params >= 0 THEN Append(s.comps, DigestComp) ELSE s.comps
IBeforeParams(s) == NameTlv(IName(s))
             + (IF s.cbp THEN TlvLen(33, 0) ELSE 0) + (IF s.mbf THEN TlvLen(18, 0) ELSE 0)
             + (IF Len(s.hints) > 0 THEN TlvLen(30, SumNames(s.hints, 1)) ELSE 0)
             + (IF s.nonce THEN TlvLen(10, 4) ELSE 0)
             + (IF s.life >= 0 THEN TlvLen(12, NatLen(s.life)) ELSE 0)
             + (IF s.hop >= 0 THEN TlvLen(34, 1) ELSE 0)
IParamsToSigInfo(s) == (IF s.params >= 0 THEN TlvLen(36, s.params) ELSE 0) + (IF s.sigL >= 0 THEN TlvLen(44, s.siL) ELSE 0)
InterestBody(s) == IBeforeParams(s) + IParamsToSigInfo(s) + (IF s.sigL >= 0 THEN TlvLen(46, s.sigL) ELSE 0)
InterestLen(s) == TlvLen(5, InterestBody(s))
\* signed portion of a signed Interest: the name components without the digest component, then ApplicationParameters
\* through SignatureInfo
InterestCovered(s) ==
  IF s.sigL < 0 THEN << >>
  ELSE LET h == Hdr(5, InterestBody(s))  nh == Hdr(7, NameBody(IName(s)))
       IN << <<h + nh, NameBody(s.comps)>>, <<h + IBeforeParams(s), IParamsToSigInfo(s)>> >>
\* bytes covered by the parameters digest: ApplicationParameters to the end of the packet
InterestDigested(s) ==
  IF s.params < 0 THEN << >>
  ELSE LET h == Hdr(5, InterestBody(s)) IN << <<h + IBeforeParams(s), InterestBody(s) - IBeforeParams(s)>> >>

(* ---------------- rules on one observation of the real encoder / decoder ------ *)
Ranges(r) == [x \in 1..Len(r) |-> <<r[x][1], r[x][2]>>]
DataOK(e) ==
  /\ e.err = ""
  /\ e.wireLen = DataLen(e.s) /\ e.outerL = DataBody(e.s) /\ e.nameL = NameBody(e.s.comps)   \* every length field exact
  /\ e.walkOk                                             \* nested TLVs tile their parents exactly (independent walker)
  /\ e.rtContig /\ e.rtSegmented                          \* decode(encode) = input, contiguous and for every cut tried
  /\ e.nameBytesSame                                      \* Name.Bytes() = the Name element inside the packet; round trip
InterestOK(e) ==
  /\ e.err = ""
  /\ e.wireLen = InterestLen(e.s) /\ e.outerL = InterestBody(e.s) /\ e.nameL = NameBody(IName(e.s))
  /\ e.walkOk /\ e.rtContig /\ e.rtSegmented /\ e.nameBytesSame
  /\ (e.s.params >= 0 => e.digestOk)                      \* the last name component is the SHA-256 of the digested range
\* C12: the ranges found in the produced bytes are the prescribed ones; signer, parser and those ranges hold the same bytes;
\*      the matching validator accepts the packet
SigOK(e, cov, dig) ==
  /\ Ranges(e.covRanges) = cov /\ Ranges(e.digRanges) = dig
  /\ e.signerSawCovered /\ e.parserCovered /\ e.accepted
\* a tampered packet (one bit flipped inside signed portion, signature value or parameters) must not be accepted
TamperOK(e) == e.outcome \in {"decode-error", "rejected"}
=============================================================================
