---- MODULE RecvMC ----
(* every sequence (bounded) of frames from a boundary universe, with the implementation-shaped dispatcher as witness *)
EXTENDS RecvPath
CONSTANTS MaxDepth
Frames == [decodable : BOOLEAN, frag : BOOLEAN, idx : {0, 1, 2}, cnt : {0, 1, 2, MaxFrag + 1}, base : {10, 20}, tokLen : {0, 5, 6}, tid : {0, NThreads - 1, NThreads, 65535}, isData : BOOLEAN]
ImplTids(f) == IF ~Delivers(f) THEN << >> ELSE IF f.isData /\ f.tokLen = 6 THEN << f.tid >> ELSE << 0 >>
Init == store = [b \in {} |-> 0] /\ queued = 0 /\ ev = [f |-> [decodable |-> FALSE, frag |-> FALSE, idx |-> 0, cnt |-> 1, base |-> 10, tokLen |-> 0, tid |-> 0, isData |-> FALSE], tids |-> << >>]
Next == \E f \in Frames : Frame(f, ImplTids(f))
Spec == Init /\ [][Next]_vars
Constr == TLCGet("level") <= MaxDepth
StoreSound == \A b \in DOMAIN store : store[b].have # {} /\ store[b].have \subseteq 0..(store[b].cnt - 1) /\ store[b].cnt <= MaxFrag
====
