---- MODULE ParseLoopMC ----
(* enumerate model skeletons (up to 4 fields, distinct types, any required flags), both loop kinds, every valid input  *)
(* (in-order subsequence containing the required fields), every insertion position, unknown types of all three classes *)
EXTENDS ParseLoop
VARIABLES c
Types == {7, 20, 22, 36}           \* field type numbers (critical and non-critical ones)
Unknowns == {30, 253, 254}          \* <= 31 (critical), odd (critical), even > 31 (non-critical)
Skeletons == UNION { { f \in [1..n -> [t : Types, req : BOOLEAN]] : \A a, b \in 1..n : a < b => f[a].t < f[b].t } : n \in 1..3 }
Inputs(f) == { s \in UNION { [1..k -> 1..Len(f)] : k \in 0..Len(f) } : \A a, b \in 1..Len(s) : a < b => s[a] < s[b] }
Init == c \in { [f |-> f, ordered |-> o, sel |-> s, ic |-> ic, p |-> p, u |-> u] :
                f \in Skeletons, o \in BOOLEAN, s \in UNION { Inputs(g) : g \in Skeletons }, ic \in BOOLEAN, p \in 0..3, u \in Unknowns }
Next == UNCHANGED c
Spec == Init /\ [][Next]_c
Wellformed == \A x \in 1..Len(c.sel) : c.sel[x] <= Len(c.f)
InputOf == [x \in 1..Len(c.sel) |-> c.f[c.sel[x]].t]
C13 == (Wellformed /\ c.p <= Len(c.sel) /\ Parse(c.f, c.ordered, InputOf, c.ic).ok) => InsertionOK(c.f, c.ordered, InputOf, c.ic, c.p, c.u)
====
