---- MODULE TlvMC ----
(* TLC enumerates packet shapes from boundary sets and writes them for the harness (harness/tlvshape_test.go);    *)
(* it also checks internal consistency of the layout oracle on every shape (ranges inside the packet, in order).    *)
EXTENDS Tlv, Json, Randomization
CONSTANTS OutFile, NData, NInterest
VARIABLE done
VLens == {0, 1, 5, 252, 253, 254, 255, 256, 300, 1000}
CTypes == {8, 8, 8, 1, 32, 50, 54, 65535}
Comp == [t : {1, 8, 32, 50, 54, 65535}, vlen : VLens]
Names == {<<>>} \cup [1..1 -> Comp] \cup [1..2 -> [t : {8, 50}, vlen : {0, 1, 252, 253, 300}]] \cup [1..3 -> [t : {8}, vlen : {0, 253, 300}]]
         \cup [1..6 -> [t : {8}, vlen : {0, 1}]]     \* many short and empty components (a name of n empty components is 2n bytes)
HintSets == { <<>>, << <<[t |-> 8, vlen |-> 1]>> >>, << <<[t |-> 8, vlen |-> 253]>>, <<[t |-> 8, vlen |-> 0], [t |-> 8, vlen |-> 5]>> >> }
\* shapes are drawn field by field from the boundary sets (the full products are far beyond what can be enumerated)
RandData(i) == [comps |-> RandomElement(Names), ct |-> RandomElement({-1, 0, 255, 256}), fresh |-> RandomElement({-1, 0, 255, 65536, 268435455, 268435456, 2147483647}),
                fbid |-> RandomElement({-1, 0, 253}), content |-> RandomElement({-1, 0, 1, 252, 253, 7000}),
                signer |-> RandomElement({"none", "sha256", "hmac", "ecdsa", "rsa"}), split |-> RandomElement({1, 2, 3}), id |-> i]
RandInterest(i) ==
  LET p == RandomElement({-1, -1, 0, 252, 253, 3000})
  IN [comps |-> RandomElement(Names \ {<<>>}), cbp |-> RandomElement(BOOLEAN), mbf |-> RandomElement(BOOLEAN), hints |-> RandomElement(HintSets),
      nonce |-> RandomElement(BOOLEAN), life |-> RandomElement({-1, 0, 255, 256, 65536, 268435455, 268435456, 2147483647}), hop |-> RandomElement({-1, 0, 255}), params |-> p,
      \* a signed Interest carries parameters; asking for a signature WITHOUT parameters (one draw in six) must either be refused
      \* or give a packet that decodes and verifies (I_C12built exempts the refusal, I_C12interest judges the packet)
      signer |-> (IF p >= 0 \/ RandomElement(1..6) = 1 THEN RandomElement({"none", "sha256int", "hmacint", "ecdsaint"}) ELSE "none"), split |-> RandomElement({1, 2, 3}), id |-> i]
\* sweeps across the 1-byte / 3-byte TLV-LENGTH boundary of the OUTER length for signers whose signature is shorter
\* than their estimate (ECDSA: the encoder shrinks the packet after signing)
SweepData == [c \in 1..90 |-> [kind |-> "data", s |-> [comps |-> << [t |-> 8, vlen |-> 1] >>, ct |-> -1, fresh |-> -1, fbid |-> -1, content |-> 100 + c,
                                                       signer |-> (IF c % 3 = 0 THEN "hmac" ELSE "ecdsa"), split |-> 1, id |-> 100000 + c]]]
SweepInterest == [c \in 1..90 |-> [kind |-> "interest", s |-> [comps |-> << [t |-> 8, vlen |-> 1] >>, cbp |-> FALSE, mbf |-> FALSE, hints |-> <<>>, nonce |-> TRUE,
                                                               life |-> -1, hop |-> -1, params |-> 60 + c, signer |-> "ecdsaint", split |-> 1, id |-> 200000 + c]]]
Init == done = FALSE
Next == /\ ~done /\ done' = TRUE
        /\ ndJsonSerialize(OutFile, [i \in 1..NData |-> [kind |-> "data", s |-> RandData(i)]] \o [i \in 1..NInterest |-> [kind |-> "interest", s |-> RandInterest(i)]]
                                   \o SweepData \o SweepInterest)
Spec == Init /\ [][Next]_done
\* oracle self-consistency on sampled shapes with representative signature lengths
WithSig(s, siL, sigL) == [x \in DOMAIN s \cup {"siL", "sigL"} |-> IF x = "siL" THEN siL ELSE IF x = "sigL" THEN sigL ELSE s[x]]
RangeIn(r, total) == r[1] >= 0 /\ r[2] >= 0 /\ r[1] + r[2] <= total
OracleSound ==
  /\ \A k \in 1..400 : LET s == WithSig(RandData(k), 3, 32) IN
        /\ \A x \in 1..Len(DataCovered(s)) : RangeIn(DataCovered(s)[x], DataLen(s))
        /\ DataCovered(s)[1][1] + DataCovered(s)[1][2] + TlvLen(23, 32) = DataLen(s)
  /\ \A k \in 1..400 : LET r == RandInterest(k) s == WithSig([r EXCEPT !.params = IF r.params < 0 THEN 7 ELSE r.params], 21, 32) IN
        /\ \A x \in 1..Len(InterestCovered(s)) : RangeIn(InterestCovered(s)[x], InterestLen(s))
        /\ InterestDigested(s)[1][1] + InterestDigested(s)[1][2] = InterestLen(s)
        /\ InterestCovered(s)[2][1] = InterestDigested(s)[1][1]
====
