---- MODULE NameTrace ----
EXTENDS NameOrder, Json
CONSTANT TraceFile
VARIABLES l, hi
Trace == ndJsonDeserialize(TraceFile)
tvars == <<l, hi>>
TInit == l = 1 /\ hi = 0 /\ TLCSet(7, 0)
Step == l <= Len(Trace) /\ l' = l + 1 /\ hi' = l
TSpec == TInit /\ [][Step]_tvars
HiWater == TLCSet(7, IF TLCGet(7) < hi THEN hi ELSE TLCGet(7))
Accepted == PrintT(<<"hiwater", TLCGet(7), Len(Trace)>>) /\ TLCGet(7) = Len(Trace)
Last == Trace[hi]
Is(e) == hi >= 1 /\ Last.ev = e
I_C14pair == Is("pair") => PairOK(Last)
I_C14name == Is("name") => NameOK(Last)
I_C14str == Is("str") => StrOK(Last)
Failed == (IF I_C14pair THEN {} ELSE {"I_C14pair"}) \cup (IF I_C14name THEN {} ELSE {"I_C14name"}) \cup (IF I_C14str THEN {} ELSE {"I_C14str"})
CollectViol == Failed = {} \/ PrintT(<<"viol", hi, Failed>>)
====
