---- MODULE RecvTrace ----
EXTENDS RecvPath, Json
CONSTANT TraceFile
VARIABLES l, hi
Trace == ndJsonDeserialize(TraceFile)
tvars == <<l, hi, vars>>
TInit == l = 1 /\ hi = 0 /\ TLCSet(7, 0) /\ store = <<>> /\ queued = 0 /\ ev = 0
Step == l <= Len(Trace) /\ l' = l + 1 /\ hi' = l /\ UNCHANGED vars
TSpec == TInit /\ [][Step]_tvars
HiWater == TLCSet(7, IF TLCGet(7) < hi THEN hi ELSE TLCGet(7))
Accepted == PrintT(<<"hiwater", TLCGet(7), Len(Trace)>>) /\ TLCGet(7) = Len(Trace)
Last == Trace[hi]
Is(e) == hi >= 1 /\ Last.ev = e
I_C04dec == Is("dec") => (CallOK(Last) /\ Last.class \in MutClasses)
I_C04frame == Is("frame") => (FrameOK(Last) /\ Last.class \in MutClasses)
I_C04crash == ~Is("crash")
Failed == (IF I_C04dec THEN {} ELSE {"I_C04dec"}) \cup (IF I_C04frame THEN {} ELSE {"I_C04frame"}) \cup (IF I_C04crash THEN {} ELSE {"I_C04crash"})
CollectViol == Failed = {} \/ PrintT(<<"viol", hi, Failed>>)
====
