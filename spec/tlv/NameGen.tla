---- MODULE NameGen ----
(* TLC enumerates the universe of names (adversarially close: one byte, one length, one type apart; prefix-related; all 256 *)
(* byte values) and of parser inputs, writes them for the harness, and checks that NameCmp is a total order on the universe *)
EXTENDS NameOrder, Json, SequencesExt
CONSTANTS OutNames, OutStrings, Full   \* Full: prove the total order on the whole universe (slow) or on the close-pairs subset
Types == {1, 8, 32, 50, 54, 65535}
Vals == { <<>>, <<0>>, <<46>>, <<46, 46>>, <<46, 46, 46>>, <<37>>, <<47>>, <<61>>, <<65>>, <<255>>, <<65, 0>>, <<1, 0>>, <<0, 1>>, <<65, 66, 67>> }
Comps == { [t |-> t, v |-> v] : t \in Types, v \in Vals }
AllBytes == { << [t |-> 8, v |-> <<b>>] >> : b \in 0..255 }
\* values longer than a machine word, differing early, late, or only in length
LongVals == { <<1,0,0,0,0,0,0,0,0,0>>, <<2,0,0,0,0,0,0,0,0,0>>, <<1,0,0,0,0,0,0,0,0,1>>, <<0,9,0,0,0,0,0,0,0,0>>, <<1,0,0,0,0,0,0,0,0>>, <<255,0,0,0,0,0,0,0,0,0,0,0>> }
Longs == { << [t |-> t, v |-> v] >> : t \in {8, 32}, v \in LongVals } \cup { << [t |-> 8, v |-> <<65>>], [t |-> 8, v |-> v] >> : v \in LongVals }
\* numeric-convention components at the top of the 64-bit range (shortest form: 8 bytes)
BigNums == { << [t |-> t, v |-> v] >> : t \in {50, 54}, v \in { <<128,0,0,0,0,0,0,0>>, <<127,255,255,255,255,255,255,255>>, <<255,255,255,255,255,255,255,255>>, <<1,0,0,0,0>> } }
Names == {<<>>} \cup { <<c>> : c \in Comps } \cup AllBytes \cup Longs \cup BigNums
         \cup { <<c, d>> : c \in { x \in Comps : x.t \in {8, 50} /\ Len(x.v) <= 1 }, d \in { x \in Comps : x.t \in {1, 8, 54} } }
         \cup { <<c, c, d>> : c \in { x \in Comps : x.t = 8 /\ Len(x.v) = 1 }, d \in { x \in Comps : x.t \in {8, 32} /\ Len(x.v) <= 1 } }
\* parser inputs: every string of up to 4 tokens over separators, escapes and type markers
Tokens == {"/", "=", "%", "a", ".", "..", "%2", "%GG", "%41", "8", "sha256digest", "seg", "65536", "0", " ", "<", "v", "HI", "%HI", "%4HI"}
\* ("HI" stands for a byte >= 0x80, which TLA+ strings cannot hold: the driver substitutes it, see name_test.go)
Strings == { "" } \cup Tokens \cup { a \o b : a, b \in Tokens } \cup { a \o b \o c : a, b \in {"/", "=", "%", "a", "8", "seg"}, c \in Tokens }
           \cup { "/" \o a \o "=" \o b : a, b \in Tokens }
VARIABLE done
Init == done = FALSE
Next == ~done /\ done' = TRUE /\ ndJsonSerialize(OutNames, SetToSeq(Names)) /\ ndJsonSerialize(OutStrings, SetToSeq({ [s |-> x] : x \in Strings }))
Spec == Init /\ [][Next]_done
SmallComps == { [t |-> t, v |-> v] : t \in {8, 50}, v \in { <<>>, <<0>>, <<65>>, <<255>>, <<65, 0>> } }
Small == {<<>>} \cup { <<c>> : c \in SmallComps } \cup { <<c, d>> : c \in { x \in SmallComps : x.t = 8 /\ Len(x.v) <= 1 }, d \in { x \in SmallComps : Len(x.v) <= 1 } }
Mid == IF Full THEN Names ELSE { n \in Names : \A i \in 1..Len(n) : Len(n[i].v) <= 2 /\ (Len(n[i].v) = 1 => n[i].v[1] \in {0, 1, 46, 65, 255}) }
TotalOrder == done \/
              /\ \A a, b \in Mid : NameCmp(a, b) = 0 - NameCmp(b, a) /\ ((NameCmp(a, b) = 0) <=> (a = b))
              /\ \A a, b, c \in Small : (NameCmp(a, b) <= 0 /\ NameCmp(b, c) <= 0) => NameCmp(a, c) <= 0      \* transitivity
              /\ \A a, b \in Small : (IsPrefix(a, b) /\ a # b) => NameCmp(a, b) < 0                             \* a proper prefix sorts first
====
