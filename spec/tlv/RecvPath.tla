------------------------------ MODULE RecvPath ------------------------------
(***************************************************************************)
(* The forwarder's receive path for one face (C04): a frame handed up by   *)
(* the stream/datagram transport is decoded (bare packet or NDNLPv2        *)
(* frame), possibly reassembled, and dispatched to a forwarding thread     *)
(* (by the thread id in a 6-byte PIT token for Data, else by name hash).   *)
(* Every input is classified by what the decoder makes of it; the property *)
(* is about outcomes and state: a call returns (no panic, no crash, no     *)
(* runaway allocation or loop), a packet is only ever queued on an         *)
(* existing thread, and an undecodable or refused frame changes nothing.   *)
(***************************************************************************)
EXTENDS Integers, Sequences, FiniteSets, TLC
CONSTANTS NThreads, MaxFrag
MutClasses == {"valid", "len", "type", "unknown", "nested", "trunc", "frag", "token", "stream"}
Outcomes == {"ok", "PANIC", "CRASH", "OVERALLOC", "SPIN"}
VARIABLES store, queued, ev
vars == <<store, queued, ev>>
\* f: [decodable, frag (has fragmentation fields), idx, cnt, base, tokLen, tid, isData]
Accepts(f) == f.cnt >= 1 /\ f.cnt <= MaxFrag /\ f.idx >= 0 /\ f.idx < f.cnt /\ (f.base \in DOMAIN store => store[f.base].cnt = f.cnt)
Completes(f) == Accepts(f) /\ (IF f.base \in DOMAIN store THEN store[f.base].have ELSE {}) \cup {f.idx} = 0..(f.cnt - 1)
Delivers(f) == f.decodable /\ (IF f.frag /\ ~(f.idx = 0 /\ f.cnt = 1) THEN Completes(f) ELSE TRUE)
                 /\ (f.isData /\ f.tokLen = 6 => f.tid < NThreads)
Frame(f, tids) ==
  /\ ev' = [f |-> f, tids |-> tids]
  /\ queued' = queued + Len(tids)
  /\ IF ~f.decodable \/ ~f.frag \/ (f.idx = 0 /\ f.cnt = 1) \/ ~Accepts(f) THEN UNCHANGED store
     ELSE IF Completes(f) THEN store' = [b \in DOMAIN store \ {f.base} |-> store[b]]
     ELSE store' = [b \in DOMAIN store \cup {f.base} |-> IF b = f.base
                       THEN [cnt |-> f.cnt, have |-> (IF b \in DOMAIN store THEN store[b].have ELSE {}) \cup {f.idx}] ELSE store[b]]
\* rules
DispatchOK(f, tids) == /\ \A x \in 1..Len(tids) : tids[x] >= 0 /\ tids[x] < NThreads
                       /\ (~Delivers(f) => tids = << >>)
                       /\ ((f.isData /\ f.tokLen = 6 /\ tids # << >>) => tids = << f.tid >>)
P_C04 == [][DispatchOK(ev'.f, ev'.tids)]_vars
\* observation rules used by the trace spec (one row = one call of a decoder or of the receive path)
CallOK(e) == e.outcome = "ok"
FrameOK(e) == /\ e.outcome = "ok"
              /\ \A x \in 1..Len(e.threads) : e.threads[x] >= 0 /\ e.threads[x] < NThreads
              /\ (~e.decodable => (Len(e.threads) = 0 /\ e.store1 = e.store0))   \* a frame that fails to decode changes nothing
              /\ e.slots1 <= e.slots0 + MaxFrag                                     \* one frame never reserves more than one message's slots
=============================================================================
