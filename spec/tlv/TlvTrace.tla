---- MODULE TlvTrace ----
(* observations of the real packet encoder / decoder / signers / validators, judged by the Tlv layout oracle *)
EXTENDS Tlv, Json
CONSTANT TraceFile
VARIABLES l, hi
Trace == ndJsonDeserialize(TraceFile)
tvars == <<l, hi>>
TInit == l = 1 /\ hi = 0 /\ TLCSet(7, 0)
Step == l <= Len(Trace) /\ l' = l + 1 /\ hi' = l
TSpec == TInit /\ [][Step]_tvars
HiWater == TLCSet(7, IF TLCGet(7) < hi THEN hi ELSE TLCGet(7))
Accepted == PrintT(<<"hiwater", TLCGet(7), Len(Trace)>>) /\ TLCGet(7) = Len(Trace)
Last == Trace[hi]
Is(e) == hi >= 1 /\ Last.ev = e
I_C03data == Is("data") => DataOK(Last)
\* (a signature asked for without parameters may be refused by the API: nothing was built)
I_C03interest == Is("interest") => (InterestOK(Last) \/ (Last.s.params < 0 /\ Last.s.signer # "none" /\ Last.err # ""))
I_C12data == (Is("data") /\ Last.err = "" /\ Last.s.sigL >= 0) => SigOK(Last, DataCovered(Last.s), << >>)
I_C12interest == (Is("interest") /\ Last.err = "") =>
                    /\ (Last.s.sigL >= 0 => SigOK(Last, InterestCovered(Last.s), InterestDigested(Last.s)))
                    /\ (Last.s.params >= 0 => Ranges(Last.digRanges) = InterestDigested(Last.s) /\ Last.digestOk)
\* a shape with a signer must come out signed
I_C12signed == ((Is("data") \/ Is("interest")) /\ Last.err = "" /\ Last.s.signer # "none") => Last.s.sigL >= 0
\* every shipped signer signs every shape (a signer that fails leaves nothing for a validator to accept)
I_C12built == ((Is("data") \/ Is("interest")) /\ Last.s.signer # "none" /\ ~(Is("interest") /\ Last.s.params < 0)) => Last.err = ""
I_C12tamper == Is("tamper") => TamperOK(Last)
FailedC03 == (IF I_C03data THEN {} ELSE {"I_C03data"}) \cup (IF I_C03interest THEN {} ELSE {"I_C03interest"})
FailedC12 == (IF I_C12data THEN {} ELSE {"I_C12data"}) \cup (IF I_C12interest THEN {} ELSE {"I_C12interest"})
             \cup (IF I_C12signed THEN {} ELSE {"I_C12signed"}) \cup (IF I_C12tamper THEN {} ELSE {"I_C12tamper"})
             \cup (IF I_C12built THEN {} ELSE {"I_C12built"})
CONSTANT Which
Failed == IF Which = "C03" THEN FailedC03 ELSE FailedC12
CollectViol == Failed = {} \/ PrintT(<<"viol", hi, Failed>>)
====
