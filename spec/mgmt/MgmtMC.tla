---- MODULE MgmtMC ----
(* every history (depth-bounded) of commands over every module/verb, presence of fields, arrival prefix and face scope *)
EXTENDS Mgmt
CONSTANTS MaxDepth
Cmds == [pfx : {"localhost", "localhop", "other"}, local : BOOLEAN, inface : {700},
         mod : {"rib", "fib", "strategy-choice", "cs", "faces"}, verb : {"register", "unregister", "add-nexthop", "remove-nexthop", "set", "unset", "config", "update", "destroy", "bogus"},
         hasParams : BOOLEAN, hasName : BOOLEAN, name : {<<"a">>}, faceId : {-1, 800, 9999}, cost : {-1, 5}, origin : {-1}, flags : {-1},
         strat : {"ok", "bare"}, stratName : {"multicast"}, capacity : {-1, 5, -2}, mtu : {-1, 0, 100, 1500}]
Init == routes = {} /\ nh = Empty /\ st = (<<>> :> "best-route") /\ cap = 1024 /\ faces = (700 :> 8800 @@ 800 :> 1500) /\ lh \in BOOLEAN /\ ev = [c |-> [pfx |-> "none", local |-> FALSE, mod |-> "", verb |-> ""], accepted |-> FALSE]
Next == \E c \in Cmds : Command(c, Accepts(c))
Spec == Init /\ [][Next]_vars
Constr == TLCGet("level") <= MaxDepth
View == <<routes, nh, st, cap, faces, lh>>
RootStrategy == <<>> \in DOMAIN st
RoutesOnExistingFaces == \A r \in routes : r.face \in DOMAIN faces
MtuSane == \A f \in DOMAIN faces : faces[f] >= 1
====
