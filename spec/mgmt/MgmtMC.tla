---- MODULE MgmtMC ----
(* every history (depth-bounded) of commands over every module/verb, presence of fields, arrival prefix and face scope *)
EXTENDS Mgmt
CONSTANTS MaxDepth
A == <<"a">>
AB == <<"a", "b">>
Base(mod, verb) == [pfx |-> "localhost", local |-> TRUE, inface |-> 700, mod |-> mod, verb |-> verb, hasParams |-> TRUE, hasName |-> TRUE, name |-> A,
                    faceId |-> -1, cost |-> -1, origin |-> -1, flags |-> -1, strat |-> "", stratName |-> "", capacity |-> -1, mtu |-> -1, flagsMask |-> "none", exp |-> -1, create |-> "", pers |-> -1, fl |-> 1, mk |-> 1]
\* how the command arrives: prefix x scope of the arrival face
Entries == {<<"localhost", TRUE>>, <<"localhost", FALSE>>, <<"localhop", TRUE>>, <<"localhop", FALSE>>, <<"other", TRUE>>}
Via(c, e) == [c EXCEPT !.pfx = e[1], !.local = e[2]]
Rib == { [Base("rib", v) EXCEPT !.name = n, !.faceId = f, !.cost = k, !.flags = g, !.hasParams = hp, !.hasName = hn, !.exp = x] :
           v \in {"register", "unregister", "bogus"}, n \in {A, AB}, f \in {-1, 800, 9999}, k \in {-1, 5}, g \in {-1, 0}, hp \in BOOLEAN, hn \in BOOLEAN,
           x \in {-1} }
       \cup { [Base("rib", "register") EXCEPT !.name = n, !.faceId = f, !.exp = 3000] : n \in {A, AB}, f \in {-1, 800} }
       \cup { [Base("rib", "announce") EXCEPT !.hasParams = hp] : hp \in BOOLEAN }
Fib == { [Base("fib", v) EXCEPT !.name = n, !.faceId = f, !.cost = k, !.hasParams = hp] :
           v \in {"add-nexthop", "remove-nexthop"}, n \in {A, AB}, f \in {-1, 800, 9999}, k \in {-1, 5}, hp \in BOOLEAN }
Str == { [Base("strategy-choice", v) EXCEPT !.name = n, !.strat = s, !.stratName = IF s = "ok" THEN "multicast" ELSE "", !.hasName = hn] :
           v \in {"set", "unset"}, n \in {<<>>, A}, s \in {"ok", "bare", "unknown", ""}, hn \in BOOLEAN }
Cs == { [Base("cs", "config") EXCEPT !.hasName = FALSE, !.capacity = k, !.hasParams = hp, !.flagsMask = fm] : k \in {-1, 5, -2}, hp \in BOOLEAN, fm \in {"none", "both", "flags"} }
Fac == { [Base("faces", v) EXCEPT !.hasName = FALSE, !.faceId = f, !.mtu = m, !.flagsMask = fm] :
           v \in {"update", "destroy"}, f \in {-1, 800, 9999}, m \in {-1, 0, 100, 1500}, fm \in {"none", "both", "flags"} }
       \cup { [Base("faces", "update") EXCEPT !.hasName = FALSE, !.faceId = f, !.pers = p, !.mtu = m, !.flagsMask = fm, !.fl = x, !.mk = 5] :
                f \in {800}, p \in {0, 1, 2}, m \in {-1, 0}, fm \in {"none", "both"}, x \in {0, 5} }
Cre == { [Base("faces", "create") EXCEPT !.hasName = FALSE, !.create = k, !.hasParams = hp] :
           k \in {"nouri", "smallmtu", "baduri", "flagsonly", "conflict", "multicast", "ondemand", "scheme"}, hp \in {TRUE} }
Short == { [Base(m, "") EXCEPT !.hasParams = FALSE, !.hasName = FALSE] : m \in {"", "rib", "faces"} }
Cmds == { Via(c, e) : c \in Rib \cup Fib \cup Str \cup Cs \cup Fac \cup Cre \cup Short, e \in Entries }
Init == routes = {} /\ nh = Empty /\ st = (<<>> :> "best-route") /\ cap = 1024 /\ faces = (700 :> 8800 @@ 800 :> 1500) /\ lh \in BOOLEAN
        /\ fprop = (700 :> [pers |-> 0, lf |-> FALSE, cm |-> TRUE] @@ 800 :> [pers |-> 0, lf |-> FALSE, cm |-> TRUE])
        /\ fattr = (700 :> [scope |-> 1, schemes |-> {"unix", "fd"}, uri |-> "fd://7", luri |-> "unix:///run/nfd.sock"]
                     @@ 800 :> [scope |-> 0, schemes |-> {"udp4"}, uri |-> "udp4://10.0.0.2:6363", luri |-> "udp4://10.0.0.1:6363"])
        /\ ev = [c |-> [pfx |-> "none", local |-> FALSE, mod |-> "", verb |-> ""], accepted |-> FALSE]
Next == \E c \in Cmds : Command(c, Accepts(c))
Spec == Init /\ [][Next]_vars
Constr == TLCGet("level") <= MaxDepth
View == <<routes, nh, st, cap, faces, fprop, fattr, lh>>
\* a query names nothing that is gone: the answer to every filter lies within the face table, and the unfiltered query is the face table
Queries == { [faceId |-> f, scheme |-> s, scope |-> sc, uri |-> "", luri |-> ""] : f \in {-1, 700, 800, 9999}, s \in {"", "udp4", "fd"}, sc \in {-1, 0, 1} }
QuerySane == /\ \A q \in Queries : QueryAnswer(q) \subseteq DOMAIN faces
             /\ QueryAnswer([faceId |-> -1, scheme |-> "", scope |-> -1, uri |-> "", luri |-> ""]) = DOMAIN faces
AttrsOfLiveFaces == DOMAIN fattr = DOMAIN faces /\ DOMAIN fprop = DOMAIN faces
\* no face ever holds a persistency its kind cannot have
PersSane == \A f \in DOMAIN fprop : PersOK(f, fprop[f].pers)
RootStrategy == <<>> \in DOMAIN st
RoutesOnExistingFaces == \A r \in routes : r.face \in DOMAIN faces
MtuSane == \A f \in DOMAIN faces : faces[f] >= 1
\* every accepted command is one the statement authorises
OnlyAuthorised == ev.accepted => Authorised(ev.c)
====
