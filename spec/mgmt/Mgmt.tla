-------------------------------- MODULE Mgmt --------------------------------
(***************************************************************************)
(* NFD management of YaNFD (fw/mgmt): control commands arriving as         *)
(* Interests under /localhost/nfd (local faces only) or, for the RIB       *)
(* module, /localhop/nfd when enabled.  One action per command; the        *)
(* observables (status code, tables afterwards, datasets) are parameters   *)
(* of the rules.  State: registered routes, direct FIB entries, strategy   *)
(* choices, CS capacity, the face table with each face's MTU.              *)
(***************************************************************************)
EXTENDS Integers, Sequences, FiniteSets, TLC
CONSTANTS MinMtu, MaxCap
VARIABLES routes,  \* set of [p, face, origin, cost, flags]
          nh,      \* direct FIB entries made through the fib module: prefix -> (face -> cost)
          st,      \* strategy choices: prefix -> strategy name
          cap,     \* CS capacity
          faces,   \* face id -> mtu   (faces that exist)
          fprop,   \* face id -> [pers, lf, cm]: persistency, local fields enabled, congestion marking enabled (faces/update changes them)
          fattr,   \* face id -> [scope, schemes, uri, luri]: what a faces/query filter is matched against (fixed when the face is made)
          lh,      \* configuration: management also listens under /localhop/nfd
          ev
vars == <<routes, nh, st, cap, faces, fprop, fattr, lh, ev>>
Empty == [x \in {} |-> 0]
Ext(fn, k, v) == [x \in DOMAIN fn \cup {k} |-> IF x = k THEN v ELSE fn[x]]
Drop(fn, K)   == [x \in DOMAIN fn \ K |-> fn[x]]
\* c : command record
\*   pfx \in {"localhost","localhop","other"}, local (scope of the arrival face), inface,
\*   mod, verb, hasParams, hasName, name, faceId (-1 absent), cost, origin, flags (-1 absent),
\*   flagsMask \in {"none", "both", "flags", "mask"} (faces/update), verb = "" for a name too short to carry a verb
\*   strat \in {"", "ok", "bare", "unknown", "badver", "alien", "empty", "trailing" (a component after the version)}, stratName, capacity (-1 absent; -2: not representable), mtu (-1 absent)
\*   pers (faces/update: FacePersistency, -1 absent), fl / mk (faces/update with flagsMask = "both": the Flags and Mask values; bit 1 = local
\*   fields, bit 4 = congestion marking)
\*   exp (rib/register: ExpirationPeriod in ms, -1 absent)
\*   create (faces/create): "" for other verbs, else the class of the request: "nouri" (no Uri), "smallmtu" (an MTU that cannot carry a packet),
\*     "baduri" (a Uri that cannot be canonized), "flagsonly" (Flags without Mask), "conflict" (the remote Uri of an existing face),
\*     "multicast" (not a unicast address), "ondemand" (a persistency a created face cannot have), "scheme" (a scheme faces cannot be created for),
\*     "ok" (a socket is opened: the new face's id and MTU are observables newId / newMtu; not driven by the harness, see DESIGN 9)
Authorised(c) == \/ (c.pfx = "localhost" /\ c.local)
                 \/ (c.mod = "rib" /\ c.pfx = "localhop" /\ lh)
EffFace(c) == IF c.faceId <= 0 THEN c.inface ELSE c.faceId
Known(c) == \/ (c.mod = "rib" /\ c.verb \in {"register", "unregister"})
            \/ (c.mod = "fib" /\ c.verb \in {"add-nexthop", "remove-nexthop"})
            \/ (c.mod = "strategy-choice" /\ c.verb \in {"set", "unset"})
            \/ (c.mod = "cs" /\ c.verb = "config")
            \/ (c.mod = "faces" /\ c.verb \in {"update", "destroy", "create"})
\* persistent = 0, on-demand = 1, permanent = 2: a UDP face is persistent or permanent, a Unix-socket face persistent, others anything
PersOK(f, p) == IF "udp4" \in fattr[f].schemes \/ "udp6" \in fattr[f].schemes THEN p \in {0, 2}
                ELSE IF "unix" \in fattr[f].schemes THEN p = 0 ELSE TRUE
Bit(x, b) == (x \div b) % 2 = 1
\* parameters that are missing, malformed or out of range: must be answered 4xx and change nothing
Malformed(c) ==
  \/ ~c.hasParams
  \/ (c.mod \in {"rib", "fib", "strategy-choice"} /\ ~c.hasName)
  \/ (c.mod = "strategy-choice" /\ c.verb = "set" /\ c.strat # "ok")   \* absent, bare prefix, unknown name, bad version, foreign prefix, empty name, trailing component
  \/ (c.verb \in {"register", "add-nexthop"} /\ c.faceId > 0 /\ c.faceId \notin DOMAIN faces)
  \/ (c.mod = "strategy-choice" /\ c.verb = "unset" /\ c.name = <<>>)
  \/ (c.mod = "cs" /\ c.capacity = -2)
  \/ (c.mod = "cs" /\ c.flagsMask \in {"flags", "mask"})                                  \* likewise for cs/config
  \/ (c.mod = "faces" /\ c.verb = "update" /\ EffFace(c) \notin DOMAIN faces)
  \/ (c.mod = "faces" /\ c.verb = "update" /\ c.pers >= 0 /\ EffFace(c) \in DOMAIN fattr /\ ~PersOK(EffFace(c), c.pers))   \* a persistency that kind of face cannot have
  \/ (c.mod = "faces" /\ c.verb = "update" /\ c.mtu >= 0 /\ c.mtu < 1)          \* an MTU that cannot carry any fragment
  \/ (c.mod = "faces" /\ c.verb = "update" /\ c.flagsMask \in {"flags", "mask"})      \* Flags and Mask come together or not at all
  \/ (c.mod = "faces" /\ c.verb = "create" /\ c.create # "ok")                    \* every refusal class of faces/create
  \/ (c.mod = "faces" /\ c.verb = "destroy" /\ c.faceId < 0)                    \* destroy names its face explicitly (one that is gone already is fine)
\* (PersOK is defined above Malformed)
\* an MTU between 1 and MinMtu-1 may be refused or accepted (DESIGN 4.0); MinMtu and above must be accepted
MayRefuse(c) == c.mod = "faces" /\ c.verb = "update" /\ c.mtu >= 1 /\ c.mtu < MinMtu
Accepts(c) == Authorised(c) /\ Known(c) /\ ~Malformed(c)
Apply(c) ==
  LET g == EffFace(c) IN
  CASE c.verb = "register" ->
         /\ routes' = { r \in routes : ~(r.p = c.name /\ r.face = g /\ r.origin = (IF c.origin < 0 THEN 0 ELSE c.origin)) }
                      \cup {[p |-> c.name, face |-> g, origin |-> IF c.origin < 0 THEN 0 ELSE c.origin,
                             cost |-> IF c.cost < 0 THEN 0 ELSE c.cost, flags |-> IF c.flags < 0 THEN 1 ELSE c.flags, exp |-> c.exp]}
         /\ UNCHANGED <<nh, st, cap, faces>>
    [] c.verb = "unregister" ->
         /\ routes' = { r \in routes : ~(r.p = c.name /\ r.face = g /\ r.origin = (IF c.origin < 0 THEN 0 ELSE c.origin)) }
         /\ UNCHANGED <<nh, st, cap, faces>>
    [] c.verb = "add-nexthop" ->
         /\ nh' = Ext(nh, c.name, Ext(IF c.name \in DOMAIN nh THEN nh[c.name] ELSE Empty, g, IF c.cost < 0 THEN 0 ELSE c.cost))
         /\ UNCHANGED <<routes, st, cap, faces>>
    [] c.verb = "remove-nexthop" ->
         /\ nh' = (IF c.name \in DOMAIN nh THEN [nh EXCEPT ![c.name] = Drop(@, {g})] ELSE nh)
         /\ UNCHANGED <<routes, st, cap, faces>>
    [] c.verb = "set" -> st' = Ext(st, c.name, c.stratName) /\ UNCHANGED <<routes, nh, cap, faces>>
    [] c.verb = "unset" -> st' = Drop(st, {c.name}) /\ UNCHANGED <<routes, nh, cap, faces>>
    [] c.verb = "config" -> cap' = (IF c.capacity < 0 THEN cap ELSE c.capacity) /\ UNCHANGED <<routes, nh, st, faces>>
    [] c.verb = "destroy" -> \* the face leaves the face table and, as for any face that goes down, its routes leave the RIB
         /\ faces' = Drop(faces, {c.faceId}) /\ routes' = { r \in routes : r.face # c.faceId }
         /\ UNCHANGED <<nh, st, cap>>
    [] c.verb = "create" -> faces' = Ext(faces, c.newId, c.newMtu) /\ UNCHANGED <<routes, nh, st, cap>>
    [] c.verb = "update" -> faces' = (IF c.mtu >= 0 THEN [faces EXCEPT ![g] = IF c.mtu > 8800 THEN 8800 ELSE c.mtu] ELSE faces)
                            /\ UNCHANGED <<routes, nh, st, cap>>
\* accepted: whether the command took effect (for MayRefuse commands the observed status decides)
Command(c, accepted) ==
  /\ ev' = [c |-> c, accepted |-> accepted] /\ lh' = lh
  /\ IF accepted THEN Apply(c) ELSE UNCHANGED <<routes, nh, st, cap, faces>>
  /\ fattr' = (IF DOMAIN faces' = DOMAIN faces THEN fattr ELSE [f \in DOMAIN fattr \cap DOMAIN faces' |-> fattr[f]])
  /\ fprop' = (IF accepted /\ c.mod = "faces" /\ c.verb = "update"
               THEN [fprop EXCEPT ![EffFace(c)] =
                       [pers |-> IF c.pers >= 0 THEN c.pers ELSE @.pers,
                        lf   |-> IF c.flagsMask = "both" /\ Bit(c.mk, 1) THEN Bit(c.fl, 1) ELSE @.lf,
                        cm   |-> IF c.flagsMask = "both" /\ Bit(c.mk, 4) THEN Bit(c.fl, 4) ELSE @.cm]]
               ELSE IF DOMAIN faces' = DOMAIN faces THEN fprop ELSE [f \in DOMAIN fprop \cap DOMAIN faces' |-> fprop[f]])
\* ---- C17 rules on the observed response (o.status) ------------------------------------------------
StatusOK(c, status) ==
  /\ status # "CRASH"
  /\ IF ~Authorised(c) THEN status # "200" \/ ~Known(c)          \* nothing may be accepted; silence or an error is fine
     ELSE IF ~Known(c) THEN TRUE
     ELSE IF Malformed(c) THEN status \in {"400", "404", "406", "409", "410", "414"}
     ELSE IF MayRefuse(c) THEN status \in {"200", "400", "406", "409"}
     ELSE status = "200"
\* the model's decision when the statement leaves no choice
MustAccept(c) == Accepts(c) /\ ~MayRefuse(c)
\* authorisation invariant: state changes only through authorised commands
P_C17auth == [][(routes' # routes \/ nh' # nh \/ st' # st \/ cap' # cap \/ faces' # faces \/ fprop' # fprop) => Authorised(ev'.c)]_vars
RouteSet(s) == { [p |-> s[x].p, face |-> s[x].face, origin |-> s[x].origin, cost |-> s[x].cost, flags |-> s[x].flags, exp |-> s[x].exp] : x \in 1..Len(s) }
\* ---- faces/query: the dataset lists exactly the faces the filter matches (q: [faceId, scheme, scope, uri, luri], -1 / "" = not given) ----
Matches(f, q) == /\ (q.faceId >= 0 => q.faceId = f)
                 /\ (q.scheme # "" => q.scheme \in fattr[f].schemes)
                 /\ (q.scope >= 0 => q.scope = fattr[f].scope)
                 /\ (q.uri # "" => q.uri = fattr[f].uri)
                 /\ (q.luri # "" => q.luri = fattr[f].luri)
QueryAnswer(q) == { f \in DOMAIN faces \cap DOMAIN fattr : Matches(f, q) }
StratMap(s) == [p \in { s[x].p : x \in 1..Len(s) } |-> s[CHOOSE x \in 1..Len(s) : s[x].p = p].s]
=============================================================================
