---- MODULE MgmtTrace ----
(* Validation of command histories recorded from the real management thread (harness/mgmt_test.go) against Mgmt.tla. *)
EXTENDS Mgmt, Json
CONSTANT TraceFile
VARIABLES l, hi
Trace == ndJsonDeserialize(TraceFile)
tvars == <<vars, l, hi>>
Ev == Trace[l]
Last == Trace[hi]
FaceMap(s) == [f \in { s[x].id : x \in 1..Len(s) } |-> s[CHOOSE x \in 1..Len(s) : s[x].id = f].mtu]
NoEv == [c |-> [pfx |-> "none", local |-> FALSE, mod |-> "", verb |-> ""], accepted |-> FALSE]
AttrMap(s) == [f \in { s[x].id : x \in 1..Len(s) } |->
                 LET e == s[CHOOSE x \in 1..Len(s) : s[x].id = f] IN
                 [scope |-> e.scope, schemes |-> { e.schemes[k] : k \in 1..Len(e.schemes) }, uri |-> e.uri, luri |-> e.luri]]
PropMap(s) == [f \in { s[x].id : x \in 1..Len(s) } |->
                 LET e == s[CHOOSE x \in 1..Len(s) : s[x].id = f] IN [pers |-> e.pers, lf |-> e.lf, cm |-> e.cm]]
TInit == fprop = Empty /\ routes = {} /\ nh = Empty /\ st = Empty /\ cap = 0 /\ faces = Empty /\ fattr = Empty /\ lh = FALSE /\ ev = NoEv /\ l = 1 /\ hi = 0 /\ TLCSet(7, 0)
\* for a command the statement lets the implementation refuse or accept, the observed status decides
Took(c, status) == IF Authorised(c) /\ Known(c) /\ ~Malformed(c) /\ MayRefuse(c) THEN status = "200" ELSE Accepts(c)
Step ==
  /\ l <= Len(Trace) /\ l' = l + 1 /\ hi' = l
  /\ \/ /\ Ev.ev = "Reset"
        /\ routes' = RouteSet(Ev.routes0) /\ nh' = Empty /\ st' = (<<>> :> Ev.rootStrategy) /\ cap' = Ev.cap
        /\ faces' = FaceMap(Ev.faces) /\ fattr' = AttrMap(Ev.faces) /\ fprop' = PropMap(Ev.faces) /\ lh' = Ev.lh /\ ev' = NoEv
     \/ Ev.ev = "cmd" /\ Command(Ev.c, Took(Ev.c, Ev.o.status))
TSpec == TInit /\ [][Step]_tvars
HiWater == TLCSet(7, IF TLCGet(7) < hi THEN hi ELSE TLCGet(7))
Accepted == PrintT(<<"hiwater", TLCGet(7), Len(Trace)>>) /\ TLCGet(7) = Len(Trace)
IsCmd == l <= Len(Trace) /\ Ev.ev = "cmd"
\* ---- rules on the response, evaluated in the state the command arrived in ------------------------------
T_C17nocrash == [][IsCmd => Ev.o.status # "CRASH"]_tvars
T_C17status  == [][(IsCmd /\ Ev.o.status # "CRASH") => StatusOK(Ev.c, Ev.o.status)]_tvars
T_C17auth    == [][(IsCmd /\ (routes' # routes \/ nh' # nh \/ st' # st \/ cap' # cap \/ faces' # faces \/ fprop' # fprop)) => Authorised(Ev.c)]_tvars
\* ---- rules on what is observed after the command (the model has taken the step) -------------------------
Obs == hi > 0 /\ Last.ev = "cmd" /\ Last.o.status # "CRASH"
NhLive == [p \in { q \in DOMAIN nh : DOMAIN nh[q] # {} } |-> nh[p]]
FibOf(s) == [p \in { s[x].p : x \in { y \in 1..Len(s) : Len(s[y].p) > 0 /\ s[y].p[1] = "fib" } } |->
              LET e == s[CHOOSE x \in 1..Len(s) : s[x].p = p] IN
              [f \in { e.hops[k][1] : k \in 1..Len(e.hops) } |-> e.hops[CHOOSE k \in 1..Len(e.hops) : e.hops[k][1] = f][2]]]
I_C17routes == Obs => RouteSet(Last.o.routes) = routes /\ Len(Last.o.routes) = Cardinality(routes)
I_C17strats == Obs => StratMap(Last.o.strats) = st /\ Len(Last.o.strats) = Cardinality(DOMAIN st)
I_C17cap    == Obs => Last.o.cap = cap
I_C17fib    == Obs => /\ FibOf(Last.o.fib) = NhLive
                      /\ \A r \in routes : \E x \in 1..Len(Last.o.fib) : Last.o.fib[x].p = r.p /\ \E k \in 1..Len(Last.o.fib[x].hops) : Last.o.fib[x].hops[k][1] = r.face
I_C17faces  == Obs => FaceMap(Last.o.faces) = faces /\ PropMap(Last.o.faces) = fprop
\* ... and faces/list shows the same properties
I_C17fprop  == Obs => PropMap(Last.o.dsFaces) = fprop
FibAll(s) == [p \in { s[x].p : x \in 1..Len(s) } |->
              LET e == s[CHOOSE x \in 1..Len(s) : s[x].p = p] IN
              [f \in { e.hops[k][1] : k \in 1..Len(e.hops) } |-> e.hops[CHOOSE k \in 1..Len(e.hops) : e.hops[k][1] = f][2]]]
\* every status dataset lists exactly the current table contents (fib/list, faces/list and cs/info against the tables observed directly)
I_C17ds2    == Obs => /\ FibAll(Last.o.dsFib) = FibAll(Last.o.fib) /\ Len(Last.o.dsFib) = Len(Last.o.fib)
                      /\ FaceMap(Last.o.dsFaces) = faces /\ Len(Last.o.dsFaces) = Cardinality(DOMAIN faces)
                      /\ Last.o.dsCap = cap
I_C17ds     == Obs => /\ Last.o.dsOK
                      /\ RouteSet(Last.o.dsRoutes) = routes /\ Len(Last.o.dsRoutes) = Cardinality(routes)
                      /\ StratMap(Last.o.dsStrats) = st /\ Len(Last.o.dsStrats) = Cardinality(DOMAIN st)
\* faces/query: each filtered dataset lists exactly the faces the filter matches, once
I_C17query  == Obs => \A x \in 1..Len(Last.o.queries) :
                        LET q == Last.o.queries[x] IN
                        /\ { q.ids[k] : k \in 1..Len(q.ids) } = QueryAnswer(q.f) /\ Len(q.ids) = Cardinality(QueryAnswer(q.f))
\* status/general: the table sizes it reports are the sizes of the tables (FIB entries as listed; PIT and CS of the forwarding thread as
\* counted at the instant the dataset was generated: the status Interest itself is pending, its answer is not cached yet)
I_C17gen    == Obs => /\ Last.o.gen.ok /\ Last.o.gen.nfib = Len(Last.o.fib)
                      /\ Last.o.gen.ncs = Last.o.gen.ncsBefore
                      /\ Last.o.gen.npit \in {Last.o.gen.npitBefore, Last.o.gen.npitBefore + 1}   \* (the command itself may have been this very Interest: one entry)
\* faces/list: the traffic counters of a face are that face's counters (target faces: nothing travels on them while the datasets are read)
I_C17ctr    == Obs => \A x \in 1..Len(Last.o.ctr) : Last.o.ctr[x].dsIn = Last.o.ctr[x].inb /\ Last.o.ctr[x].dsOut = Last.o.ctr[x].outb
I_C17usable == Obs => \A x \in 1..Len(Last.o.probes) : Last.o.probes[x].frames >= 1 /\ Last.o.probes[x].whole /\ Last.o.probes[x].fits
====
