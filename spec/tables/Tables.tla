------------------------------- MODULE Tables -------------------------------
(***************************************************************************)
(* FIB / strategy table and RIB of YaNFD (fw/table).                       *)
(*  - abstract part = what properties C05 and C06 state: `nh`/`st` is the   *)
(*    FIB as a map, lookups are longest-prefix match; `routes` is the set   *)
(*    of registered routes and Flat/RibLookup its flattening;               *)
(*  - implementation-shaped part: the RIB tree (`tn` nodes, `named`) whose  *)
(*    updateNexthops recomputes the FIB entries of a subtree, and the       *)
(*    hash-table FIB with virtual depth M (`vmd`: virtual prefix -> md).    *)
(* TablesMC checks that the implementation-shaped parts refine the abstract *)
(* ones for every operation history (depth-bounded); TablesTrace checks     *)
(* recorded executions of the real table.Rib / both real FIBs.              *)
(***************************************************************************)
EXTENDS Integers, Sequences, FiniteSets, TLC
CONSTANTS M,      \* virtual depth of the hash-table FIB
          Dev     \* deviations (documented shipped defects), {} = what the properties demand
VARIABLES routes,   \* set of [p, face, origin, cost, flags]
          nh, st,   \* FIB: prefix -> (face -> cost) ; prefix -> strategy
          tn, named,\* RIB tree: set of node prefixes ; those whose Name is set
          vmd,      \* hash-table FIB: virtual prefix (length M) -> [md, names]
          ev
vars == <<routes, nh, st, tn, named, vmd, ev>>
Empty == [x \in {} |-> 0]
IsPrefix(p, n) == Len(p) <= Len(n) /\ \A i \in 1..Len(p) : p[i] = n[i]
Proper(p, n) == IsPrefix(p, n) /\ Len(p) < Len(n)
Pre(n, k) == SubSeq(n, 1, k)
Prefixes(n) == { Pre(n, k) : k \in 0..Len(n) }
MinS(S) == CHOOSE x \in S : \A y \in S : x <= y
MaxS(S) == CHOOSE x \in S : \A y \in S : y <= x
Ext(fn, k, v) == [x \in DOMAIN fn \cup {k} |-> IF x = k THEN v ELSE fn[x]]
Drop(fn, K)   == [x \in DOMAIN fn \ K |-> fn[x]]
Longest(P) == CHOOSE p \in P : \A q \in P : Len(q) <= Len(p)

(* ======================= C06: flattening of the registered routes ============= *)
CI(r)  == r.flags % 2 = 1
CAP(r) == (r.flags \div 2) % 2 = 1
AtR(R, p) == { r \in R : r.p = p }
CapturesR(R, p) == \E r \in AtR(R, p) : CAP(r)
RoutedR(R) == { r.p : r \in R }
\* routes that contribute to prefix p: its own, plus child-inherit routes of shorter prefixes, stopping at
\* (and including) the nearest shorter prefix holding a capture route; a capturing prefix inherits nothing
ContribR(R, p) ==
  AtR(R, p) \cup
  (IF CapturesR(R, p) THEN {}
   ELSE { r \in R : /\ Proper(r.p, p) /\ CI(r)
                    /\ ~\E q \in RoutedR(R) : Proper(r.p, q) /\ Proper(q, p) /\ CapturesR(R, q) })
FlatR(R, p) == LET C == ContribR(R, p) F == { r.face : r \in C }
               IN [g \in F |-> MinS({ r.cost : r \in { x \in C : x.face = g } })]
RibLookup(n) == LET P == { p \in RoutedR(routes) : IsPrefix(p, n) }
                IN IF P = {} THEN Empty ELSE FlatR(routes, Longest(P))

(* ======================= C05: longest-prefix match on the FIB ================= *)
HasHops(f, p) == p \in DOMAIN f /\ DOMAIN f[p] # {}
FibLookupIn(f, n) == LET P == { p \in DOMAIN f : IsPrefix(p, n) /\ DOMAIN f[p] # {} }
                     IN IF P = {} THEN Empty ELSE f[Longest(P)]
FibLookup(n) == FibLookupIn(nh, n)
NoStrat == "nil"
StratLookup(n) == LET P == { p \in DOMAIN st : IsPrefix(p, n) }
                  IN IF P = {} THEN NoStrat ELSE st[Longest(P)]
FibListing == { p \in DOMAIN nh : DOMAIN nh[p] # {} }
FibEntry(p) == IF p \in DOMAIN nh THEN nh[p] ELSE Empty

(* ======================= hash-table FIB (virtual depth M) ===================== *)
Real(f, s) == { p \in DOMAIN f : DOMAIN f[p] # {} } \cup DOMAIN s       \* keys of realTable after pruning
VKey(p) == Pre(p, M)
\* insertEntry: names of length >= M are recorded under their M-prefix; md only ever grows while the entry lives
VIns(v, p) == IF Len(p) < M THEN v
              ELSE LET k == VKey(p)
                       old == IF k \in DOMAIN v THEN v[k] ELSE [md |-> Len(p), names |-> {}]
                   IN Ext(v, k, [md |-> (IF "MdNotMaintained" \in Dev THEN old.md ELSE MaxS({old.md, Len(p)})),
                                 names |-> old.names \cup {p}])
\* pruneTables: when the real entry of p disappears its name is forgotten; the virtual entry goes with its last name
VPrune(v, p, f, s) ==
   IF Len(p) < M \/ p \in Real(f, s) \/ VKey(p) \notin DOMAIN v THEN v
   ELSE LET k == VKey(p)  nm == v[k].names \ {p}
        IN IF nm = {} THEN Drop(v, {k})
           \* the longest name went away: md drops to the longest remaining one (shipped code: deviation MdNeverShrinks,
           \* which also leaves the virtual entry behind when the last, shorter, name is pruned later)
           ELSE Ext(v, k, [md |-> (IF Len(p) = v[k].md /\ "MdNeverShrinks" \notin Dev THEN MaxS({ Len(q) : q \in nm }) ELSE v[k].md),
                           names |-> nm])
\* findLongestPrefixMatch + the walk down to an entry that has next hops, exactly as the code probes
HashLpm(f, s, v, n) ==
   LET R == Real(f, s)
       probe(hi) == { k \in 0..hi : Pre(n, k) \in R }
       top == IF Len(n) <= M THEN probe(Len(n))
              ELSE LET vk == Pre(n, M)
                       deep == IF vk \in DOMAIN v THEN { k \in (M+1)..MinS({v[vk].md, Len(n)}) : Pre(n, k) \in R } ELSE {}
                   IN IF deep # {} THEN deep ELSE probe(M)
   IN IF top = {} THEN -1 ELSE MaxS(top)
HashLookup(n) == LET k == HashLpm(nh, st, vmd, n)
                     P == IF k < 0 THEN {} ELSE { j \in 0..k : HasHops(nh, Pre(n, j)) }
                 IN IF P = {} THEN Empty ELSE nh[Pre(n, MaxS(P))]
HashStrat(n) == LET k == HashLpm(nh, st, vmd, n)
                    P == IF k < 0 THEN {} ELSE { j \in 0..k : Pre(n, j) \in DOMAIN st }
                IN IF P = {} THEN NoStrat ELSE st[Pre(n, MaxS(P))]

(* ======================= direct FIB operations ================================= *)
FibOp(f2, s2, touched) ==    \* common frame: new FIB, new strategies, name whose real entry was inserted/pruned
  /\ nh' = f2 /\ st' = s2
  /\ vmd' = VPrune(IF touched \in Real(f2, s2) THEN VIns(vmd, touched) ELSE vmd, touched, f2, s2)
  /\ UNCHANGED <<routes, tn, named>>
Ins(p, g, c) == FibOp(Ext(nh, p, Ext(FibEntry(p), g, c)), st, p) /\ ev' = [op |-> "ins", p |-> p]
Rem(p, g)    == FibOp(IF p \in DOMAIN nh THEN [nh EXCEPT ![p] = Drop(@, {g})] ELSE nh, st, p) /\ ev' = [op |-> "rem", p |-> p]
Clr(p)       == FibOp(IF p \in DOMAIN nh THEN [nh EXCEPT ![p] = Empty] ELSE nh, st, p) /\ ev' = [op |-> "clr", p |-> p]
SetS(p, s)   == FibOp(nh, Ext(st, p, s), p) /\ ev' = [op |-> "sets", p |-> p]
\* the root always has a strategy: it can be replaced but not unset (shipped code: deviation UnsetRoot)
UnsetS(p)    == FibOp(nh, IF p = <<>> /\ "UnsetRoot" \notin Dev THEN st ELSE Drop(st, {p}), p) /\ ev' = [op |-> "unsets", p |-> p]

(* ======================= RIB tree: updateNexthops as the code does it ========== *)
\* what the code writes into the FIB entry of tree node q (R: routes after the change)
ImplFlat(R, T, q) ==
  LET own == AtR(R, q)
      anc == { a \in T : Proper(a, q) }
      stop == { a \in anc : CapturesR(R, a) }
      \* ancestors walked bottom-up until (and including) the first capturing one
      walked == IF "NoCaptureStop" \in Dev \/ stop = {} THEN anc ELSE { a \in anc : Len(a) >= Len(Longest(stop)) }
      inh == IF CapturesR(R, q) THEN {} ELSE { r \in R : r.p \in walked /\ CI(r) }
      C == own \cup inh   F == { r.face : r \in C }
  IN [g \in F |-> MinS({ r.cost : r \in { x \in C : x.face = g } })]
\* updateNexthops(p): recompute the entries of every named node in the subtree of p
UpdateSub(f, R, T, N, p) ==
  LET sub == { q \in T : IsPrefix(p, q) /\ q \in N }
      val(q) == IF AtR(R, q) = {} /\ "RoutelessInherits" \notin Dev THEN Empty ELSE ImplFlat(R, T, q)
  IN [q \in DOMAIN f \cup sub |-> IF q \in sub THEN val(q) ELSE f[q]]
\* pruneIfEmpty: drop p and then its ancestors while they have neither children nor routes
RECURSIVE Prune(_, _, _)
Prune(T, R, p) == IF p = <<>> \/ p \notin T \/ AtR(R, p) # {} \/ (\E c \in T : Proper(p, c)) THEN T
                  ELSE Prune(T \ {p}, R, Pre(p, Len(p) - 1))
PruneAll(T, R) == { q \in T : q = <<>> \/ \E r \in R : IsPrefix(q, r.p) }
RibFrame(R2, T2, N2, f2) ==
  /\ routes' = R2 /\ tn' = T2 /\ named' = N2 \cap T2 /\ nh' = f2 /\ UNCHANGED st
  /\ vmd' = vmd   \* (the RIB is validated against both FIBs through lookups; vmd is exercised by the direct FIB ops)
Register(p, g, o, c, fl) ==
  LET R2 == { r \in routes : ~(r.p = p /\ r.face = g /\ r.origin = o) } \cup {[p |-> p, face |-> g, origin |-> o, cost |-> c, flags |-> fl]}
      T2 == tn \cup Prefixes(p)
      N2 == named \cup {p}
  IN RibFrame(R2, T2, N2, UpdateSub(nh, R2, T2, N2, p)) /\ ev' = [op |-> "reg", p |-> p]
Unregister(p, g, o) ==
  LET R2 == { r \in routes : ~(r.p = p /\ r.face = g /\ r.origin = o) }
  IN (IF p \in tn THEN RibFrame(R2, Prune(tn, R2, p), named, UpdateSub(nh, R2, tn, named, p))
      ELSE RibFrame(routes, tn, named, nh)) /\ ev' = [op |-> "unreg", p |-> p]
\* face clean-up: every route of the face disappears (post-order walk, update and prune at every named node)
CleanupTo(R2) == RibFrame(R2, PruneAll(tn, R2), named, UpdateSub(nh, R2, tn, named, <<>>))
Cleanup(g) ==
  /\ IF "CleanupFirstOnly" \in Dev
     THEN \E keep \in SUBSET { r \in routes : r.face = g } :
            /\ \A p \in RoutedR(routes) : Cardinality({ r \in keep : r.p = p }) = (IF Cardinality({ r \in routes : r.p = p /\ r.face = g }) > 1 THEN Cardinality({ r \in routes : r.p = p /\ r.face = g }) - 1 ELSE 0)
            /\ CleanupTo({ r \in routes : r.face # g } \cup keep)
     ELSE CleanupTo({ r \in routes : r.face # g })
  /\ ev' = [op |-> "cleanup"]

(* ======================= properties ========================================== *)
\* C06 as a state invariant over a universe of lookup names
C06On(U) == \A n \in U : FibLookup(n) = RibLookup(n)
\* nothing derived from a removed route or face remains anywhere
C06NoStale == \A p \in DOMAIN nh : \A g \in DOMAIN nh[p] : \E r \in routes : r.face = g /\ IsPrefix(r.p, p)
\* C05: the hash table is observationally the map
C05On(U) == \A n \in U : HashLookup(n) = FibLookup(n) /\ HashStrat(n) = StratLookup(n)
RootHasStrategy == <<>> \in DOMAIN st
\* C08 (tables): the structures hold nothing beyond what their live entries require
RibTight == tn = PruneAll(tn, routes)
VirtTight == \A k \in DOMAIN vmd : /\ vmd[k].names = { p \in Real(nh, st) : Len(p) >= M /\ VKey(p) = k }
                                   /\ vmd[k].names # {}
                                   /\ vmd[k].md = MaxS({ Len(p) : p \in vmd[k].names })
VirtComplete == \A p \in Real(nh, st) : Len(p) >= M => VKey(p) \in DOMAIN vmd /\ p \in vmd[VKey(p)].names
=============================================================================
