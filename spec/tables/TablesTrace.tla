---- MODULE TablesTrace ----
(* Recorded executions of the real table.Rib / FibStrategyTree / FibStrategyHashTable are followed by   *)
(* Tables; after every operation the logged lookups, listings and shapes must equal what the abstract  *)
(* state prescribes (C05, C06, tables part of C08).                                                    *)
EXTENDS Tables, Json
CONSTANT TraceFile
VARIABLES l, hi, algo
Trace == ndJsonDeserialize(TraceFile)
tvars == <<vars, l, hi, algo>>
Ev == Trace[l]
TInit == /\ routes = {} /\ nh = Empty /\ st = (<<>> :> "best-route") /\ tn = {<<>>} /\ named = {} /\ vmd = Empty
         /\ ev = [ev |-> "0"] /\ l = 1 /\ hi = 0 /\ algo = "nametree" /\ TLCSet(7, 0)
Step ==
  /\ l <= Len(Trace) /\ l' = l + 1 /\ hi' = l
  /\ \/ /\ Ev.ev = "Reset" /\ routes' = {} /\ nh' = Empty /\ st' = (<<>> :> "best-route") /\ tn' = {<<>>} /\ named' = {}
        /\ vmd' = Empty /\ ev' = Ev /\ algo' = Ev.algo
     \/ /\ Ev.ev # "Reset" /\ UNCHANGED algo
        /\ \/ Ev.ev = "reg" /\ Register(Ev.p, Ev.face, Ev.origin, Ev.cost, Ev.flags)
           \/ Ev.ev = "unreg" /\ Unregister(Ev.p, Ev.face, Ev.origin)
           \/ Ev.ev = "cleanup" /\ Cleanup(Ev.face)
           \/ Ev.ev = "ins" /\ Ins(Ev.p, Ev.face, Ev.cost)
           \/ Ev.ev = "rem" /\ Rem(Ev.p, Ev.face)
           \/ Ev.ev = "clr" /\ Clr(Ev.p)
           \/ Ev.ev = "sets" /\ SetS(Ev.p, Ev.s)
           \/ Ev.ev = "unsets" /\ Ev.p # <<>> /\ UnsetS(Ev.p)
           \* unsetting the root: the model follows what the table did (logged strategy listing); rule I_C05root judges it
           \/ Ev.ev = "unsets" /\ Ev.p = <<>> /\ ev' = [op |-> "unsets", p |-> <<>>]
                /\ FibOp(nh, IF \E x \in 1..Len(Ev.slist) : Ev.slist[x].p = <<>> THEN st ELSE Drop(st, {<<>>}), <<>>)
           \/ Ev.ev = "P" /\ UNCHANGED <<routes, nh, st, tn, named, vmd>> /\ ev' = [op |-> "panic"]
TSpec == TInit /\ [][Step]_tvars
HiWater == TLCSet(7, IF TLCGet(7) < hi THEN hi ELSE TLCGet(7))
Accepted == PrintT(<<"hiwater", TLCGet(7), Len(Trace)>>) /\ TLCGet(7) = Len(Trace)

\* the line just consumed (rules below are state invariants on the post-state)
Last == Trace[hi]
Did(S) == hi >= 1 /\ Last.ev \in S
AsFn(s) == [g \in { s[x][1] : x \in 1..Len(s) } |-> s[CHOOSE x \in 1..Len(s) : s[x][1] = g][2]]
NoDupFaces(s) == Cardinality({ s[x][1] : x \in 1..Len(s) }) = Len(s)
RibOps == {"reg", "unreg", "cleanup"}
FibOps == {"ins", "rem", "clr", "sets", "unsets"}
I_nopanic == ~Did({"P"})

\* C06: every lookup of the universe equals the flattening of the registered routes
I_C06look == Did(RibOps) => \A x \in 1..Len(Last.look) : NoDupFaces(Last.look[x].hops) /\ AsFn(Last.look[x].hops) = RibLookup(Last.look[x].n)
\* the RIB holds exactly the registered routes (a removed route or face leaves nothing behind)
I_C06rib == Did(RibOps) => { [p |-> Last.rib[x].p, face |-> Last.rib[x].face, origin |-> Last.rib[x].origin,
                              cost |-> Last.rib[x].cost, flags |-> Last.rib[x].flags] : x \in 1..Len(Last.rib) } = routes
                           /\ Len(Last.rib) = Cardinality(routes)

\* C05: lookups and listings equal the abstract map, for whichever implementation produced the line
I_C05look == Did(FibOps) => \A x \in 1..Len(Last.look) : /\ NoDupFaces(Last.look[x].hops)
                                                         /\ AsFn(Last.look[x].hops) = FibLookup(Last.look[x].n)
I_C05strat == Did(FibOps) => \A x \in 1..Len(Last.look) : Last.look[x].strat = StratLookup(Last.look[x].n)
I_C05list == Did(FibOps) => /\ { <<Last.list[x].p, AsFn(Last.list[x].hops)>> : x \in 1..Len(Last.list) } = { <<p, nh[p]>> : p \in FibListing }
                            /\ Len(Last.list) = Cardinality(FibListing)
                            /\ \A x \in 1..Len(Last.list) : NoDupFaces(Last.list[x].hops)
I_C05slist == Did(FibOps) => /\ { <<Last.slist[x].p, Last.slist[x].s>> : x \in 1..Len(Last.slist) } = { <<p, st[p]>> : p \in DOMAIN st }
                             /\ Len(Last.slist) = Cardinality(DOMAIN st)

\* the root always has a strategy: it can be replaced but not unset
I_C05root == Did(FibOps) => <<>> \in DOMAIN st

\* C08 (tables): the structures hold nothing beyond what their live entries require
LiveFib == { p \in DOMAIN nh : DOMAIN nh[p] # {} } \cup DOMAIN st
TreeNodes == UNION { Prefixes(p) : p \in LiveFib } \ {<<>>}
I_C08tbl == Did(RibOps \cup FibOps) =>
               /\ Last.shape.ribdead = 0 /\ Last.shape.ribnodes = Cardinality(PruneAll(tn, routes)) - 1
               /\ Last.shape.fibdead = 0 /\ Last.shape.virtdead = 0 /\ Last.shape.virtstale = 0
               /\ Last.shape.fibnodes = (IF algo = "nametree" THEN Cardinality(TreeNodes) ELSE Cardinality(LiveFib \ {<<>>}))
====
