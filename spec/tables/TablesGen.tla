---- MODULE TablesGen ----
(* TLC as generator of operation histories (inputs only, trace-row format) for harness/tables_test.go TestTblSched *)
EXTENDS Tables, Json
CONSTANTS Depth, OutDir, Mode
VARIABLE hist
Pfx == { <<>>, <<"a">>, <<"a","b">>, <<"a","b","c">>, <<"a","b","c","d","e">>, <<"a","d">>, <<"e">> }
Init == /\ routes = {} /\ nh = Empty /\ st = (<<>> :> "best-route") /\ tn = {<<>>} /\ named = {} /\ vmd = Empty
        /\ ev = [op |-> "init"] /\ hist = <<>>
With(r) == \/ r.ev = "reg" /\ Register(r.p, r.face, r.origin, r.cost, r.flags) /\ hist' = Append(hist, r)
           \/ r.ev = "unreg" /\ Unregister(r.p, r.face, r.origin) /\ hist' = Append(hist, r)
           \/ r.ev = "cleanup" /\ Cleanup(r.face) /\ hist' = Append(hist, r)
           \/ r.ev = "ins" /\ Ins(r.p, r.face, r.cost) /\ hist' = Append(hist, r)
           \/ r.ev = "rem" /\ Rem(r.p, r.face) /\ hist' = Append(hist, r)
           \/ r.ev = "clr" /\ Clr(r.p) /\ hist' = Append(hist, r)
           \/ r.ev = "sets" /\ SetS(r.p, r.s) /\ hist' = Append(hist, r)
           \/ r.ev = "unsets" /\ r.p # <<>> /\ UnsetS(r.p) /\ hist' = Append(hist, r)
           \/ r.ev = "unsets" /\ r.p = <<>> /\ Clr(r.p) /\ hist' = Append(hist, [r EXCEPT !.ev = "clr"])
Kinds == IF Mode = "rib" THEN {"reg", "reg", "reg", "reg", "unreg", "unreg", "unreg", "cleanup"}
         ELSE {"ins", "ins", "ins", "rem", "rem", "clr", "sets", "sets", "unsets"}
\* routes that exist are withdrawn more often than random ones (so that removal paths are exercised)
Step == With([ev |-> RandomElement(Kinds), p |-> RandomElement(Pfx), face |-> RandomElement({1, 2, 3}),
              origin |-> RandomElement({0, 128}), cost |-> RandomElement({1, 2, 5}), flags |-> RandomElement(0..3),
              s |-> RandomElement({"best-route", "multicast"})])
Next == Len(hist) < Depth /\ Step
Spec == Init /\ [][Next]_<<vars, hist>>
Dump == Len(hist) = Depth => ndJsonSerialize(OutDir \o "/s" \o ToString(TLCGet("stats").traces) \o ".ndjson", hist)
====
