---- MODULE TablesMC ----
(* Exhaustive (depth-bounded) exploration of operation histories over nested and sibling prefixes.  *)
EXTENDS Tables
CONSTANTS MaxDepth, Mode, Fan   \* Mode: "rib" | "fib" ; Fan: "full" | "reduced"
P0 == <<>>  Pa == <<"a">>  Pab == <<"a","b">>  Pabc == <<"a","b","c">>  Pad == <<"a","d">>  Pe == <<"e">>
RibPfx == { P0, Pa, Pab, Pabc, Pad }          \* includes the gap /a , /a/b/c without /a/b
FibPfx == { P0, Pa, Pab, Pabc, Pad, Pe }
Look == FibPfx \cup { <<"a","b","c","d">>, <<"zzz">>, <<"a","x">> }
Init == /\ routes = {} /\ nh = Empty /\ st = (<<>> :> "best-route") /\ tn = {<<>>} /\ named = {} /\ vmd = Empty
        /\ ev = [op |-> "init"]
Origins == IF Fan = "full" THEN {0, 128} ELSE {0}
RibNext == \/ \E p \in RibPfx, g \in {1, 2}, o \in Origins, c \in {1, 5}, fl \in 0..3 : Register(p, g, o, c, fl)
           \/ \E p \in RibPfx, g \in {1, 2}, o \in Origins : Unregister(p, g, o)
           \/ \E g \in {1, 2} : Cleanup(g)
FibNext == \/ \E p \in FibPfx, g \in {1, 2}, c \in {1, 5} : Ins(p, g, c)
           \/ \E p \in FibPfx, g \in {1, 2} : Rem(p, g)
           \/ \E p \in FibPfx : Clr(p)
           \/ \E p \in FibPfx, s \in {"best-route", "multicast"} : SetS(p, s)
           \/ \E p \in FibPfx : UnsetS(p)
Next == IF Mode = "rib" THEN RibNext ELSE FibNext
Spec == Init /\ [][Next]_vars
Constr == TLCGet("level") <= MaxDepth
View == <<routes, nh, st, tn, named, vmd>>
I_C06 == Mode = "rib" => (C06On(Look) /\ C06NoStale /\ RibTight)
I_C05 == Mode = "fib" => (C05On(Look) /\ RootHasStrategy /\ VirtTight /\ VirtComplete)
====
