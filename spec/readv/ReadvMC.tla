---- MODULE ReadvMC ----
EXTENDS Readvertise
CONSTANT MaxDepth
MNext == \/ \E n \in Names, f \in FaceIds, o \in Origins : Register(n, f, o, ImplRegister(n, f, o))
         \/ \E n \in Names, f \in FaceIds, o \in Origins : Unregister(n, f, o, ImplUnregister(n, f, o))
         \/ \E f \in FaceIds : FaceDown(f, ImplFaceDown(f))
MSpec == Init /\ [][MNext]_vars
MView == <<routes, cnt, ann>>
MConstr == TLCGet("level") <= MaxDepth
====
