---- MODULE ReadvTrace ----
(* recorded executions of harness/readv_test.go: the real table.Rib with the real NlsrReadvertiser of a running management *)
(* thread, its command Interests forwarded by a real forwarding thread to a local face, handed by the harness to the real *)
(* readvertise handler of a dv.Router; each row: the RIB operation, the commands the daemon answered with 200, and what     *)
(* RIB, readvertiser-side daemon table hold afterwards                                                                    *)
EXTENDS Readvertise, Json
CONSTANT TraceFile
VARIABLES l, hi
Trace == ndJsonDeserialize(TraceFile)
tvars == <<vars, l, hi>>
Ev == Trace[l]
TInit == Init /\ l = 1 /\ hi = 0 /\ TLCSet(7, 0)
Cmds == [k \in 1..Len(Ev.cmds) |-> [verb |-> Ev.cmds[k].verb, name |-> Ev.cmds[k].name]]
Step ==
  /\ l <= Len(Trace) /\ l' = l + 1 /\ hi' = l
  /\ \/ Ev.ev = "Reset" /\ routes' = {} /\ cnt' = [n \in Names |-> 0] /\ ann' = {} /\ ev' = [kind |-> "R", cmds |-> <<>>]
     \/ Ev.ev = "register" /\ Register(Ev.name, Ev.face, Ev.origin, Cmds)
     \/ Ev.ev = "unregister" /\ Unregister(Ev.name, Ev.face, Ev.origin, Cmds)
     \/ Ev.ev = "facedown" /\ FaceDown(Ev.face, Cmds)
TSpec == TInit /\ [][Step]_tvars
HiWater == TLCSet(7, IF TLCGet(7) < hi THEN hi ELSE TLCGet(7))
Accepted == PrintT(<<"hiwater", TLCGet(7), Len(Trace)>>) /\ TLCGet(7) = Len(Trace)
Live == hi > 0 /\ Trace[hi].ev # "Reset"
Last == Trace[hi]
\* after every operation the daemon announces exactly the names that hold a client route ...
I_C19r_ann == Live => (AnnIsClientRoutes /\ { Last.dvann[k] : k \in 1..Len(Last.dvann) } = ann /\ Len(Last.dvann) = Cardinality(ann))
\* ... the RIB holds what the module holds ...
I_C19r_rib == Live => { [name |-> Last.rib[k].name, face |-> Last.rib[k].face, origin |-> Last.rib[k].origin] : k \in 1..Len(Last.rib) } = routes
\* ... and every command was answered with success
I_C19r_ok == Live => \A k \in 1..Len(Last.cmds) : Last.cmds[k].status = 200
====
