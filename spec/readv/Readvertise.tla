----------------------------- MODULE Readvertise -----------------------------
(***************************************************************************)
(* From a route registered in the forwarder to a prefix announced by the   *)
(* routing daemon (fw/table/rib.go AddEncRoute / RemoveRouteEnc /          *)
(* CleanUpFace -> fw/table/rib_readvertise.go -> fw/mgmt/                  *)
(* nlsr_readvertiser.go -> /localhost/nlsr/rib/(un)register Interest ->    *)
(* dv/dv/readvertise.go -> dv/table/prefix_table.go Announce / Withdraw).  *)
(* Routes of origin "client" are readvertised; the readvertiser counts the *)
(* client routes per name, echoes every new one as a register command and  *)
(* sends unregister when the count drops to zero; the daemon keeps the set *)
(* of announced names (which C19's prefix log then replicates).            *)
(* One action per RIB operation; the commands that reached the daemon are  *)
(* the observable.                                                         *)
(***************************************************************************)
EXTENDS Integers, Sequences, FiniteSets, TLC
CONSTANTS Names, FaceIds, Origins, Client, Dev
VARIABLES routes,  \* set of [name, face, origin]
          cnt,     \* readvertiser: name -> number of client routes echoed and not withdrawn
          ann,     \* daemon: names announced
          ev
vars == <<routes, cnt, ann, ev>>
Init == routes = {} /\ cnt = [n \in Names |-> 0] /\ ann = {} /\ ev = [kind |-> "0", cmds |-> <<>>]

\* what the statement asks for: exactly the names that hold a client route are announced
Target == { r.name : r \in { x \in routes : x.origin = Client } }
ClientCount(n) == Cardinality({ r \in routes : r.name = n /\ r.origin = Client })

ApplyCmds(a, cmds) ==
  LET RECURSIVE F(_, _)
      F(s, k) == IF k > Len(cmds) THEN s
                 ELSE F(IF cmds[k].verb = "register" THEN s \cup {cmds[k].name} ELSE s \ {cmds[k].name}, k + 1)
  IN F(a, 1)

\* cmds: the commands the daemon received because of this operation, in order (observable)
Register(n, f, o, cmds) ==
  LET r == [name |-> n, face |-> f, origin |-> o]
      new == r \notin routes
  IN /\ routes' = routes \cup {r}
     /\ cnt' = IF new /\ o = Client THEN [cnt EXCEPT ![n] = @ + 1] ELSE cnt
     /\ ann' = ApplyCmds(ann, cmds)
     /\ ev' = [kind |-> "register", cmds |-> cmds]
Unregister(n, f, o, cmds) ==
  LET r == [name |-> n, face |-> f, origin |-> o]
      had == r \in routes
  IN /\ routes' = routes \ {r}
     /\ cnt' = IF had /\ o = Client THEN [cnt EXCEPT ![n] = @ - 1] ELSE cnt
     /\ ann' = ApplyCmds(ann, cmds)
     /\ ev' = [kind |-> "unregister", cmds |-> cmds]
FaceDown(f, cmds) ==
  LET gone == { r \in routes : r.face = f }
  IN /\ routes' = routes \ gone
     /\ cnt' = [n \in Names |-> cnt[n] - Cardinality({ r \in gone : r.name = n /\ r.origin = Client })]
     /\ ann' = ApplyCmds(ann, cmds)
     /\ ev' = [kind |-> "facedown", cmds |-> cmds]

\* the commands as coded (witness): a register for every NEW client route, an unregister when the count reaches zero
ImplRegister(n, f, o) == IF [name |-> n, face |-> f, origin |-> o] \notin routes /\ o = Client THEN <<[verb |-> "register", name |-> n]>> ELSE <<>>
ImplUnregister(n, f, o) ==
  IF [name |-> n, face |-> f, origin |-> o] \in routes /\ o = Client /\ (cnt[n] = 1 \/ "WithdrawAlways" \in Dev)
  THEN <<[verb |-> "unregister", name |-> n]>> ELSE <<>>
ImplFaceDown(f) ==
  LET RECURSIVE G(_, _)
      G(S, c) == IF S = {} THEN <<>>
                 ELSE LET r == CHOOSE x \in S : TRUE
                          left == c[r.name] - 1
                      IN (IF r.origin = Client /\ (left = 0 \/ "WithdrawAlways" \in Dev) THEN <<[verb |-> "unregister", name |-> r.name]>> ELSE <<>>)
                         \o G(S \ {r}, IF r.origin = Client THEN [c EXCEPT ![r.name] = left] ELSE c)
  IN G({ r \in routes : r.face = f }, cnt)

\* ---- properties ------------------------------------------------------------------------------------------
AnnIsClientRoutes == ann = Target
CountIsClientRoutes == \A n \in Names : cnt[n] = ClientCount(n)
=========================================================================
