---- MODULE ObjTrace ----
EXTENDS ObjectFetch, Json
CONSTANT TraceFile
VARIABLES l, hi
Trace == ndJsonDeserialize(TraceFile)
tvars == <<vars, l, hi>>
Ev == Trace[l]
TInit == pubs = Empty /\ store = Empty /\ tx = NoTx /\ ev = [ev |-> "0"] /\ FInit /\ l = 1 /\ hi = 0 /\ TLCSet(7, 0)
Step ==
  /\ l <= Len(Trace) /\ l' = l + 1 /\ hi' = l /\ ev' = Ev /\ UNCHANGED fvars
  /\ \/ Ev.ev = "Reset" /\ pubs' = Empty /\ store' = Empty /\ tx' = NoTx
     \/ Ev.ev = "produce" /\ Produce(Ev.n, Ev.ver, Ev.hash, Ev.len) /\ UNCHANGED <<store, tx>>
     \/ Ev.ev = "remove" /\ "prefix" \notin DOMAIN Ev /\ RemoveObj(Ev.n) /\ UNCHANGED <<store, tx>>
     \/ Ev.ev = "consume" /\ UNCHANGED <<pubs, store, tx>>
     \/ Ev.ev = "put" /\ StorePut(Ev.n, Ev.ver, Ev.id) /\ UNCHANGED pubs
     \/ Ev.ev = "get" /\ UNCHANGED <<pubs, store, tx>>
     \/ Ev.ev = "remove" /\ "prefix" \in DOMAIN Ev /\ StoreRemove(Ev.n, Ev.prefix) /\ UNCHANGED pubs
     \/ Ev.ev = "begin" /\ StoreBegin /\ UNCHANGED pubs
     \/ Ev.ev = "commit" /\ StoreCommit /\ UNCHANGED pubs
     \/ Ev.ev = "rollback" /\ StoreRollback /\ UNCHANGED pubs
     \/ Ev.ev = "P" /\ UNCHANGED <<pubs, store, tx>>
TSpec == TInit /\ [][Step]_tvars
HiWater == TLCSet(7, IF TLCGet(7) < hi THEN hi ELSE TLCGet(7))
Accepted == PrintT(<<"hiwater", TLCGet(7), Len(Trace)>>) /\ TLCGet(7) = Len(Trace)
\* rules are evaluated in the state the call was made in (unprimed) for the line being consumed
P_C15consume == [][(l <= Len(Trace) /\ Ev.ev = "consume") => ConsumeOK(Ev)]_tvars
P_C15get == [][(l <= Len(Trace) /\ Ev.ev = "get") => Ev.got \in GetAllowed(Ev.n, Ev.prefix)]_tvars
T_nopanic == [][~(l <= Len(Trace) /\ Ev.ev = "P")]_tvars
====
