---------------------------- MODULE FetchSched ----------------------------
(***************************************************************************)
(* The round-robin scan of the object client's segment fetcher            *)
(* (std/object/client_consume_seg.go, rrSegFetcher.doCheck / next /        *)
(* remove): several fetches ("streams") share one window; each scan looks  *)
(* for a stream it can send the next segment Interest for, lazily removing *)
(* streams that are complete, and must notice when it has gone full circle.*)
(* One action per loop iteration, so that non-termination of the scan is a *)
(* behaviour TLC can exhibit.  The environment (a stream is added, fails,  *)
(* receives its first segment, completes) only moves between scans: all of *)
(* it runs on the client's one goroutine.                                  *)
(*   Dev "StaleMarker": the shipped code kept the full-circle marker on a  *)
(*   stream it had just removed.                                           *)
(***************************************************************************)
EXTENDS Integers, Sequences, FiniteSets, TLC
CONSTANTS Streams, Dev,
          Segs,     \* segments per object after the first one
          Window    \* at most this many Interests outstanding over all streams
VARIABLES list,     \* sequence of streams known to the fetcher
          rr,       \* round-robin index (0-based, as in the code)
          st,       \* stream -> "new" (no Interest out yet) | "wait" (first segment requested, count unknown) | "ready" | "allout" | "complete" | "gone"
          todo,     \* stream -> segments not requested yet (known once the first segment has arrived)
          out,      \* stream -> Interests outstanding (also of streams that have failed: their replies come late)
          scanning, first, iters
vars == <<list, rr, st, todo, out, scanning, first, iters>>
None == "none"
Sum(f) == LET RECURSIVE S(_) S(D) == IF D = {} THEN 0 ELSE LET x == CHOOSE y \in D : TRUE IN f[x] + S(D \ {x}) IN S(DOMAIN f)
Outstanding == Sum(out)
Init == /\ list = <<>> /\ rr = 0 /\ st = [s \in Streams |-> "gone"] /\ todo = [s \in Streams |-> 0] /\ out = [s \in Streams |-> 0]
        /\ scanning = FALSE /\ first = None /\ iters = 0
RemoveAt(q, i) == SubSeq(q, 1, i - 1) \o SubSeq(q, i + 1, Len(q))
\* ---- environment, between scans (everything runs on the client's one goroutine) ------------------------
Add(s) == /\ ~scanning /\ st[s] = "gone" /\ out[s] = 0 /\ list' = Append(list, s) /\ st' = [st EXCEPT ![s] = "new"]
          /\ UNCHANGED <<rr, todo, out, scanning, first, iters>>
\* a reply (Data, or the final timeout) for one outstanding Interest of s
Arrive(s) == /\ ~scanning /\ out[s] > 0 /\ out' = [out EXCEPT ![s] = @ - 1]
             /\ IF st[s] = "wait" THEN st' = [st EXCEPT ![s] = IF Segs = 0 THEN "complete" ELSE "ready"] /\ todo' = [todo EXCEPT ![s] = Segs] /\ UNCHANGED list
                ELSE IF st[s] = "allout" /\ out[s] = 1
                THEN st' = [st EXCEPT ![s] = "gone"] /\ list' = SelectSeq(list, LAMBDA x : x # s) /\ UNCHANGED todo      \* completed: removed at once
                ELSE UNCHANGED <<st, todo, list>>
             /\ UNCHANGED <<rr, scanning, first, iters>>
\* a fetch fails (finalizeError): complete, but still in the list -- removed lazily by the next scan
Fail(s) == /\ ~scanning /\ st[s] \in {"wait", "ready", "allout"} /\ out[s] > 0 /\ out' = [out EXCEPT ![s] = @ - 1]
           /\ st' = [st EXCEPT ![s] = "complete"] /\ UNCHANGED <<list, rr, todo, scanning, first, iters>>
\* queueCheck -> doCheck; returns at once when the window is full
StartScan == /\ ~scanning /\ Outstanding < Window /\ scanning' = TRUE /\ first' = None /\ iters' = 0 /\ UNCHANGED <<list, rr, st, todo, out>>
\* ---- one iteration of the for loop in doCheck -----------------------------------------------------------
ScanStep ==
  /\ scanning
  /\ IF Len(list) = 0 THEN scanning' = FALSE /\ UNCHANGED <<list, rr, st, todo, out, first, iters>>
     ELSE LET r == (rr + 1) % Len(list)          \* next()
              s == list[r + 1]
          IN IF first # None /\ s = first THEN scanning' = FALSE /\ rr' = r /\ UNCHANGED <<list, st, todo, out, first, iters>>    \* full circle
             ELSE LET f1 == IF first = None THEN s ELSE first IN
               IF st[s] = "complete"
               THEN /\ list' = RemoveAt(list, r + 1) /\ st' = [st EXCEPT ![s] = "gone"] /\ rr' = r
                    /\ first' = IF f1 = s /\ "StaleMarker" \notin Dev THEN None ELSE f1
                    /\ iters' = iters + 1 /\ UNCHANGED <<scanning, todo, out>>
               ELSE IF st[s] \in {"wait", "allout"}
               THEN rr' = r /\ first' = f1 /\ iters' = iters + 1 /\ UNCHANGED <<list, st, todo, out, scanning>>                 \* continue
               ELSE \* found a stream to work on: one more Interest goes out, then the deferred doCheck scans again
                    /\ rr' = r /\ out' = [out EXCEPT ![s] = @ + 1]
                    /\ st' = [st EXCEPT ![s] = IF st[s] = "new" THEN "wait" ELSE IF todo[s] = 1 THEN "allout" ELSE "ready"]
                    /\ todo' = [todo EXCEPT ![s] = IF st[s] = "new" THEN 0 ELSE @ - 1]
                    /\ first' = None /\ iters' = 0 /\ UNCHANGED list
                    /\ scanning' = (Outstanding + 1 < Window)
Next == (\E s \in Streams : Add(s) \/ Arrive(s) \/ Fail(s)) \/ StartScan \/ ScanStep
Spec == Init /\ [][Next]_vars /\ WF_vars(ScanStep)
\* ---- properties ---------------------------------------------------------------------------------------
\* between two Interests sent, a scan visits each stream at most once more than needed to come back to its marker
ScanBounded == iters <= 2 * Cardinality(Streams) + 2
ScanTerminates == scanning ~> ~scanning
WindowRespected == Outstanding <= Window
ListConsistent == /\ \A i, j \in 1..Len(list) : i # j => list[i] # list[j]
                  /\ \A s \in Streams : (st[s] = "gone") <=> (\A i \in 1..Len(list) : list[i] # s)
=============================================================================
