---- MODULE FetchSchedMC ----
EXTENDS FetchSched
====
