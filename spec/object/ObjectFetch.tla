----------------------------- MODULE ObjectFetch -----------------------------
(***************************************************************************)
(* Versioned, segmented objects (std/object): a producer publishes         *)
(* versions of an object as segments + a metadata packet into a store; a   *)
(* consumer asks for the object name, learns the newest version from the   *)
(* metadata, then fetches the segments through a window of outstanding     *)
(* Interests with a retry budget; segments may arrive in any order.        *)
(*  - abstract part (used on recorded executions): what was published,     *)
(*    what a consume run must report (ConsumeOK), what a store must answer *)
(*    (StoreGet);                                                          *)
(*  - implementation-shaped part (model-checked): the segment fetcher of   *)
(*    client_consume_seg.go with its window (requested / contiguous        *)
(*    marks), per-Interest retries, loss and reordering.                   *)
(***************************************************************************)
EXTENDS Integers, Sequences, FiniteSets, TLC
CONSTANTS NSeg,      \* number of segments of the object being fetched (model checking)
          Window,    \* at most this many outstanding segment Interests
          Retries,   \* retransmissions per Interest
          MaxLoss    \* total number of packets the network may lose (within the retry budget)
VARIABLES pubs,      \* object name -> (version -> [hash, len])          (abstract)
          store,     \* packet name -> [ver, id]                          (abstract store content)
          tx,        \* write transaction: [open, m] with m: packet name -> [ver, id]
          req, got, contig, segCnt, out, done, completions, failed, delivered, lost, inflight,   \* fetcher
          ev
fvars == <<req, got, contig, segCnt, out, done, completions, failed, delivered, lost, inflight>>
vars == <<pubs, store, tx, fvars, ev>>
Empty == [x \in {} |-> 0]
Ext(fn, k, v) == [x \in DOMAIN fn \cup {k} |-> IF x = k THEN v ELSE fn[x]]
Drop(fn, K)   == [x \in DOMAIN fn \ K |-> fn[x]]
MaxS(S) == CHOOSE x \in S : \A y \in S : y <= x
IsPrefix(p, n) == Len(p) <= Len(n) /\ \A i \in 1..Len(p) : p[i] = n[i]

(* ---------------- abstract: publications and what a consumer must get ------- *)
Produce(n, ver, h, len) == pubs' = Ext(pubs, n, Ext(IF n \in DOMAIN pubs THEN pubs[n] ELSE Empty, ver, [hash |-> h, len |-> len]))
RemoveObj(n) == pubs' = Drop(pubs, {n})
\* one consume run: exactly one completion; the newest version, byte for byte; an error iff nothing is published
\* (e.lossy: the network lost a segment beyond the retry budget -- the one completion must then be an error)
ConsumeOK(e) ==
  /\ e.completions = 1
  /\ e.chunksInOrder
  /\ IF e.lossy THEN e.err # "" ELSE
     IF e.n \in DOMAIN pubs /\ DOMAIN pubs[e.n] # {}
     THEN LET newest == pubs[e.n][MaxS(DOMAIN pubs[e.n])]
          IN e.err = "" /\ e.hash = newest.hash /\ e.len = newest.len
     ELSE e.err # ""

(* ---------------- abstract store (both implementations must answer like this) -- *)
\* Get(name, exact): the packet stored under exactly that name; Get(name, prefix): a packet of the highest version
\* among those stored under names the given name is a prefix of (an exact match wins when present)
Visible == store
UnderPrefix(n) == { k \in DOMAIN Visible : IsPrefix(n, k) }
\* (a name that is itself stored AND a prefix of other stored names does not occur with the object client: the packet
\* stored under the name itself and the newest packet below it are both acceptable answers)
Newest(n) == LET mv == MaxS({ Visible[k].ver : k \in UnderPrefix(n) }) IN { Visible[k].id : k \in { x \in UnderPrefix(n) : Visible[x].ver = mv } }
GetAllowed(n, prefix) ==
  IF ~prefix THEN (IF n \in DOMAIN Visible THEN { Visible[n].id } ELSE { -1 })
  ELSE IF UnderPrefix(n) = {} THEN { -1 }
  ELSE Newest(n) \cup (IF n \in DOMAIN Visible THEN { Visible[n].id } ELSE {})
NoTx == [open |-> FALSE, m |-> Empty]
StorePut(n, ver, id) == IF ~tx.open THEN store' = Ext(store, n, [ver |-> ver, id |-> id]) /\ UNCHANGED tx
                        ELSE tx' = [open |-> TRUE, m |-> Ext(tx.m, n, [ver |-> ver, id |-> id])] /\ UNCHANGED store
StoreRemove(n, prefix) == store' = Drop(store, IF prefix THEN UnderPrefix(n) ELSE {n}) /\ UNCHANGED tx
StoreBegin == tx' = [open |-> TRUE, m |-> Empty] /\ UNCHANGED store
StoreCommit == store' = [k \in DOMAIN store \cup DOMAIN tx.m |-> IF k \in DOMAIN tx.m THEN tx.m[k] ELSE store[k]] /\ tx' = NoTx
StoreRollback == tx' = NoTx /\ UNCHANGED store

(* ---------------- implementation-shaped segment fetcher ------------------------ *)
\* inflight: set of [kind ("I"/"D"), seg]; out: seg -> retries left
FInit == /\ req = 0 /\ got = {} /\ contig = 0 /\ segCnt = -1 /\ out = Empty /\ done = FALSE /\ completions = 0 /\ failed = FALSE
         /\ delivered = <<>> /\ lost = 0 /\ inflight = {}
\* doCheck: request the next segment (only segment 0 until the segment count is known)
Request ==
  /\ ~done /\ Cardinality(DOMAIN out) < Window
  /\ (segCnt = -1 => req = 0) /\ (segCnt > 0 => req < segCnt)
  /\ out' = Ext(out, req, Retries) /\ inflight' = inflight \cup {[kind |-> "I", seg |-> req]} /\ req' = req + 1
  /\ UNCHANGED <<got, contig, segCnt, done, completions, failed, delivered, lost>>
\* the producer answers an Interest that reaches it
Serve(p) == /\ p \in inflight /\ p.kind = "I"
            /\ inflight' = (inflight \ {p}) \cup {[kind |-> "D", seg |-> p.seg]}
            /\ UNCHANGED <<req, got, contig, segCnt, out, done, completions, failed, delivered, lost>>
Lose(p) == /\ p \in inflight /\ lost < MaxLoss /\ inflight' = inflight \ {p} /\ lost' = lost + 1
           /\ UNCHANGED <<req, got, contig, segCnt, out, done, completions, failed, delivered>>
\* ExpressR: the Interest for seg timed out (nothing of it is in flight any more)
Timeout(s) ==
  /\ s \in DOMAIN out /\ ~\E p \in inflight : p.seg = s
  /\ IF out[s] > 0
     THEN /\ out' = [out EXCEPT ![s] = @ - 1] /\ inflight' = inflight \cup {[kind |-> "I", seg |-> s]}
          /\ UNCHANGED <<done, completions, failed>>
     ELSE /\ out' = Drop(out, {s}) /\ UNCHANGED inflight
          /\ IF done THEN UNCHANGED <<done, completions, failed>>
             ELSE done' = TRUE /\ completions' = completions + 1 /\ failed' = TRUE        \* finalizeError
  /\ UNCHANGED <<req, got, contig, segCnt, delivered, lost>>
\* handleData
RecvSeg(p) ==
  /\ p \in inflight /\ p.kind = "D" /\ p.seg \in DOMAIN out
  /\ inflight' = inflight \ {p} /\ out' = Drop(out, {p.seg})
  /\ IF done THEN UNCHANGED <<got, contig, segCnt, done, completions, failed, delivered>>
     ELSE LET g2 == got \cup {p.seg}
              c2 == IF contig = p.seg THEN MaxS({ k \in contig..NSeg : \A j \in contig..(k-1) : j \in g2 }) ELSE contig
          IN /\ got' = g2 /\ segCnt' = NSeg /\ contig' = c2
             /\ delivered' = IF c2 > contig THEN delivered \o [i \in 1..(c2 - contig) |-> contig + i - 1] ELSE delivered
             /\ IF c2 = NSeg /\ contig < NSeg THEN done' = TRUE /\ completions' = completions + 1 ELSE UNCHANGED <<done, completions>>
             /\ UNCHANGED failed
  /\ UNCHANGED <<req, lost>>
FNext == \/ Request \/ \E p \in inflight : Serve(p) \/ Lose(p) \/ RecvSeg(p) \/ \E s \in DOMAIN out : Timeout(s)
AtMostOnce == completions <= 1
CompleteMeansAll == (done /\ ~failed) => (contig = NSeg /\ got = 0..(NSeg - 1))
InOrderNoDup == delivered = [i \in 1..Len(delivered) |-> i - 1]
WindowRespected == Cardinality(DOMAIN out) <= Window
\* with at most MaxLoss <= Retries losses no Interest exhausts its budget
NeverFailsWithinBudget == MaxLoss <= Retries => ~failed
EventuallyDone == <>done
=============================================================================
