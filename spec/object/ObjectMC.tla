---- MODULE ObjectMC ----
EXTENDS ObjectFetch
Init == pubs = Empty /\ store = Empty /\ tx = NoTx /\ ev = 0 /\ FInit
Next == FNext /\ UNCHANGED <<pubs, store, tx, ev>>
Spec == Init /\ [][Next]_vars
FairSpec == Spec /\ WF_fvars(Request) /\ \A s \in 0..(NSeg - 1) : WF_fvars(Timeout(s))
                 /\ \A k \in {"I", "D"}, g \in 0..(NSeg - 1) : WF_fvars(Serve([kind |-> k, seg |-> g])) /\ WF_fvars(RecvSeg([kind |-> k, seg |-> g]))
====
