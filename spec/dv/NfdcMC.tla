---- MODULE NfdcMC ----
(* every interleaving of issuing up to MaxCmds commands on two routes with a worker whose attempts may fail (at most MaxFail failures) *)
EXTENDS NfdcQueue
CONSTANTS MaxCmds, MaxFail
VARIABLE fails
Keys == {"k1", "k2"}
MInit == Init /\ fails = 0
MIssue == /\ Len(issued) < MaxCmds
          /\ \E verb \in {"register", "unregister"}, key \in Keys, cost \in {1, 2}, retries \in {3, -1} : Issue(verb, key, cost, retries)
          /\ UNCHANGED fails
MWork == /\ (cur # NoCur \/ queue # <<>>)
         /\ LET id == IF cur # NoCur THEN cur.id ELSE Head(queue) IN
              \/ Attempt(id, TRUE) /\ UNCHANGED fails
              \/ fails < MaxFail /\ Attempt(id, FALSE) /\ fails' = fails + 1
MNext == MIssue \/ MWork
MSpec == MInit /\ [][MNext]_<<vars, fails>>
MView == <<issued, queue, cur, fwd, done, gaveup, fails>>
====
