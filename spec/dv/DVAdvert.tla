----------------------------- MODULE DVAdvert -----------------------------
(***************************************************************************)
(* The advertisement exchange of the distance-vector daemon between a      *)
(* publisher P and a receiver R (dv/dv/advert_sync.go, advert_data.go,     *)
(* table_algo.go ribUpdate / checkDeadNeighbors, dv/table/                 *)
(* neighbor_table.go).  DV.tla hands advertisements over atomically; this  *)
(* module is about how they actually travel:                               *)
(*   P announces sequence numbers in Sync Interests (SyncSend),            *)
(*   R learns a newer one (RSync) and fetches the advertisement of that    *)
(*   number after a debounce (RFetch); P answers any fetch with its LATEST *)
(*   advertisement (PReply); R accepts Data only for the sequence number   *)
(*   it currently knows (RData) and hands the neighbour OBJECT to a queued *)
(*   ribUpdate (RRib); the dead-neighbour check (RDead) removes a silent   *)
(*   neighbour and clears its object, so that a ribUpdate queued before    *)
(*   the removal does nothing.                                             *)
(* One action per critical section (each takes the router mutex in the     *)
(* code).  The network may reorder, duplicate and lose everything.         *)
(* Content versions are numbered in publication order (1, 2, ...).         *)
(***************************************************************************)
EXTENDS Integers, Sequences, FiniteSets, TLC
CONSTANTS DeadInt,   \* ticks of silence after which a neighbour is dead
          Life,      \* lifetime of a fetch Interest (ticks)
          Fresh,     \* freshness of an advertisement Data: the network does not hand out older copies (fetches are MustBeFresh)
          Dev        \* {} as coded; "AcceptOlder": Data of an older sequence number is accepted;
                     \* "KeepAdvertOnRemove": removal does not clear the neighbour object's advertisement
VARIABLES now,
          pseq, pcont,          \* P: sequence number announced, content version
          syncs, fetches, datas, \* network: everything ever sent (sets; delivery is any time, any number of times)
          cur,                  \* R: generation of the neighbour object for P (0: P is not a neighbour)
          gens,                 \* number of neighbour objects ever created
          aseq,                 \* R: AdvertSeq of the current object
          objadv,               \* generation -> content version held in that object's Advert (0: nil)
          parked,               \* bag of queued ribUpdate calls: generation -> count
          applied,              \* content version R's routing table holds for destinations via P (0: none)
          seen,                 \* tick of the latest Sync Interest heard from P
          pend,                 \* R's engine: sequence number -> expiry of the outstanding fetch Interest (Data is accepted by the engine
                                \* only for a pending Interest, and resolves every pending Interest of that name at once)
          fq,                   \* debounced fetches scheduled by RSync and not yet fired (sequence numbers)
          nface, nactive,       \* R: face the neighbour is reached over (0: none) and whether that face is an active (outgoing) one
          nroutes,              \* forwarder: faces on which the neighbour's routes (its advertisement prefix, the sync prefixes) are registered
          ev
vars == <<now, pseq, pcont, syncs, fetches, datas, cur, gens, aseq, objadv, parked, applied, seen, pend, fq, nface, nactive, nroutes, ev>>

Init == /\ now = 0 /\ pseq = 0 /\ pcont = 0 /\ syncs = {} /\ fetches = {} /\ datas = {}
        /\ cur = 0 /\ gens = 0 /\ aseq = 0 /\ objadv = <<>> /\ parked = <<>> /\ applied = 0 /\ seen = 0 /\ pend = <<>> /\ fq = {} /\ nface = 0 /\ nactive = FALSE /\ nroutes = {}
        /\ ev = [kind |-> "0"]

(* ---- publisher ------------------------------------------------------------- *)
\* P's table changed: new content, next sequence number, a Sync Interest announcing it (advertSyncNotifyNew)
PChange == /\ pcont' = pcont + 1 /\ pseq' = pseq + 1 /\ syncs' = syncs \cup {pseq + 1}
           /\ ev' = [kind |-> "pchange"]
           /\ UNCHANGED <<now, fetches, datas, cur, gens, aseq, objadv, parked, applied, seen, pend, fq, nface, nactive, nroutes>>
\* heartbeat: the current number is announced again
PBeat == /\ pseq > 0 /\ syncs' = syncs \cup {pseq} /\ ev' = [kind |-> "pbeat"]
         /\ UNCHANGED <<now, pseq, pcont, fetches, datas, cur, gens, aseq, objadv, parked, applied, seen, pend, fq, nface, nactive, nroutes>>
\* P answers a fetch for ANY sequence number with its latest advertisement (advertDataOnInterest)
PReply(s) == /\ s \in fetches /\ datas' = datas \cup {[seq |-> s, c |-> pcont, t |-> now]} /\ ev' = [kind |-> "preply", s |-> s]
             /\ UNCHANGED <<now, pseq, pcont, syncs, fetches, cur, gens, aseq, objadv, parked, applied, seen, pend, fq, nface, nactive, nroutes>>

(* ---- receiver -------------------------------------------------------------- *)
\* a Sync Interest with sequence number s arrives (advertSyncOnInterest): the neighbour is created if unknown; a newer
\* number is recorded and a fetch of it is scheduled (the observable `fetch`: a debounced advertDataFetch was spawned)
\* the Sync Interest came in on `face`, under the active or the passive sync prefix (RecvPing, dv/table/neighbor_table.go): a
\* ping on another face moves the neighbour's routes there, unless it is a passive ping while an active face is known
Moves(face, active) == face # nface /\ ~(cur # 0 /\ nactive /\ ~active)
RSync(s, face, active) ==
  /\ seen' = now
  /\ IF cur = 0 THEN /\ gens' = gens + 1 /\ cur' = gens + 1 /\ aseq' = s
                     /\ objadv' = objadv @@ ((gens + 1) :> 0) /\ parked' = parked @@ ((gens + 1) :> 0)
     ELSE IF aseq >= s THEN UNCHANGED <<gens, cur, aseq, objadv, parked>>
     ELSE aseq' = s /\ UNCHANGED <<gens, cur, objadv, parked>>
  /\ IF Moves(face, active) THEN nface' = face /\ nactive' = active /\ nroutes' = {face}
     ELSE UNCHANGED <<nface, nactive, nroutes>>
  /\ fq' = IF cur = 0 \/ aseq < s THEN fq \cup {s} ELSE fq
  /\ ev' = [kind |-> "rsync", s |-> s, fetch |-> (cur = 0 \/ aseq < s)]
  /\ UNCHANGED <<now, pseq, pcont, syncs, fetches, datas, applied, pend>>
\* one more fetch Interest for s is outstanding (several may be: the retry loop of an earlier neighbour object goes on)
AddPend(s) == [x \in DOMAIN pend \cup {s} |-> IF x = s THEN [exp |-> now + Life, cnt |-> (IF s \in DOMAIN pend THEN pend[s].cnt ELSE 0) + 1] ELSE pend[x]]
\* the debounced fetch of number s fires: an Interest leaves only if s is still the number known (advertDataFetch)
RFetch(s) == /\ s \in fq /\ fq' = fq \ {s}
             /\ fetches' = (IF cur # 0 /\ aseq = s THEN fetches \cup {s} ELSE fetches)
             /\ pend' = (IF cur # 0 /\ aseq = s THEN AddPend(s) ELSE pend)
             /\ ev' = [kind |-> "rfetch", s |-> s, sent |-> (cur # 0 /\ aseq = s)]
             /\ UNCHANGED <<now, pseq, pcont, syncs, datas, cur, gens, aseq, objadv, parked, applied, seen, nface, nactive, nroutes>>
\* Data for number s with content c reaches the handler (advertDataHandler)
Accepts(s) == cur # 0 /\ (IF "AcceptOlder" \in Dev THEN aseq >= s ELSE aseq = s)
\* (t: when P produced it; the engine hands it to the handler only for a pending Interest, the network only while fresh)
Solicited(s, t) == s \in DOMAIN pend /\ now <= pend[s].exp /\ now - t <= Fresh
\* n: how many times the handler accepted it (observable) -- once per outstanding fetch Interest of that name, all of
\* which the Data resolves at once; the witness of the model is all of them if Accepts, none otherwise
RDataO(s, c, n, gone) ==
  /\ pend' = IF n > 0 \/ gone THEN [x \in DOMAIN pend \ {s} |-> pend[x]] ELSE pend
  /\ IF n > 0 /\ cur # 0 THEN /\ objadv' = [objadv EXCEPT ![cur] = c] /\ parked' = [parked EXCEPT ![cur] = @ + n]
     ELSE UNCHANGED <<objadv, parked>>
  /\ ev' = [kind |-> "rdata", s |-> s, c |-> c, n |-> n]
  /\ UNCHANGED <<now, pseq, pcont, syncs, fetches, datas, cur, gens, aseq, applied, seen, fq, nface, nactive, nroutes>>
RData(s, c, t) == IF Solicited(s, t) /\ Accepts(s) THEN RDataO(s, c, pend[s].cnt, TRUE)
                  ELSE RDataO(s, c, 0, Solicited(s, t))      \* resolved by the engine, refused by the handler
\* what an observed acceptance must satisfy
RD_ok(s, n) == n > 0 => (cur # 0 /\ s \in DOMAIN pend /\ n <= pend[s].cnt /\ Accepts(s))
\* a queued ribUpdate of object g runs: it installs what the object holds, nothing if the object was cleared
RRib(g) ==
  /\ g \in DOMAIN parked /\ parked[g] > 0
  /\ parked' = [parked EXCEPT ![g] = @ - 1]
  /\ applied' = IF objadv[g] # 0 THEN objadv[g] ELSE applied
  /\ ev' = [kind |-> "rrib", g |-> g]
  /\ UNCHANGED <<now, pseq, pcont, syncs, fetches, datas, cur, gens, aseq, objadv, seen, pend, fq, nface, nactive, nroutes>>
\* the fetch Interest of number s timed out: it is expressed again (subject to the same check as the first time)
RTimeout(s) == /\ s \in DOMAIN pend /\ now >= pend[s].exp
               /\ pend' = [x \in DOMAIN pend \ {s} |-> pend[x]] /\ fq' = fq \cup {s}
               /\ ev' = [kind |-> "rtimeout", s |-> s]
               /\ UNCHANGED <<now, pseq, pcont, syncs, fetches, datas, cur, gens, aseq, objadv, parked, applied, seen, nface, nactive, nroutes>>
\* the dead-neighbour check: a neighbour silent for more than DeadInt is removed, its object cleared, its routes withdrawn
IsDead == cur # 0 /\ now - seen > DeadInt
\* `removed`: the check removed P (observable; the witness of the model is IsDead)
RDeadO(removed) ==
  /\ IF removed /\ cur # 0
     THEN /\ cur' = 0 /\ applied' = 0 /\ aseq' = 0
          /\ objadv' = (IF "KeepAdvertOnRemove" \in Dev THEN objadv ELSE [objadv EXCEPT ![cur] = 0])
          /\ nface' = 0 /\ nactive' = FALSE /\ nroutes' = {}      \* its routes are withdrawn
     ELSE UNCHANGED <<cur, applied, aseq, objadv, nface, nactive, nroutes>>
  /\ ev' = [kind |-> "rdead", removed |-> removed]
  /\ UNCHANGED <<now, pseq, pcont, syncs, fetches, datas, gens, parked, seen, pend, fq>>
RDead == RDeadO(IsDead)
\* (the debounce of a scheduled fetch is far shorter than a tick: none is outstanding when time advances)
Tick == fq = {} /\ now' = now + 1 /\ ev' = [kind |-> "tick"] /\ UNCHANGED <<pseq, pcont, syncs, fetches, datas, cur, gens, aseq, objadv, parked, applied, seen, pend, fq, nface, nactive, nroutes>>

(* ---- properties -------------------------------------------------------------- *)
\* whenever R knows P's latest number and nothing is under way (no fetch scheduled or pending, no update queued),
\* R routes on P's latest advertisement: nothing stale can stick (the next heartbeat would not repair it, because the
\* number is already known)
\* (fetches still pending for OLDER numbers do not count: their Data must not be accepted any more)
Quiescent == cur # 0 /\ aseq = pseq /\ aseq \notin DOMAIN pend /\ fq = {} /\ \A g \in DOMAIN parked : parked[g] = 0
QuiescentCorrect == Quiescent => applied = pcont
\* once P was removed nothing of it comes back until an advertisement is accepted by a NEW neighbour object
NoResurrect == [][(ev'.kind = "rrib" /\ ev'.g # cur) => applied' = applied]_vars
\* the neighbour's routes are registered on the face it is reached over, and nowhere once it is gone (C19: nothing is
\* left on faces a neighbour no longer uses)
RoutesFollowFace == nroutes = (IF cur # 0 /\ nface # 0 THEN {nface} ELSE {})
\* only content that P published, under a number P announced
Sane == /\ applied <= pcont /\ aseq <= pseq
        /\ \A g \in DOMAIN objadv : objadv[g] <= pcont
\* with fair delivery (heartbeats keep coming, fetches are answered, queued updates run) R ends up routing on P's latest
UpToDate == applied = pcont
=========================================================================
