------------------------------ MODULE DV ------------------------------
(***************************************************************************)
(* ndn-dv routing daemon (dv/): distance-vector tables, dead-neighbour     *)
(* detection, the route installer ("FIB" of the daemon: register /         *)
(* unregister commands towards the forwarder) and the replicated prefix    *)
(* operation log.  One action per critical section of dv/dv/table_algo.go  *)
(* (ribUpdate, checkDeadNeighbors, fibUpdate) and dv/table/prefix_table.go *)
(* / dv/dv/prefix_sync.go (publishOp, publishSnap, prefixDataFetch,        *)
(* processPrefixData).  Routers are 1..N; the order on router ids is the   *)
(* order of their name hashes, which is the code's tie-break.              *)
(***************************************************************************)
EXTENDS Integers, Sequences, FiniteSets, TLC
CONSTANTS N, Inf, MaxFaults, Pfx, Thresh
R == 1..N
VARIABLES links,   \* set of {a,b}
          nbr,     \* r -> neighbours r currently keeps state for
          cost,    \* cost[r][d][n] : cost from r to d via neighbour n (n = r: the self entry); Inf = none
          faults,
          ann,     \* r -> set of prefixes r announces
          plog,    \* r -> sequence of operations [op, p] published so far (sequence number = index)
          snap,    \* r -> [at, set] : latest published snapshot
          view,    \* view[r][q] = [known, latest, set] : what r has reconstructed for router q
          inst,    \* inst[r] : (name, face) -> cost, the routes r holds registered in its forwarder
          choice   \* choice[r][d] = [b, s] : the best and second-best next hop r has picked for d (0 = none)
vars == <<links, nbr, cost, faults, ann, plog, snap, view, inst, choice>>
Empty == [x \in {} |-> 0]
Link(a,b) == {a,b}
MinOf(S) == CHOOSE x \in S : \A y \in S : x <= y
Connected(L) ==
  LET RECURSIVE Reach(_,_)
      Reach(S, k) == IF k = 0 THEN S ELSE Reach(S \cup { b \in R : \E a \in S : Link(a,b) \in L }, k-1)
  IN Reach({1}, N) = R

(* ---------------- routing table (dv/table/rib.go) -------------------------- *)
Hops(r,d) == { n \in R : cost[r][d][n] < Inf }
Best(r,d) == IF Hops(r,d) = {} THEN Inf ELSE MinOf({ cost[r][d][n] : n \in Hops(r,d) })
\* the router's own pick among equal-cost next hops is an observable (any deterministic tie-break is acceptable):
\* the tables keep it in `choice`; ChoiceOK says what a pick must satisfy, Canon is the shipped tie-break (lowest id,
\* ids being ordered by router-name hash)
BestHop(r,d) == choice[r][d].b
SecondHop(r,d) == choice[r][d].s
Second(r,d) == LET H == Hops(r,d) \ {BestHop(r,d)} IN IF H = {} THEN Inf ELSE MinOf({ cost[r][d][n] : n \in H })
ArgMin(c, H) == IF H = {} THEN {0} ELSE { n \in H : c[n] = MinOf({ c[m] : m \in H }) }
ChoiceOKFor(c, ch) == LET H == { n \in R : c[n] < Inf } IN
                         /\ ch.b \in ArgMin(c, H)
                         /\ ch.s \in ArgMin(c, H \ {ch.b})
ChoiceOK == \A r \in R, d \in R : ChoiceOKFor(cost[r][d], choice[r][d])
CanonOf(c) == LET H == { n \in R : c[n] < Inf }
                  b == MinOf(ArgMin(c, H))
              IN [b |-> b, s |-> MinOf(ArgMin(c, H \ {b}))]
Canon(crow) == [d \in R |-> CanonOf(crow[d])]
\* advertisement of n: destinations with a finite best cost (never one at or above infinity)
AdvDests(n) == { d \in R : Best(n,d) < Inf }
\* SPEC.md "Update Processing": cost via n, poison reverse through the advertised other-cost
NewCost(r, n, d) ==
  IF d \notin AdvDests(n) THEN Inf
  ELSE LET c == IF BestHop(n,d) = r
                THEN (IF Second(n,d) < Inf THEN Second(n,d) + 1 ELSE Inf)
                ELSE Best(n,d) + 1
       IN IF c >= Inf THEN Inf ELSE c
RoutingUnch == UNCHANGED <<ann, plog, snap, view>>
Fetch(r, n) ==        \* r processes n's current advertisement (ribUpdate)
  /\ Link(r,n) \in links
  /\ nbr' = [nbr EXCEPT ![r] = @ \cup {n}]
  /\ cost' = [cost EXCEPT ![r] = [d \in R |-> [cost[r][d] EXCEPT ![n] = NewCost(r, n, d)]]]
  /\ choice' = [choice EXCEPT ![r] = Canon(cost'[r])]
  /\ UNCHANGED <<links, faults, inst>> /\ RoutingUnch
LinkDown(a, b) ==
  /\ faults < MaxFaults /\ Link(a,b) \in links /\ Connected(links \ {Link(a,b)})
  /\ links' = links \ {Link(a,b)} /\ faults' = faults + 1 /\ UNCHANGED <<nbr, cost, inst, choice>> /\ RoutingUnch
LinkUp(a, b) ==
  /\ faults < MaxFaults /\ a # b /\ Link(a,b) \notin links
  /\ links' = links \cup {Link(a,b)} /\ faults' = faults + 1 /\ UNCHANGED <<nbr, cost, inst, choice>> /\ RoutingUnch
Dead(r, n) ==         \* checkDeadNeighbors: n was not heard from for the dead interval
  /\ n \in nbr[r] /\ Link(r,n) \notin links
  /\ nbr' = [nbr EXCEPT ![r] = @ \ {n}]
  /\ cost' = [cost EXCEPT ![r] = [d \in R |-> [cost[r][d] EXCEPT ![n] = Inf]]]
  /\ choice' = [choice EXCEPT ![r] = Canon(cost'[r])]
  /\ UNCHANGED <<links, faults, inst>> /\ RoutingUnch

(* ---------------- C18 ------------------------------------------------------- *)
Dist(L, a, b) ==
  LET RECURSIVE D(_,_)
      D(S, k) == IF b \in S THEN k ELSE IF k >= N THEN Inf ELSE D(S \cup { y \in R : \E x \in S : Link(x,y) \in L }, k+1)
  IN D({a}, 0)
NoInfAdvert == \A r \in R : \A d \in AdvDests(r) : Best(r,d) < Inf
Quiet == \A r \in R : \A n \in R \ {r} :
            /\ (Link(r,n) \in links => \A d \in R : cost[r][d][n] = NewCost(r,n,d))
            /\ (Link(r,n) \notin links => n \notin nbr[r])
FixedPointCorrect == Quiet => \A r \in R, d \in R :
                        /\ Best(r,d) = Dist(links, r, d)
                        /\ (d # r /\ Best(r,d) < Inf) => Dist(links, BestHop(r,d), d) = Best(r,d) - 1   \* next hop on a shortest path
Converges == <>[]Quiet

(* ---------------- C19: route installer (fibUpdate) --------------------------- *)
FaceOf(r, n) == 100 * r + n
DvName(d) == <<"dv", d>>          \* the routing prefix <router>/32=DV of router d
PName(p)  == <<"pfx", p>>
\* routes r's tables prescribe: for every reachable remote router d, for its routing prefix and every prefix r
\* believes d announces: the faces of the best and the finite second-best next hop, lowest cost per face
Desired(r) ==
  LET reach == { d \in R \ {r} : Best(r,d) < Inf }
      names(d) == {DvName(d)} \cup { PName(p) : p \in view[r][d].set }
      triples == UNION { UNION { ({ <<nm, FaceOf(r, BestHop(r,d)), Best(r,d)>> } \cup
                                  (IF Second(r,d) < Inf THEN { <<nm, FaceOf(r, SecondHop(r,d)), Second(r,d)>> } ELSE {}))
                                 : nm \in names(d) } : d \in reach }
      keys == { <<t[1], t[2]>> : t \in triples }
  IN [k \in keys |-> MinOf({ t[3] : t \in { q \in triples : q[1] = k[1] /\ q[2] = k[2] } })]
\* replay a register/unregister stream into a route map
RECURSIVE Replay(_, _, _)
Replay(m, cs, k) ==
  IF k > Len(cs) THEN m
  ELSE LET c == cs[k]  key == <<c.name, c.face>>
       IN Replay(IF c.cmd = "register" THEN [x \in DOMAIN m \cup {key} |-> IF x = key THEN c.cost ELSE m[x]]
                 ELSE [x \in DOMAIN m \ {key} |-> m[x]], cs, k + 1)
\* fibUpdate: after it the registered routes are exactly the prescribed ones (cmds: the emitted stream)
FibUpdate(r, cmds) ==
  /\ inst' = [inst EXCEPT ![r] = Replay(inst[r], cmds, 1)]
  /\ UNCHANGED <<links, nbr, cost, faults, choice>> /\ RoutingUnch
InstallOK(r) == inst[r] = Desired(r)
\* the stream the code emits: unregister what is no longer prescribed, register what is new or changed
RECURSIVE SetToSeq(_)
SetToSeq(S) == IF S = {} THEN <<>> ELSE LET x == CHOOSE y \in S : TRUE IN <<x>> \o SetToSeq(S \ {x})
ImplCmds(r) ==
  LET D == Desired(r)  I == inst[r]
  IN SetToSeq({ [cmd |-> "unregister", name |-> k[1], face |-> k[2], cost |-> 0] : k \in DOMAIN I \ DOMAIN D })
     \o SetToSeq({ [cmd |-> "register", name |-> k[1], face |-> k[2], cost |-> D[k]] : k \in { x \in DOMAIN D : x \notin DOMAIN I \/ I[x] # D[x] } })

(* ---------------- C19: replicated prefix log ---------------------------------- *)
Apply(S, o) == IF o.op = "add" THEN S \cup {o.p} ELSE S \ {o.p}
RECURSIVE SetAt(_, _)
SetAt(L, k) == IF k = 0 THEN {} ELSE Apply(SetAt(L, k - 1), L[k])      \* the announced set after the first k operations
SeqNo(q) == Len(plog[q])
LogUnch == UNCHANGED <<links, nbr, cost, faults, inst, choice>>
Publish(q, o, takeSnap) ==     \* publishOp (+ publishSnap when the code decides to)
  /\ ann' = [ann EXCEPT ![q] = Apply(@, o)]
  /\ plog' = [plog EXCEPT ![q] = Append(@, o)]
  /\ snap' = IF takeSnap THEN [snap EXCEPT ![q] = [at |-> SeqNo(q) + 1, set |-> Apply(ann[q], o)]] ELSE snap
  /\ UNCHANGED view /\ LogUnch
Announce(q, p, ts) == p \notin ann[q] /\ Publish(q, [op |-> "add", p |-> p], ts)
Withdraw(q, p, ts) == p \in ann[q] /\ Publish(q, [op |-> "rem", p |-> p], ts)
Learn(r, q, s) ==              \* prefix sync tells r that q has published up to s
  /\ r # q /\ s <= SeqNo(q) /\ s >= view[r][q].latest
  /\ view' = [view EXCEPT ![r][q].latest = s]
  /\ UNCHANGED <<ann, plog, snap>> /\ LogUnch
PeerFetch(r, q) ==             \* prefixDataFetch + processPrefixData: next operation, or the snapshot when far behind
  LET v == view[r][q] IN
  /\ r # q /\ v.known < v.latest
  /\ view' = [view EXCEPT ![r][q] =
        IF v.latest - v.known > Thresh
        THEN [known |-> snap[q].at, latest |-> v.latest, set |-> snap[q].set]
        ELSE [known |-> v.known + 1, latest |-> v.latest, set |-> Apply(v.set, plog[q][v.known + 1])]]
  /\ UNCHANGED <<ann, plog, snap>> /\ LogUnch
\* what any peer has reconstructed is the publisher's announced set as of the sequence number it has reached
LogReplicates == \A r \in R : \A q \in R \ {r} : view[r][q].set = SetAt(plog[q], view[r][q].known)
CaughtUpEqual == \A r \in R : \A q \in R \ {r} : view[r][q].known = SeqNo(q) => view[r][q].set = ann[q]
SnapshotSound == \A q \in R : snap[q].at <= SeqNo(q) /\ snap[q].set = SetAt(plog[q], snap[q].at)
AnnIsLog == \A q \in R : ann[q] = SetAt(plog[q], SeqNo(q))

InitTables(L) ==
  /\ links = L /\ nbr = [r \in R |-> {}] /\ faults = 0
  /\ cost = [r \in R |-> [d \in R |-> [n \in R |-> IF d = r /\ n = r THEN 0 ELSE Inf]]]
  /\ ann = [r \in R |-> {}] /\ plog = [r \in R |-> <<>>] /\ snap = [r \in R |-> [at |-> 0, set |-> {}]]
  /\ view = [r \in R |-> [q \in R |-> [known |-> 0, latest |-> 0, set |-> {}]]]
  /\ inst = [r \in R |-> Empty]
  /\ choice = [r \in R |-> [d \in R |-> IF d = r THEN [b |-> r, s |-> 0] ELSE [b |-> 0, s |-> 0]]]
=======================================================================
