---- MODULE NfdcTrace ----
(* recorded executions of the real nfdc.NfdMgmtThread (harness/nfdc_test.go): issue rows as commands are handed to Exec, *)
(* attempt rows as the worker calls the engine, final rows with the forwarder's routes after the queue has drained        *)
EXTENDS NfdcQueue, Json
CONSTANT TraceFile
VARIABLES l, hi
Trace == ndJsonDeserialize(TraceFile)
tvars == <<vars, l, hi>>
Ev == Trace[l]
TInit == Init /\ l = 1 /\ hi = 0 /\ TLCSet(7, 0)
Step ==
  /\ l <= Len(Trace) /\ l' = l + 1 /\ hi' = l
  /\ \/ Ev.ev = "Reset" /\ issued' = <<>> /\ queue' = <<>> /\ cur' = NoCur /\ fwd' = Empty /\ done' = {} /\ gaveup' = {} /\ ev' = [kind |-> "R"]
     \/ Ev.ev = "issue" /\ Issue(Ev.verb, Ev.key, Ev.cost, Ev.retries)
     \/ Ev.ev = "attempt" /\ Ev.id \in 1..Len(issued) /\ Attempt(Ev.id, Ev.ok)
     \/ Ev.ev = "final" /\ UNCHANGED <<issued, queue, cur, fwd, done, gaveup>> /\ ev' = [kind |-> "final"]
TSpec == TInit /\ [][Step]_tvars
HiWater == TLCSet(7, IF TLCGet(7) < hi THEN hi ELSE TLCGet(7))
Accepted == PrintT(<<"hiwater", TLCGet(7), Len(Trace)>>) /\ TLCGet(7) = Len(Trace)
IsA == l <= Len(Trace) /\ Ev.ev = "attempt"
IsF == l <= Len(Trace) /\ Ev.ev = "final"
\* an attempt row carries the id the harness gave the command when it was issued
T_C19q_fifo  == [][IsA => (Ev.id \in 1..Len(issued) /\ A_Fifo(Ev.id) /\ A_Once(Ev.id))]_tvars
\* the command executed is the command issued (verb, route, cost reach the forwarder unchanged)
T_C19q_same  == [][IsA => (Ev.id \in 1..Len(issued) => (Ev.verb = Cmd(Ev.id).verb /\ Ev.key = Cmd(Ev.id).key /\ Ev.cost = Cmd(Ev.id).cost))]_tvars
\* at the end the queue has drained and the forwarder holds what the issued commands prescribe in issue order
T_C19q_final == [][IsF => (Drained /\ { <<Ev.fwd[x].key, Ev.fwd[x].cost>> : x \in 1..Len(Ev.fwd) } = { <<k, fwd[k]>> : k \in DOMAIN fwd }
                           /\ (gaveup = {} => fwd = Fold(Empty, 1, 1..Len(issued))))]_tvars
I_C19q_order == FwdIsIssueOrder
====
