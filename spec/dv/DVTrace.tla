---- MODULE DVTrace ----
(* Recorded executions of N real dv.Routers are followed by DV; checks C18 (advertisements, fixed points) and   *)
(* C19 (installed routes = prescribed routes after every table change; reconstructed prefix sets).               *)
EXTENDS DV, Json
CONSTANT TraceFile
VARIABLES l, hi, ev, det, seen   \* seen: every (cost row, pick) observed so far -- the tie-break must be a function of the row
Trace == ndJsonDeserialize(TraceFile)
tvars == <<vars, l, hi, ev, seen, det>>
Ev == Trace[l]
LinkSet(s) == { {s[x][1], s[x][2]} : x \in 1..Len(s) }
TInit == InitTables({}) /\ l = 1 /\ hi = 0 /\ ev = [ev |-> "0"] /\ TLCSet(7, 0) /\ seen = {} /\ det = TRUE
Cmds(cs) == [x \in 1..Len(cs) |-> [cmd |-> cs[x].cmd, name |-> <<cs[x].name[1], cs[x].name[2]>>, face |-> cs[x].face, cost |-> cs[x].cost]]
\* the installer ran inside the step: replay its command stream
\* the picks of router r after the step, as logged: pk[x] = [d, b, s]
Picked(r, pk) == /\ choice' = [choice EXCEPT ![r] = [d \in R |-> IF \E x \in 1..Len(pk) : pk[x].d = d
                                                              THEN LET x == CHOOSE y \in 1..Len(pk) : pk[y].d = d IN [b |-> pk[x].b, s |-> pk[x].s]
                                                              ELSE [b |-> 0, s |-> 0]]]
                 /\ seen' = seen \cup { <<cost'[r][d], choice'[r][d]>> : d \in R }
                 /\ det' = (det /\ \A d \in R : \A q \in seen : q[1] = cost'[r][d] => q[2] = choice'[r][d])
Installed(r, cs) == inst' = [inst EXCEPT ![r] = Replay(inst[r], Cmds(cs), 1)]
Step ==
  /\ l <= Len(Trace) /\ l' = l + 1 /\ hi' = l /\ ev' = Ev
  /\ \/ Ev.ev = "Reset" /\ links' = LinkSet(Ev.links) /\ nbr' = [r \in R |-> {}] /\ faults' = 0
          /\ cost' = [r \in R |-> [d \in R |-> [n \in R |-> IF d = r /\ n = r THEN 0 ELSE Inf]]]
          /\ ann' = [r \in R |-> {}] /\ plog' = [r \in R |-> <<>>] /\ snap' = [r \in R |-> [at |-> 0, set |-> {}]]
          /\ view' = [r \in R |-> [q \in R |-> [known |-> 0, latest |-> 0, set |-> {}]]] /\ inst' = [r \in R |-> Empty]
          /\ choice' = [r \in R |-> [d \in R |-> IF d = r THEN [b |-> r, s |-> 0] ELSE [b |-> 0, s |-> 0]]] /\ UNCHANGED <<seen, det>>
     \/ Ev.ev = "fetch" /\ nbr' = [nbr EXCEPT ![Ev.r] = @ \cup {Ev.n}]
          /\ cost' = [cost EXCEPT ![Ev.r] = [d \in R |-> [cost[Ev.r][d] EXCEPT ![Ev.n] = NewCost(Ev.r, Ev.n, d)]]]
          /\ Installed(Ev.r, Ev.cmds) /\ Picked(Ev.r, Ev.picks) /\ UNCHANGED <<links, faults>> /\ RoutingUnch
     \/ Ev.ev = "down" /\ links' = links \ {{Ev.a, Ev.b}} /\ UNCHANGED <<nbr, cost, faults, inst, choice, seen, det>> /\ RoutingUnch
     \/ Ev.ev = "up" /\ links' = links \cup {{Ev.a, Ev.b}} /\ UNCHANGED <<nbr, cost, faults, inst, choice, seen, det>> /\ RoutingUnch
     \* one dead-check pass of router r removed the neighbours ns (all unheard for the dead interval)
     \/ Ev.ev = "dead" /\ nbr' = [nbr EXCEPT ![Ev.r] = @ \ { Ev.ns[x] : x \in 1..Len(Ev.ns) }]
          /\ cost' = [cost EXCEPT ![Ev.r] = [d \in R |-> [n \in R |-> IF \E x \in 1..Len(Ev.ns) : Ev.ns[x] = n THEN Inf ELSE cost[Ev.r][d][n]]]]
          /\ Installed(Ev.r, Ev.cmds) /\ Picked(Ev.r, Ev.picks) /\ UNCHANGED <<links, faults>> /\ RoutingUnch
     \/ Ev.ev = "quiet" /\ UNCHANGED <<vars, seen, det>>
     \* publisher side: the model keeps the log; snapshots are the publisher's business (not observable here)
     \/ Ev.ev = "announce" /\ (IF Ev.p \in ann[Ev.q] THEN UNCHANGED vars ELSE Publish(Ev.q, [op |-> "add", p |-> Ev.p], TRUE)) /\ UNCHANGED <<seen, det>>
     \/ Ev.ev = "withdraw" /\ (IF Ev.p \notin ann[Ev.q] THEN UNCHANGED vars ELSE Publish(Ev.q, [op |-> "rem", p |-> Ev.p], TRUE)) /\ UNCHANGED <<seen, det>>
     \* peer side: the model's view follows what the peer reconstructed (logged); the rules judge it
     \/ Ev.ev = "sync" /\ view' = [view EXCEPT ![Ev.r][Ev.q] = [known |-> Ev.known, latest |-> Ev.latest, set |-> { Ev.set[x] : x \in 1..Len(Ev.set) }]]
          /\ Installed(Ev.r, Ev.cmds) /\ UNCHANGED <<links, nbr, cost, faults, ann, plog, snap, choice, seen, det>>
TSpec == TInit /\ [][Step]_tvars
HiWater == TLCSet(7, IF TLCGet(7) < hi THEN hi ELSE TLCGet(7))
Accepted == PrintT(<<"hiwater", TLCGet(7), Len(Trace)>>) /\ TLCGet(7) = Len(Trace)

(* ---- C18 ---- (state invariants over the post-state; ev = the line just consumed) *)
AdvOK(a) == /\ \A x \in 1..Len(a) : a[x].c < Inf                                   \* never advertise a cost at or above infinity
            /\ { a[x].d : x \in 1..Len(a) } = AdvDests(ev.r)                        \* destinations: exactly the reachable ones
            /\ \A x \in 1..Len(a) : /\ a[x].c = Best(ev.r, a[x].d)
                                    /\ a[x].o = Second(ev.r, a[x].d)
                                    /\ a[x].nh = BestHop(ev.r, a[x].d)              \* deterministic tie-break
I_C18adv == (ev.ev \in {"fetch", "dead"}) => AdvOK(ev.adv)
\* the picks are minimal-cost next hops, and ties are broken the same way every time
I_C18choice == /\ ((ev.ev \in {"fetch", "dead"}) => \A d \in R : ChoiceOKFor(cost[ev.r][d], choice[ev.r][d]))
               /\ det
\* at quiescence (fair round-robin until nothing changes) every table holds hop distances and a shortest-path next hop
I_C18fix == (ev.ev = "quiet") =>
               /\ Quiet
               /\ \A x \in 1..Len(ev.tab) : LET t == ev.tab[x] IN
                     /\ t.c = Dist(links, t.r, t.d)
                     /\ (t.d # t.r /\ t.c < Inf) => ({t.r, t.nh} \in links /\ Dist(links, t.nh, t.d) = t.c - 1)
\* bounded convergence: a fair round-robin reaches the fixed point within the network diameter + count-to-infinity bound
I_C18bound == (ev.ev = "quiet") => ev.rounds <= Inf + N

(* ---- C19 ---- *)
I_C19inst == (ev.ev \in {"fetch", "dead", "sync"}) => InstallOK(ev.r)
\* the peer caught up (the relay is reliable) and what it reconstructed is the publisher's announced set
I_C19log == (ev.ev = "sync") => /\ ev.known = SeqNo(ev.q) /\ ev.latest = SeqNo(ev.q) /\ ev.pseq = SeqNo(ev.q)
                                /\ view[ev.r][ev.q].set = ann[ev.q] /\ ev.nset = Cardinality(ann[ev.q])
I_C19seq == (ev.ev \in {"announce", "withdraw"}) => ev.seq = SeqNo(ev.q)
====
