----------------------------- MODULE NfdcQueue -----------------------------
(***************************************************************************)
(* The routing daemon's management-command worker (dv/nfdc/nfdc.go): the   *)
(* tables enqueue register / unregister commands (Exec); ONE worker takes  *)
(* them in order and executes each against the forwarder, retrying a       *)
(* failed command in place up to its budget before the next is looked at.  *)
(* The installer of C19 (dv/table/fib.go) records a route as installed     *)
(* when it ENQUEUES the command, so what the forwarder ends up with equals *)
(* what the tables prescribe only if commands take effect in issue order.  *)
(*                                                                         *)
(* One action per step of the worker loop; whether an attempt fails is the *)
(* environment's choice (observable `ok`).                                 *)
(***************************************************************************)
EXTENDS Integers, Sequences, FiniteSets, TLC
CONSTANTS Dev        \* {} : as coded.  "RequeueOnFailure": a failed command goes to the back of the queue (refuted by TLC)
VARIABLES issued,    \* sequence of all commands ever issued: [id, verb, key, cost, retries]
          queue,     \* ids waiting, in order
          cur,       \* [id, left] the command the worker holds, or NoCur
          fwd,       \* the forwarder: key -> cost (routes registered)
          done,      \* ids that were executed successfully
          gaveup,    \* ids dropped after exhausting their budget
          ev
vars == <<issued, queue, cur, fwd, done, gaveup, ev>>
NoCur == [id |-> 0, left |-> 0]
Empty == [x \in {} |-> 0]
Ext(fn, k, v) == [x \in DOMAIN fn \cup {k} |-> IF x = k THEN v ELSE fn[x]]
Drop(fn, K)   == [x \in DOMAIN fn \ K |-> fn[x]]
Cmd(id) == issued[id]
Apply(f, c) == IF c.verb = "register" THEN Ext(f, c.key, c.cost) ELSE Drop(f, {c.key})
\* what the forwarder holds if the commands in S (a set of ids) took effect in issue order
RECURSIVE Fold(_, _, _)
Fold(f, k, S) == IF k > Len(issued) THEN f ELSE Fold(IF k \in S THEN Apply(f, Cmd(k)) ELSE f, k + 1, S)

Init == issued = <<>> /\ queue = <<>> /\ cur = NoCur /\ fwd = Empty /\ done = {} /\ gaveup = {} /\ ev = [kind |-> "0"]

Issue(verb, key, cost, retries) ==
  LET id == Len(issued) + 1 IN
  /\ issued' = Append(issued, [id |-> id, verb |-> verb, key |-> key, cost |-> cost, retries |-> retries])
  /\ queue' = Append(queue, id)
  /\ ev' = [kind |-> "issue", id |-> id]
  /\ UNCHANGED <<cur, fwd, done, gaveup>>

\* the worker executes command `id` once; ok is what the forwarder answered
Attempt(id, ok) ==
  /\ ev' = [kind |-> "attempt", id |-> id, ok |-> ok]
  /\ LET fresh == cur = NoCur                              \* taken from the head of the queue by this very step
         left  == IF fresh THEN Cmd(id).retries ELSE cur.left
         q1    == IF fresh THEN Tail(queue) ELSE queue
     IN IF ok THEN /\ fwd' = Apply(fwd, Cmd(id)) /\ done' = done \cup {id} /\ cur' = NoCur /\ queue' = q1 /\ UNCHANGED gaveup
        ELSE IF left = 1 THEN /\ gaveup' = gaveup \cup {id} /\ cur' = NoCur /\ queue' = q1 /\ UNCHANGED <<fwd, done>>   \* budget exhausted
        ELSE IF "RequeueOnFailure" \in Dev
             THEN /\ queue' = Append(q1, id) /\ cur' = NoCur /\ UNCHANGED <<fwd, done, gaveup>>
             ELSE /\ cur' = [id |-> id, left |-> (IF left < 0 THEN left ELSE left - 1)] /\ queue' = q1 /\ UNCHANGED <<fwd, done, gaveup>>
  /\ UNCHANGED issued

\* ---- rules -------------------------------------------------------------------------------------------------
\* the worker only ever executes the command it holds, else the head of the queue (strict FIFO, retries in place)
A_Fifo(id) == IF cur # NoCur THEN id = cur.id ELSE (queue # <<>> /\ id = Head(queue))
\* nothing is executed again once it succeeded or was given up
A_Once(id) == id \notin done /\ id \notin gaveup
P_C19queue == [][ev'.kind = "attempt" => (A_Fifo(ev'.id) /\ A_Once(ev'.id))]_vars
\* the forwarder holds exactly what the successful commands prescribe in ISSUE order -- in particular, once the queue
\* has drained without a give-up, what the tables recorded as installed when they enqueued the commands
FwdIsIssueOrder == fwd = Fold(Empty, 1, done)
Drained == queue = <<>> /\ cur = NoCur
InstalledAtQuiescence == (Drained /\ gaveup = {}) => fwd = Fold(Empty, 1, 1..Len(issued))
=========================================================================
