---- MODULE DVAdvertMC ----
EXTENDS DVAdvert
CONSTANTS MaxChanges, MaxTime, MCFaces
MNext == \/ (pcont < MaxChanges /\ PChange)
         \/ PBeat
         \/ \E s \in fetches : PReply(s)
         \/ \E s \in syncs, f \in MCFaces, a \in (IF Cardinality(MCFaces) > 1 THEN BOOLEAN ELSE {TRUE}) : RSync(s, f, a)
         \/ \E s \in fq : RFetch(s)
         \/ \E d \in datas : RData(d.seq, d.c, d.t)
         \/ \E g \in DOMAIN parked : RRib(g)
         \/ \E s \in DOMAIN pend : RTimeout(s)
         \/ RDead
         \/ (now < MaxTime /\ Tick)
MSpec == Init /\ [][MNext]_vars
\* liveness: changes stop, time stops, and the protocol steps that are enabled keep being taken
Fair == /\ WF_vars(PBeat) /\ \A s \in 1..MaxChanges : (\A f \in MCFaces : WF_vars(RSync(s, f, TRUE))) /\ WF_vars(RFetch(s)) /\ WF_vars(PReply(s))
        /\ \A s \in 1..MaxChanges, c \in 1..MaxChanges, t \in 0..MaxTime : WF_vars(RData(s, c, t))
        /\ \A s \in 1..MaxChanges : WF_vars(RTimeout(s))
        /\ \A g \in 1..(MaxChanges + MaxTime + 2) : WF_vars(RRib(g))
LNext == \/ (pcont < MaxChanges /\ PChange) \/ PBeat \/ (\E s \in fetches : PReply(s)) \/ (\E s \in syncs, f \in MCFaces : RSync(s, f, TRUE)) \/ (\E s \in fq : RFetch(s))
         \/ (\E d \in datas : RData(d.seq, d.c, d.t)) \/ (\E g \in DOMAIN parked : RRib(g)) \/ (\E s \in DOMAIN pend : RTimeout(s))
LSpec == Init /\ [][LNext]_vars /\ Fair
Converges == <>[](pcont = MaxChanges => UpToDate)
MView == <<now, pseq, pcont, syncs, fetches, datas, cur, gens, aseq, objadv, parked, applied, seen, pend, fq, nface, nactive, nroutes>>
GenBound == gens <= 3 /\ \A g \in DOMAIN parked : parked[g] <= 2
====
