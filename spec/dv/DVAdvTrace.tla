---- MODULE DVAdvTrace ----
(* Recorded executions of two real dv.Routers (publisher P, receiver R) on real engines with the harness as the network   *)
(* between them (harness/dvadv_test.go): Sync Interests, fetch Interests and advertisement Data are captured on the faces  *)
(* and delivered later, reordered, duplicated or never; queued ribUpdate goroutines of R are parked at the gate before    *)
(* the router mutex and released by the schedule.  Every row carries what R holds afterwards (obs).                       *)
EXTENDS DVAdvert, Json
CONSTANT TraceFile
VARIABLES l, hi
Trace == ndJsonDeserialize(TraceFile)
tvars == <<vars, l, hi>>
Ev == Trace[l]
TInit == Init /\ l = 1 /\ hi = 0 /\ TLCSet(7, 0)
Reset == /\ now' = 0 /\ pseq' = 0 /\ pcont' = 0 /\ syncs' = {} /\ fetches' = {} /\ datas' = {}
         /\ cur' = 0 /\ gens' = 0 /\ aseq' = 0 /\ objadv' = <<>> /\ parked' = <<>> /\ applied' = 0 /\ seen' = 0 /\ pend' = <<>> /\ fq' = {} /\ nface' = 0 /\ nactive' = FALSE /\ nroutes' = {}
         /\ ev' = [kind |-> "R"]
Stutter(k) == ev' = [kind |-> k] /\ UNCHANGED <<now, pseq, pcont, syncs, fetches, datas, cur, gens, aseq, objadv, parked, applied, seen, pend, fq, nface, nactive, nroutes>>
\* time: entries of the model's pending table whose Interest has certainly expired are dropped (the code drops them at
\* expiry and retries; a retry shows up as an rfetch row of its own)
TickT == /\ now' = now + 1 /\ ev' = [kind |-> "tick"]
         /\ pend' = [x \in { y \in DOMAIN pend : pend[y].exp + 1 >= now + 1 } |-> pend[x]]
         /\ UNCHANGED <<pseq, pcont, syncs, fetches, datas, cur, gens, aseq, objadv, parked, applied, seen, fq, nface, nactive, nroutes>>
\* a fetch Interest for s left R: scheduled by a Sync Interest (fq) or a retry after a timeout
RFetchT(s, sent) == IF s \in fq THEN RFetch(s)
                    ELSE /\ pend' = (IF sent THEN AddPend(s) ELSE pend)
                         /\ fetches' = (IF sent THEN fetches \cup {s} ELSE fetches)
                         /\ ev' = [kind |-> "rfetch", s |-> s, sent |-> sent, retry |-> TRUE]
                         /\ UNCHANGED <<now, pseq, pcont, syncs, datas, cur, gens, aseq, objadv, parked, applied, seen, fq, nface, nactive, nroutes>>
Step ==
  /\ l <= Len(Trace) /\ l' = l + 1 /\ hi' = l
  /\ \/ Ev.ev = "Reset" /\ Reset
     \/ Ev.ev = "pchange" /\ PChange
     \/ Ev.ev = "pbeat" /\ (IF pseq > 0 THEN PBeat ELSE Stutter("pbeat"))
     \/ Ev.ev = "preply" /\ (IF Ev.s \in fetches THEN PReply(Ev.s) ELSE Stutter("preply"))
     \/ Ev.ev = "rsync" /\ RSync(Ev.s, Ev.face, Ev.active)
     \/ Ev.ev = "rfetch" /\ RFetchT(Ev.s, Ev.sent)
     \/ Ev.ev = "rdata" /\ RDataO(Ev.s, Ev.c, Ev.n, FALSE)
     \/ Ev.ev = "rrib" /\ (IF Ev.g \in DOMAIN parked /\ parked[Ev.g] > 0 THEN RRib(Ev.g) ELSE Stutter("rrib?"))
     \/ Ev.ev = "rdead" /\ RDeadO(Ev.removed)
     \/ Ev.ev = "tick" /\ TickT
     \/ Ev.ev = "settled" /\ Stutter("settled")
     \/ Ev.ev = "P" /\ Stutter("P")
TSpec == TInit /\ [][Step]_tvars
HiWater == TLCSet(7, IF TLCGet(7) < hi THEN hi ELSE TLCGet(7))
Accepted == PrintT(<<"hiwater", TLCGet(7), Len(Trace)>>) /\ TLCGet(7) = Len(Trace)

Is(k) == l <= Len(Trace) /\ Ev.ev = k
Live == l <= Len(Trace) /\ Ev.ev \notin {"Reset", "P"}
T_nopanic == [][~Is("P")]_tvars
\* what R holds after the step is what the module says: neighbour present, sequence number known, content of the current
\* object's advertisement, content R routes on, number of queued updates
T_C18a_state == [][Live => /\ Ev.obs.nbr = (cur' # 0)
                           /\ (cur' # 0 => (Ev.obs.aseq = aseq' /\ Ev.obs.advc = objadv'[cur']))
                           /\ Ev.obs.applied = applied'
                           /\ Ev.obs.parked = (IF DOMAIN parked' = {} THEN 0 ELSE LET RECURSIVE Sum(_) Sum(S) == IF S = {} THEN 0 ELSE LET g == CHOOSE x \in S : TRUE IN parked'[g] + Sum(S \ {g}) IN Sum(DOMAIN parked'))]_tvars
\* the neighbour's routes in the forwarder (the register / unregister commands of R replayed by the harness): all three on the
\* face the module says, none once the neighbour is gone
T_C18a_routes == [][Live => { <<Ev.obs.nroutes[k][1], Ev.obs.nroutes[k][2]>> : k \in 1..Len(Ev.obs.nroutes) }
                            = (IF cur' # 0 /\ nface' # 0 THEN { <<"adv", nface'>>, <<"sync", nface'>>, <<"pfx", nface'>> } ELSE {})
                              \cup (IF applied' # 0 THEN { <<"dst", nface'>> } ELSE {})]_tvars      \* the installed route follows the face too
I_C18a_routes == RoutesFollowFace
\* P's side as the harness sees it: the number announced and the content published
T_C18a_pub == [][(Is("pchange") \/ Is("pbeat")) => (Ev.pseq = pseq' /\ Ev.pcont = pcont')]_tvars
\* a fetch leaves exactly when the number is still the one known; Data is accepted only for a pending fetch of the
\* number currently known; a queued update released is one the module has queued; a neighbour is removed only when silent
T_C18a_fetch == [][Is("rfetch") => (Ev.s \in fq => Ev.sent = (cur # 0 /\ aseq = Ev.s))]_tvars
T_C18a_data  == [][Is("rdata") => RD_ok(Ev.s, Ev.n)]_tvars
T_C18a_rib   == [][Is("rrib") => (Ev.g \in DOMAIN parked /\ parked[Ev.g] > 0)]_tvars
T_C18a_dead  == [][Is("rdead") => /\ (Ev.removed => (cur # 0 /\ now - seen >= DeadInt - 1))
                                  /\ (~Ev.removed => (cur = 0 \/ now - seen <= DeadInt + 1))]_tvars
\* nothing of a removed neighbour comes back through an update queued before the removal (C18: withdrawn, not lingering)
T_C18a_noresurrect == NoResurrect
\* nothing stale sticks: R knows P's latest number and nothing is under way => R routes on P's latest advertisement
I_C18a_quiet == QuiescentCorrect
\* after the lossless settle rounds at the end of an execution R is quiescent and up to date (convergence)
T_C18a_settle == [][Is("settled") => (Quiescent /\ applied = pcont /\ Ev.obs.applied = pcont)]_tvars
====
