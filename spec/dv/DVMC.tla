---- MODULE DVMC ----
EXTENDS DV
CONSTANTS Mode, Topo, Ups   \* Mode: "route" | "log" | "install" ; Topo: "all" | a named graph ; Ups: links may also be (re)added
Graphs == [ring4 |-> { {1,2}, {2,3}, {3,4}, {4,1} }, line4 |-> { {1,2}, {2,3}, {3,4} }, star4 |-> { {1,2}, {1,3}, {1,4} },
           full4 |-> { {1,2}, {1,3}, {1,4}, {2,3}, {2,4}, {3,4} }, tail4 |-> { {1,2}, {2,3}, {3,1}, {3,4} }, diag4 |-> { {1,2}, {2,3}, {3,4}, {4,1}, {1,3} },
           line2 |-> { {1,2} }, tri3 |-> { {1,2}, {2,3}, {3,1} }, line3 |-> { {1,2}, {2,3} },
           ring5 |-> { {1,2}, {2,3}, {3,4}, {4,5}, {5,1} }, line5 |-> { {1,2}, {2,3}, {3,4}, {4,5} } ]
AllPairs == { p \in SUBSET R : Cardinality(p) = 2 }
Init == \E L \in (IF Topo = "all" THEN { X \in SUBSET AllPairs : Connected(X) } ELSE {Graphs[Topo]}) : InitTables(L)
RouteNext == \/ \E r \in R : \E n \in R \ {r} : Fetch(r,n) \/ Dead(r,n)
             \/ \E a \in R : \E b \in R \ {a} : LinkDown(a,b) \/ (Ups /\ LinkUp(a,b))
LogNext == \/ \E q \in {1}, p \in Pfx, ts \in BOOLEAN : Announce(q, p, ts) \/ Withdraw(q, p, ts)
           \/ \E s \in 0..SeqNo(1) : Learn(2, 1, s)
           \/ PeerFetch(2, 1)
InstallNext == \/ \E r \in R : \E n \in R \ {r} : (Fetch(r,n) \/ Dead(r,n))
               \/ \E a \in R : \E b \in R \ {a} : LinkDown(a,b)
               \/ \E r \in R : FibUpdate(r, ImplCmds(r))
               \/ \E p \in Pfx : Announce(2, p, TRUE) /\ TRUE
               \/ Learn(1, 2, SeqNo(2)) \/ PeerFetch(1, 2)
Next == IF Mode = "route" THEN RouteNext ELSE IF Mode = "log" THEN LogNext ELSE InstallNext
Spec == Init /\ [][Next]_vars
FairSpec == Spec /\ \A r \in R : \A n \in R \ {r} : WF_vars(Fetch(r,n)) /\ WF_vars(Dead(r,n))
LogBound == SeqNo(1) <= 6
InstBound == TLCGet("level") <= 7
\* after fibUpdate the registered routes are the prescribed ones
InstallAfterUpdate == [][\A r \in R : (inst'[r] # inst[r]) => inst'[r] = Desired(r)]_vars
====
