#!/bin/sh
# Offline setup: warm the Go build cache for the harness (checks rebuild from /repo on every run anyway).
cd "$(dirname "$0")"
export GOFLAGS=-mod=mod GOPROXY=off GOSUMDB=off GOTOOLCHAIN=local
mkdir -p out evidence
if [ -d harness ] && [ -f harness/go.mod ]; then
  cp /repo/go.sum harness/go.sum
  (cd harness && go1.26.8 test -tags verif -c -o ../out/harness.test . >/dev/null 2>&1) || echo "setup: harness prebuild failed (checks will rebuild and report)"
fi
exit 0
