"""C05 C06 (and the tables part of C08) -- spec/tables (Tables.tla): TLC checks that the implementation-shaped
RIB tree / hash-table FIB refine the abstract map and the flattening for all bounded histories; operation
histories (TLC -simulate + seeded) are applied to the real table.Rib and both real FIBs and every logged
lookup/listing/shape is validated against the abstract state."""
import os, threading, time, json, shutil
from lib import vlib as V

TRACE_CFG = """SPECIFICATION TSpec
CONSTANTS
  M = 2
  Dev = %(dev)s
  TraceFile = "@TRACE@"
"""
MC_CFG = """SPECIFICATION Spec
CONSTANTS
  M = %(m)d
  Dev = {}
  MaxDepth = %(depth)d
  Mode = "%(mode)s"
  Fan = "%(fan)s"
CONSTRAINT Constr
VIEW View
INVARIANTS %(inv)s
CHECK_DEADLOCK FALSE
"""
GEN_CFG = """SPECIFICATION Spec
CONSTANTS
  M = 2
  Dev = {}
  Depth = %(depth)d
  OutDir = "%(out)s"
  Mode = "%(mode)s"
CONSTRAINT Dump
CHECK_DEADLOCK FALSE
"""
INVS = {
    "C05": ["I_C05look", "I_C05strat", "I_C05list", "I_C05slist", "I_C05root", "I_nopanic"],
    "C06": ["I_C06look", "I_C06rib", "I_nopanic"],
    "C08": ["I_C08tbl", "I_nopanic"],
}
MODES = {"C05": ["fib"], "C06": ["rib"], "C08": ["rib", "fib"]}


def match_finding(pid, v):
    last = v["segment"][-1]
    for f in V.open_findings(pid):
        if f["id"] == "F16" and v["rule"] == "I_C05root" and last.get("ev") == "unsets" and last.get("p") == []:
            return f
    return None


def mc_plans(pid, thorough):
    if pid == "C05":
        d = 5 if thorough else 4
        return [("fib-m%d" % m, dict(m=m, depth=d, mode="fib", fan="full", inv="I_C05")) for m in (1, 2, 3)]
    if pid == "C06":
        if thorough:
            return [("rib-full", dict(m=2, depth=3, mode="rib", fan="full", inv="I_C06")),
                    ("rib-reduced", dict(m=2, depth=4, mode="rib", fan="reduced", inv="I_C06"))]
        return [("rib-full", dict(m=2, depth=2, mode="rib", fan="full", inv="I_C06")),
                ("rib-reduced", dict(m=2, depth=3, mode="rib", fan="reduced", inv="I_C06"))]
    return [("rib", dict(m=2, depth=2, mode="rib", fan="reduced", inv="I_C06")), ("fib", dict(m=2, depth=3, mode="fib", fan="full", inv="I_C05"))]


def stage(pid, tier, wd, binary, replay=None):
    """runs the tables pipeline for `pid`; returns dict(mc, accepted, events, viols, known, execs, samples)"""
    thorough = tier == "thorough"
    seed = V.seed()
    V.copy_spec("tables", wd)
    mc = {}

    def mc_run(tag, kw):
        cfg = "mc_%s.cfg" % tag
        with open(os.path.join(wd, cfg), "w") as f:
            f.write(MC_CFG % kw)
        mc[tag] = V.tlc(wd, "TablesMC.tla", cfg, workers=max(2, V.NCPU // 3), timeout=3000 if thorough else 900)

    threads = []
    if not replay:
        for tag, kw in mc_plans(pid, thorough):
            th = threading.Thread(target=mc_run, args=(tag, kw))
            th.start()
            threads.append(th)
    rows = []
    nsched = 0
    if replay:
        V.run_harness(binary, "TestTblSched", {"VERIF_OUT": wd, "VERIF_REPLAY": os.path.abspath(replay)})
        rows = V.read_ndjson(os.path.join(wd, "tbl_sched.ndjson"))
    else:
        for mode in MODES[pid]:
            sd = os.path.join(wd, "sched_" + mode)
            os.makedirs(sd)
            depth = 40 if thorough else 25
            with open(os.path.join(wd, "gen_%s.cfg" % mode), "w") as f:
                f.write(GEN_CFG % {"depth": depth, "out": "sched_" + mode, "mode": mode})
            num = 1500 if thorough else 150
            g = V.tlc(wd, "TablesGen.tla", "gen_%s.cfg" % mode, workers=1, timeout=900, simulate="num=%d" % num, depth=depth + 2, tseed=seed)
            k = len([x for x in os.listdir(sd) if x.endswith(".ndjson")])
            if k == 0:
                raise V.Machinery("TLC generated no table histories:\n" + g.out[-2000:])
            nsched += k
            V.run_harness(binary, "TestTblSched", {"VERIF_OUT": wd, "VERIF_SCHED": sd}, timeout=1800)
            rows += V.read_ndjson(os.path.join(wd, "tbl_sched.ndjson"))
            V.run_harness(binary, "TestTblGen", {"VERIF_OUT": wd, "VERIF_MODE": mode, "VERIF_N": 3000 if thorough else 300, "VERIF_LEN": 40 if thorough else 30}, timeout=1800)
            rows += V.read_ndjson(os.path.join(wd, "tbl_gen.ndjson"))
    if not rows:
        raise V.Machinery("no table trace recorded")
    execs = V.split_executions(rows)
    chunks, cur = [], []
    for (_, ex) in execs:
        if len(cur) + len(ex) > 20000:
            chunks.append(cur)
            cur = []
        cur += ex
    if cur:
        chunks.append(cur)

    def validate(dev):
        acc, evs, vs = 0, 0, []
        for ci, ch in enumerate(chunks):
            r = V.validate_trace(wd, ch, "TablesTrace.tla", TRACE_CFG % {"dev": dev}, [], invariants=INVS[pid], label="tbl%d" % ci, timeout=1800, max_viol=60)
            if r["blocked"]:
                raise V.Machinery("table trace not followable by the module (drift): %s" % json.dumps(r["blocked"])[:1500])
            acc += r["accepted_execs"]
            evs += r["events"]
            vs += r["violations"]
        return acc, evs, vs

    accepted, events, viols = validate("{}")
    # open findings are matched by signature (the specific rule + input that fails); anything else is a violation
    known, rest = {}, []
    for v in viols:
        f = match_finding(pid, v)
        if f:
            known[f["id"]] = f
        else:
            rest.append(v)
    viols, known = rest, list(known.values())
    for th in threads:
        th.join()
    for tag, x in mc.items():
        if x.status != "ok":
            raise V.Machinery("model checking of Tables (%s) did not pass: %s %s %s\n%s" % (tag, x.status, x.kind, x.name, x.out[-2500:]))
    return dict(mc=mc, accepted=accepted, events=events, viols=viols, known=known, execs=execs, nsched=nsched)


def nontrivial(pid, ex):
    for r in ex:
        e = r.get("ev")
        if pid == "C05" and e in ("rem", "clr", "unsets"):
            return True
        if pid == "C06" and e in ("unreg", "cleanup") and len(r.get("rib", [])) > 0:
            return True
        if pid == "C08" and e in ("unreg", "cleanup", "rem", "clr", "unsets"):
            return True
    return False


def strip(ex):
    out = []
    for r in ex:
        r = dict(r)
        if "look" in r:
            r["look"] = r["look"][:3]
        out.append(r)
    return out


def run(pid, tier, replay=None):
    t0 = time.time()
    wd = V.workdir(pid)
    binary = V.build_harness(wd)
    s = stage(pid, tier, wd, binary, replay)
    rc = 0
    for f in s["known"]:
        print("KNOWN-FINDING: property=%s %s" % (pid, f["what"]))
    for v in s["viols"]:
        path = V.save_violation(pid, v["segment"], {"rule": v["rule"], "event": strip([v["segment"][-1]])[0], "model_state": v["state"]})
        print("VIOLATION property=%s replay=%s" % (pid, path))
        V.log("  rule %s violated at event %d of an execution: %s" % (v["rule"], v["index"], json.dumps(strip([v["segment"][-1]])[0])[:500]))
        rc = 1
    mc = s["mc"]
    V.write_evidence(pid, tier, "model_checking", {
        "states": max(1, sum(x.distinct for x in mc.values())), "transitions": max(1, sum(x.generated for x in mc.values())),
        "traces_validated_against_impl": s["accepted"], "evaluations": s["events"],
        "distinct_nontrivial": sum(1 for (_, ex) in s["execs"] if nontrivial(pid, ex)),
        "rule": "operation histories (TLC -simulate of TablesGen + seeded generator) applied to the real table.Rib / FibStrategyTree / FibStrategyHashTable(m in 1..6); "
                "after every operation lookups for 13 names, both listings and the structure shapes are validated by TLC against Tables with invariants %s; "
                "non-trivial = history contains a removal (C05: rem/clr/unsets; C06: unreg/cleanup with routes present)" % " ".join(INVS[pid]),
        "samples": [strip(ex[:4]) for (_, ex) in s["execs"][:2]], "tlc_schedules": s["nsched"],
        "known_findings": [f["id"] for f in s["known"]],
        "model_checking": {k: {"distinct": x.distinct, "generated": x.generated, "depth": x.depth, "wall_s": round(x.wall, 1)} for k, x in mc.items()},
        "checker_cmd": "tlc TablesMC.tla (refinement, exhaustive depth-bounded) ; tlc -workers 1 TablesTrace.tla (trace validation)", "exhaustive": False},
        time.time() - t0, violations=len(s["viols"]),
        assumptions=["TLC, JVM, Go runtime trusted", "universe: 8 prefixes (depths 0..6, gaps, siblings), 13 lookup names, faces 1..3, hash-table m in 1..6",
                     "RIB and direct FIB operations are exercised in separate histories (the daemon's RIB owns the entries it flattens)"])
    if rc == 0:
        shutil.rmtree(wd, ignore_errors=True)
    return rc
