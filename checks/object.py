"""C15 -- spec/object (ObjectFetch.tla): versioned segmented objects, consumer completion, stores."""
from lib import vlib as V

MC = """SPECIFICATION FairSpec
CONSTANTS NSeg = %d Window = %d Retries = 2 MaxLoss = %d
INVARIANTS AtMostOnce CompleteMeansAll InOrderNoDup WindowRespected NeverFailsWithinBudget
PROPERTY EventuallyDone
CHECK_DEADLOCK FALSE
"""
HEAD = """SPECIFICATION TSpec
CONSTANTS NSeg = 3 Window = 2 Retries = 2 MaxLoss = 2 TraceFile = "@TRACE@"
"""


def nontrivial(ex):
    return any(r.get("ev") == "consume" and r.get("err") == "" for r in ex) or any(r.get("ev") == "get" and r.get("got", -1) >= 0 for r in ex)


def run(pid, tier, replay=None):
    th = tier == "thorough"
    mcs = [("w2", "ObjectMC.tla", MC % (3, 2, 2), 4, 900), ("w3", "ObjectMC.tla", MC % (4, 3, 2), 6, 900), ("lossy", "ObjectMC.tla", MC % (3, 2, 4), 4, 900)]
    SCHED = """SPECIFICATION Spec
CONSTANTS Streams = {%s} Dev = {} Segs = 2 Window = %d
INVARIANTS ScanBounded ListConsistent WindowRespected
PROPERTY ScanTerminates
CHECK_DEADLOCK FALSE
"""
    mcs.append(("sched", "FetchSchedMC.tla", SCHED % ("a, b, c", 3), 4, 900))
    if th:
        mcs.append(("sched4", "FetchSchedMC.tla", SCHED % ("a, b, c, d", 4), 8, 2400))
        mcs.append(("w4", "ObjectMC.tla", MC % (6, 4, 2), 8, 2400))
    try:
        return _run(pid, tier, replay, th, mcs)
    except V.Hang as h:
        # "the callback reports completion exactly once": a consume run that spins forever never reports one
        import os, shutil
        d = os.path.join(V.VERIF, "out", pid)
        os.makedirs(d, exist_ok=True)
        path = os.path.join(d, "hang-%d.json" % os.getpid())
        shutil.copy(os.path.join(h.outdir, "hang.json"), path)
        for f in ("obj.ndjson",):
            if os.path.exists(os.path.join(h.outdir, f)):
                shutil.copy(os.path.join(h.outdir, f), path + "." + f)
        print("VIOLATION property=%s replay=%s" % (pid, path))
        V.log("  no completion: the object client stopped making progress (livelock) at %s" % h.info.get("at"))
        return 1


def _run(pid, tier, replay, th, mcs):
    return V.pipeline(
        pid, tier, None, "object", mc_runs=mcs, gens=[],
        drivers=[("TestObjGen", {"VERIF_N": 3000 if th else 300, "VERIF_LEN": 10 if th else 8}, ["obj.ndjson"]),
                 ("TestStoreGen", {"VERIF_N": 800 if th else 80, "VERIF_LEN": 60 if th else 40}, ["store.ndjson"])],
        replay_driver=None, trace_module="ObjTrace.tla", trace_head=HEAD,
        props=["P_C15consume", "P_C15get", "T_nopanic"], invs=[], nontrivial=nontrivial,
        rule_text="(a) producer and consumer object.Clients on real basic.Engines (dummy faces/timers) in one synctest bubble, the harness relaying, shuffling and dropping "
                  "first copies inside the retry budget; contents of 1, 2, 7999, 8000, 8001, k*8000+-1 ... 96000 bytes in random buffer splits, versions 0..2^24, 1..n versions per object, "
                  "memory and bolt stores, removals; each consume run judged by ConsumeOK (one completion, newest version byte for byte, in-order chunks); "
                  "(b) put/get/remove/begin/commit/rollback histories on both stores judged against the abstract store; non-trivial = a consume that returned content / a get that found a packet",
        assumptions=["TLC, JVM, Go runtime, testing/synctest, bbolt trusted", "losses stay within the retry budget (beyond it an error completion is the expected outcome, covered by the model only)",
                     "bolt's 1000-key scan limit under one prefix is a documented bound of the store and is not exercised"])
