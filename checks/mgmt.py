"""C17 -- spec/mgmt (Mgmt.tla): management commands on a whole node (real mgmt thread, forwarding thread, faces)."""
import os
import re
from lib import vlib as V

MC = """SPECIFICATION Spec
CONSTANTS MinMtu = 128 MaxCap = 65536 MaxDepth = %d
CONSTRAINT Constr
VIEW View
INVARIANTS RootStrategy RoutesOnExistingFaces MtuSane OnlyAuthorised QuerySane AttrsOfLiveFaces PersSane
PROPERTY P_C17auth
CHECK_DEADLOCK FALSE
"""
HEAD = """SPECIFICATION TSpec
CONSTANTS MinMtu = 128 MaxCap = 65536 TraceFile = "@TRACE@"
"""
PROPS = ["T_C17nocrash", "T_C17status", "T_C17auth"]
INVS = ["I_C17routes", "I_C17strats", "I_C17cap", "I_C17fib", "I_C17faces", "I_C17fprop", "I_C17ds", "I_C17ds2", "I_C17query", "I_C17gen", "I_C17ctr", "I_C17usable"]


def nontrivial(ex):
    return any(r.get("ev") == "cmd" and r["o"]["status"] == "200" for r in ex)


def run(pid, tier, replay=None):
    th = tier == "thorough"
    try:
        return V.pipeline(
            pid, tier, replay, "mgmt", mc_runs=[("hist", "MgmtMC.tla", MC % (4 if th else 3), 8, 2400)], gens=[],
            drivers=[("TestMgmtGen", {"VERIF_N": 1500 if th else 48, "VERIF_LEN": 30 if th else 25}, ["mgmt.ndjson"])],
            replay_driver=("TestMgmtReplay", "VERIF_REPLAY", "mgmt.ndjson"), trace_module="MgmtTrace.tla", trace_head=HEAD,
            props=PROPS, invs=INVS, nontrivial=nontrivial,
            rule_text="a whole node in one synctest bubble: the real management thread on its internal face, a real forwarding thread (so the /localhost and "
                      "/localhop scope rules in front of management are exercised), a local and a non-local requester face and two UDP-like faces over "
                      "in-memory transports, both FIB implementations, /localhop management on and off; random histories of rib/fib/strategy-choice/cs/faces (update, destroy) "
                      "commands with every field present/absent/boundary (face missing/0/absent, strategy bare/unknown/bad version/foreign/empty, capacity "
                      "0..2^64-1, MTU 0..2^32), wrong prefixes, non-local arrival, missing or undecodable parameters, unknown verbs. After each command: status "
                      "(StatusOK), RIB/FIB/strategy/CS capacity/face MTUs against the model, rib/list, strategy-choice/list, fib/list, faces/list and cs/info datasets against the tables, "
                      "a 300-byte packet sent on each target face must leave in MTU-sized frames that reassemble; no goroutine may panic; state changes only by authorised commands",
            assumptions=["TLC, JVM, Go runtime, testing/synctest trusted", "faces are link services over in-memory transports (URI schemes udp4/unix/fd): socket-level face creation (faces/create) is not driven",
                         "an MTU of 1..127 may be refused or accepted by an implementation (what is decided is that the face stays usable); 128 and above must be accepted"])
    except V.Machinery as e:
        # a panic in a goroutine of the daemon itself (not under the driver's guard) takes the driver process down:
        # that is real behaviour of the code under test, reported as a violation with the process output as evidence
        txt = str(e)
        m = re.search(r"panic: .*?\n\ngoroutine \d+.*?\n((?:.*\n){1,12})", txt)
        crashed = m and "github.com/named-data/ndnd/fw" in m.group(1).split("\n")[0] + m.group(1)
        # core.LogFatal terminates the daemon: the forwarder gave up while serving a command or the traffic that followed it
        fatal = re.search(r"FATAL.{0,40}\[[^\]]*\] .*", txt)
        if crashed or fatal:
            os.makedirs(os.path.join(V.VERIF, "out", pid), exist_ok=True)
            path = os.path.join(V.VERIF, "out", pid, "daemon-crash-%d.txt" % os.getpid())
            with open(path, "w") as f:
                f.write(txt)
            print("VIOLATION property=%s replay=%s" % (pid, path))
            V.log("  the daemon %s while serving a management history" % ("crashed (unguarded goroutine)" if crashed else "terminated itself: " + fatal.group(0)[:200]))
            return 1
        raise
