"""C20 -- spec/engine (AppEngine.tla): exactly-once resolution in the application engine."""
from lib import vlib as V

MC = """SPECIFICATION Spec
CONSTANTS
  Dev = {}
  MaxDepth = %d
CONSTRAINT Constr
VIEW View
INVARIANTS ExactlyOnce AllResolved
PROPERTIES P_C20
CHECK_DEADLOCK FALSE
"""
GEN = """SPECIFICATION Spec
CONSTANTS
  Dev = {}
  Depth = %d
  OutDir = "sched"
CONSTRAINT Dump
CHECK_DEADLOCK FALSE
"""
HEAD = """SPECIFICATION TSpec
CONSTANTS
  Dev = {}
  TraceFile = "@TRACE@"
"""


def nontrivial(ex):
    return any(r.get("ev") in ("data", "nack", "adv") and len(r.get("fired", [])) > 0 for r in ex)


def run(pid, tier, replay=None):
    th = tier == "thorough"
    return V.pipeline(
        pid, tier, replay, "engine",
        mc_runs=[("d", "AppEngineMC.tla", MC % (5 if th else 4), V.NCPU, 3000)],
        gens=[("EngGen.tla", GEN % (60 if th else 40), "sched", 1500 if th else 150, 60 if th else 40)],
        drivers=[("TestEngSched", {"VERIF_SCHED": "@sched"}, ["eng_sched.ndjson"]),
                 ("TestEngGen", {"VERIF_N": 3000 if th else 300, "VERIF_LEN": 60 if th else 40}, ["eng_gen.ndjson"]),
                 ("TestEngHammer", {"VERIF_N": 24 if th else 4, "VERIF_LEN": 600 if th else 300}, ["eng_hammer.ndjson"], {"race": True})],
        replay_driver=("TestEngSched", "VERIF_REPLAY", "eng_sched.ndjson"),
        trace_module="EngTrace.tla", trace_head=HEAD,
        props=["P_C20", "T_C20known", "T_C20rid", "T_C20hammer", "T_nopanic"], invs=["ExactlyOnce", "AllResolved"],
        nontrivial=nontrivial,
        rule_text="executions of the real basic.Engine on a dummy face (2/3 with the dummy timer, 1/3 with the real basic.Timer inside a synctest bubble); "
                  "schedules from TLC -simulate of EngGen and a seeded generator over nested names /a /a/b /a/b/c /d with duplicates, CanBePrefix, implicit digests, "
                  "Data/Nack arrivals, clock advances, attach/detach histories, incoming Interests and delayed replies, Interests expressed from inside callbacks; "
                  "a free-running hammer (8 goroutines on one engine, real timer, race detector) judged at quiescence; non-trivial = some callback fired",
        assumptions=["TLC, JVM, Go runtime and testing/synctest trusted", "time in 100 ms ticks; the engine's 10 ms timeout margin is below one tick",
                     "the dummy face delivers packets synchronously on the harness goroutine"])
