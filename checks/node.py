"""Node stage of C01 C02 C08 C09 -- spec/forwarder/Node.tla: the whole forwarder (NT real forwarding threads in loop mode
behind the real dispatch of real NDNLPv2 link services). TLC checks Node over every hash function of a small name
universe; executions of the real node are validated against NodeTrace, rule by rule."""
import os, threading, json
from lib import vlib as V

RULES = {
    "C01": ["T_nopanic", "T_N01dispatch", "T_N01copies", "T_N01hit", "T_N01tok", "T_N01same"],
    "C02": ["T_nopanic", "T_N02hash", "T_N02noI", "T_N01tok"],
    "C08": ["T_nopanic", "T_N08quiet"],
    "C09": ["T_nopanic", "T_N09scope"],
}
MC_CFG = """SPECIFICATION Spec
CONSTANTS
  NT = %(nt)d
  Faces = {1,2,3,4}
  LocalFaces = {1,2}
  Life = 1
  Dev = %(dev)s
  MaxDepth = %(depth)d
  WithRoot = %(root)s
CONSTRAINT Constr
VIEW View
PROPERTIES P_Node
CHECK_DEADLOCK FALSE
"""
TRACE_CFG = """SPECIFICATION TSpec
CONSTANTS
  Faces = {1,2,3,4,5}
  LocalFaces = {1,2}
  Life = 2
  Dev = %(dev)s
  TraceFile = "@TRACE@"
"""
# the code as it stands: the open finding F48 (Interests with the empty name) is a named deviation of the model
CODE_DEV = '{"RootSkipped"}'


def match_finding(pid, v, wd):
    """F48: the violation is about Interests with the EMPTY name only -- decided by the specification itself: the same
    execution is accepted when exactly the records of empty-name Interests are exempted (Dev = {"RootSkipped"})."""
    if v["rule"] not in ("T_N01dispatch", "T_N01copies"):
        return None
    for f in V.open_findings(pid):
        if f["id"] != "F48":
            continue
        seg = v["segment"]
        if not any(r.get("ev") == "I" and r["i"]["n"] == [] for r in seg):
            return None
        r = V.validate_trace(wd, seg, "NodeTrace.tla", TRACE_CFG % {"dev": CODE_DEV}, RULES[pid], label="f48", timeout=600, max_viol=1)
        if not r["blocked"] and not r["violations"]:
            return f
    return None


def nontrivial(pid, ex):
    for r in ex:
        e = r.get("ev")
        if pid == "C01" and e == "D" and len(r["o"]["D"]) > 0 and len(r["o"]["T"]) > 0:
            return True
        if pid == "C02" and e == "I" and len(r["o"]["up"]) > 0:
            return True
        if pid == "C08" and e == "Q":
            return True
        if pid == "C09" and e in ("I", "D") and r["i"]["n"][:1] == ["localhost"]:
            return True
    return False


def stage(pid, tier, wd, binary, replay=None):
    """returns dict(mc, accepted, events, viols, known, execs)"""
    thorough = tier == "thorough"
    os.makedirs(wd, exist_ok=True)
    V.copy_spec("forwarder", wd)
    mc, neg = {}, {}

    def mc_run(store, tag, kw, workers):
        cfg = "mcn_%s.cfg" % tag
        with open(os.path.join(wd, cfg), "w") as f:
            f.write(MC_CFG % kw)
        store[tag] = V.tlc(wd, "NodeMC.tla", cfg, workers=workers, timeout=3000 if thorough else 600)

    threads = []
    if not replay:
        plans = [("node2", dict(nt=2, dev=CODE_DEV, depth=4 if thorough else 3, root="TRUE"), 6)]
        if thorough:
            plans.append(("node3", dict(nt=3, dev=CODE_DEV, depth=3, root="TRUE"), 6))
        for tag, kw, wk in plans:
            th = threading.Thread(target=mc_run, args=(mc, tag, kw, wk))
            th.start()
            threads.append(th)
        # negative control: the dispatch as shipped (token-less Data from a non-local face reaches one thread) must be refuted
        th = threading.Thread(target=mc_run, args=(neg, "shipped", dict(nt=2, dev='{"RootSkipped", "ExactOnlyNonLocal"}', depth=3, root="FALSE"), 2))
        th.start()
        threads.append(th)
    if replay:
        V.run_harness(binary, "TestNodeReplay", {"VERIF_OUT": wd, "VERIF_REPLAY": os.path.abspath(replay)})
        rows = V.read_ndjson(os.path.join(wd, "node_replay.ndjson"))
    else:
        V.run_harness(binary, "TestNodeGen", {"VERIF_OUT": wd, "VERIF_N": 480 if thorough else 48, "VERIF_LEN": 60 if thorough else 50}, timeout=1800)
        rows = V.read_ndjson(os.path.join(wd, "node_gen.ndjson"))
        os.rename(os.path.join(wd, "node_gen.ndjson"), os.path.join(wd, "node_gen0.ndjson"))
        # a few executions with Interests that have the empty name (open finding F48 lives there)
        V.run_harness(binary, "TestNodeGen", {"VERIF_OUT": wd, "VERIF_N": 24 if thorough else 6, "VERIF_LEN": 50, "VERIF_NODE_ROOT": 1,
                                              "VERIF_SEED": V.seed() + 1000}, timeout=900)
        rows += V.read_ndjson(os.path.join(wd, "node_gen.ndjson"))
    if not rows:
        raise V.Machinery("no node trace recorded")
    execs = V.split_executions(rows)
    r = V.validate_trace(wd, rows, "NodeTrace.tla", TRACE_CFG % {"dev": "{}"}, RULES[pid], label="node", timeout=1800, max_viol=12)
    if r["blocked"]:
        raise V.Machinery("node trace not followable by the module (drift, no property verdict): %s" % json.dumps(r["blocked"])[:1500])
    known, rest = {}, []
    for v in r["violations"]:
        f = match_finding(pid, v, wd)
        if f:
            known[f["id"]] = f
        else:
            rest.append(v)
    for th in threads:
        th.join()
    for tag, x in mc.items():
        if x.status != "ok":
            raise V.Machinery("model checking of Node (%s) did not pass: %s %s %s\n%s" % (tag, x.status, x.kind, x.name, x.out[-2500:]))
    for tag, x in neg.items():
        if not (x.status == "violation" and x.name == "P_Node"):
            raise V.Machinery("negative control of Node (%s): the shipped dispatch was not refuted by TLC: %s\n%s" % (tag, x.status, x.out[-1500:]))
    return dict(mc=mc, accepted=r["accepted_execs"], events=r["events"], viols=rest, known=list(known.values()), execs=execs)
