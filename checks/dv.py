"""C18 C19 -- spec/dv (DV.tla): distance-vector convergence, route installer, replicated prefix log."""
import os, threading, time, json, shutil
from lib import vlib as V

MC = """SPECIFICATION %(spec)s
CONSTANTS N = %(n)d Inf = %(inf)d MaxFaults = %(faults)d Pfx = {1, 2} Thresh = 2 Mode = "%(mode)s" Topo = "%(topo)s" Ups = %(ups)s
INVARIANTS %(inv)s
%(extra)s
CHECK_DEADLOCK FALSE
"""
HEAD = """SPECIFICATION TSpec
CONSTANTS N = %d Inf = 16 MaxFaults = 99 Pfx = {1,2,3,4} Thresh = 100 TraceFile = "@TRACE@"
"""
RV_HEAD = ('SPECIFICATION TSpec\nCONSTANTS Names = {"/p/a", "/p/b", "/q"} FaceIds = {901, 902, 903} Origins = {0, 65, 128} Client = 65 Dev = {} '
           'TraceFile = "@TRACE@"\n')
ADV_HEAD = 'SPECIFICATION TSpec\nCONSTANTS DeadInt = 30 Life = 4 Fresh = 999 Dev = {} TraceFile = "@TRACE@"\n'
ADV_PROPS = ["T_nopanic", "T_C18a_state", "T_C18a_pub", "T_C18a_fetch", "T_C18a_data", "T_C18a_rib", "T_C18a_dead", "T_C18a_noresurrect", "T_C18a_routes", "T_C18a_settle"]
INVS = {"C18": ["I_C18adv", "I_C18choice", "I_C18fix", "I_C18bound"], "C19": ["I_C19inst", "I_C19log", "I_C19seq"]}


def mc_plans(pid, th):
    P = []
    if pid == "C18":
        P.append(("all3-live", dict(spec="FairSpec", n=3, inf=5, faults=1, mode="route", topo="all", ups="TRUE", inv="NoInfAdvert FixedPointCorrect ChoiceOK", extra="PROPERTY Converges"), 8, 900))
        P.append(("all2-live", dict(spec="FairSpec", n=2, inf=4, faults=1, mode="route", topo="all", ups="TRUE", inv="NoInfAdvert FixedPointCorrect ChoiceOK", extra="PROPERTY Converges"), 2, 300))
        topos = ["ring4", "line4", "star4", "full4", "tail4", "diag4"] if th else ["ring4", "tail4"]
        for t in topos:
            P.append((t, dict(spec="Spec", n=4, inf=6, faults=1, mode="route", topo=t, ups="FALSE", inv="NoInfAdvert FixedPointCorrect ChoiceOK", extra=""), 6, 1500))
        if th:
            for t in ["ring5", "line5"]:
                P.append((t, dict(spec="Spec", n=5, inf=7, faults=1, mode="route", topo=t, ups="FALSE", inv="NoInfAdvert FixedPointCorrect ChoiceOK", extra=""), 8, 2400))
    else:
        P.append(("log", dict(spec="Spec", n=2, inf=5, faults=0, mode="log", topo="line2", ups="FALSE", inv="LogReplicates CaughtUpEqual SnapshotSound AnnIsLog", extra="CONSTRAINT LogBound"), 6, 900))
        P.append(("install", dict(spec="Spec", n=3, inf=5, faults=1, mode="install", topo="tri3", ups="FALSE", inv="NoInfAdvert", extra="PROPERTY InstallAfterUpdate\nCONSTRAINT InstBound"), 8, 900))
    return P


def nontrivial(pid, ex):
    if pid == "C18":
        return any(r.get("ev") in ("down", "dead") for r in ex) or any(r.get("ev") == "rdead" and r.get("removed") for r in ex) \
            or any(r.get("ev") == "rdata" and r.get("n", 0) > 0 for r in ex)
    return any(r.get("ev") == "sync" and len(r.get("set", [])) > 0 for r in ex) or any(len(r.get("cmds", [])) > 0 for r in ex) \
        or any(r.get("ev") == "dlv" and any(len(u) > 0 for u in r.get("upd", [])) for r in ex) \
        or any(r.get("ev") == "attempt" and not r.get("ok") for r in ex) \
        or any("dvann" in r and len(r.get("cmds", [])) > 0 for r in ex)


def run(pid, tier, replay=None):
    t0 = time.time()
    th = tier == "thorough"
    wd = V.workdir(pid)
    V.copy_spec("dv", wd)
    mc = {}

    def mc_run(tag, kw, workers, tmo):
        cfg = "mc_%s.cfg" % tag
        with open(os.path.join(wd, cfg), "w") as f:
            f.write(MC % kw)
        mc[tag] = V.tlc(wd, "DVMC.tla", cfg, workers=workers, timeout=tmo)

    def mc_all():
        for p in mc_plans(pid, th):   # sequentially: they are heavy
            mc_run(*p)

    bg = None
    if not replay:
        bg = threading.Thread(target=mc_all)
        bg.start()
    binary = V.build_harness(wd)
    traces = []   # (n, rows)
    if replay and any(r.get("ev") in ("pchange", "rsync") for r in V.read_ndjson(replay)):      # a segment of the adv stage
        V.run_harness(binary, "TestDvAdvReplay", {"VERIF_OUT": wd, "VERIF_REPLAY": os.path.abspath(replay)})
        rows = V.read_ndjson(os.path.join(wd, "dvadv_replay.ndjson"))
        r = V.validate_trace(wd, rows, "DVAdvTrace.tla", ADV_HEAD, [p for p in ADV_PROPS if p != "T_C18a_settle"], invariants=["I_C18a_quiet", "I_C18a_routes"], label="advr", timeout=600)
        if r["blocked"]:
            raise V.Machinery("advertisement-exchange trace not followable (drift): %s" % json.dumps(r["blocked"])[:1500])
        for v in r["violations"]:
            path = V.save_violation(pid, v["segment"], {"rule": v["rule"], "event": v["segment"][-1], "model_state": v["state"]})
            print("VIOLATION property=%s replay=%s" % (pid, path))
        return 1 if r["violations"] else 0
    if replay and any("dvann" in r for r in V.read_ndjson(replay)):      # a segment of the readv stage
        V.copy_spec("readv", wd)
        V.run_harness(binary, "TestReadvReplay", {"VERIF_OUT": wd, "VERIF_REPLAY": os.path.abspath(replay)})
        rows = V.read_ndjson(os.path.join(wd, "readv_replay.ndjson"))
        r = V.validate_trace(wd, rows, "ReadvTrace.tla", RV_HEAD, [], invariants=["I_C19r_ann", "I_C19r_rib", "I_C19r_ok", "CountIsClientRoutes"], label="readvr", timeout=600)
        if r["blocked"]:
            raise V.Machinery("readvertise trace not followable (drift): %s" % json.dumps(r["blocked"])[:1500])
        for v in r["violations"]:
            path = V.save_violation(pid, v["segment"], {"rule": v["rule"], "event": v["segment"][-1], "model_state": v["state"]})
            print("VIOLATION property=%s replay=%s" % (pid, path))
        return 1 if r["violations"] else 0
    if replay and any(r.get("ev") == "issue" for r in V.read_ndjson(replay)):      # a segment of the nfdc stage
        V.run_harness(binary, "TestNfdcReplay", {"VERIF_OUT": wd, "VERIF_REPLAY": os.path.abspath(replay)})
        rows = V.read_ndjson(os.path.join(wd, "nfdc_replay.ndjson"))
        r = V.validate_trace(wd, rows, "NfdcTrace.tla", 'SPECIFICATION TSpec\nCONSTANTS Dev = {} TraceFile = "@TRACE@"\n',
                             ["T_C19q_fifo", "T_C19q_same", "T_C19q_final"], invariants=["I_C19q_order"], label="nfdcr", timeout=600)
        if r["blocked"]:
            raise V.Machinery("nfdc trace not followable (drift): %s" % json.dumps(r["blocked"])[:1500])
        for v in r["violations"]:
            path = V.save_violation(pid, v["segment"], {"rule": v["rule"], "event": v["segment"][-1], "model_state": v["state"]})
            print("VIOLATION property=%s replay=%s" % (pid, path))
        return 1 if r["violations"] else 0
    if replay:
        V.run_harness(binary, "TestDvSched", {"VERIF_OUT": wd, "VERIF_REPLAY": os.path.abspath(replay)})
        meta = json.load(open(os.path.join(wd, "dv_sched.meta.json")))
        traces.append((meta["n"], V.read_ndjson(os.path.join(wd, "dv_sched.ndjson"))))
    else:
        plan = [(2, 6, 20), (3, 16, 40), (4, 76, 50), (5, 30, 50), (6, 12, 50)] if th else [(3, 8, 30), (4, 38, 40), (5, 8, 40)]
        for (n, nex, ln) in plan:
            V.run_harness(binary, "TestDvGen", {"VERIF_OUT": wd, "VERIF_DVN": n, "VERIF_N": nex, "VERIF_LEN": ln}, timeout=3000)
            traces.append((n, V.read_ndjson(os.path.join(wd, "dv_n%d.ndjson" % n))))
    accepted, events, viols, execs_all = 0, 0, [], []
    for (n, rows) in traces:
        execs = V.split_executions(rows)
        execs_all += execs
        chunks, cur = [], []
        for (_, ex) in execs:
            if cur and len(cur) + len(ex) > 12000:
                chunks.append(cur)
                cur = []
            cur += ex
        if cur:
            chunks.append(cur)
        for ci, ch in enumerate(chunks):
            r = V.validate_trace(wd, ch, "DVTrace.tla", HEAD % n, [], invariants=INVS[pid], label="dv%d_%d" % (n, ci), timeout=3000)
            if r["blocked"]:
                raise V.Machinery("DV trace not followable (drift): %s" % json.dumps(r["blocked"])[:1500])
            accepted += r["accepted_execs"]
            events += r["events"]
            viols += r["violations"]
    # ---- the notification layer under the prefix log: State Vector Sync (spec/sync/SvSync.tla)
    if pid == "C19" and not replay:
        V.copy_spec("sync", wd)
        SV_MC = "SPECIFICATION %s\nCONSTANTS Nodes = {%s} MaxSeq = %d MaxNet = %d\n%sINVARIANTS NoPhantom UpdatesExact\nPROPERTIES Monotone %s\nCHECK_DEADLOCK FALSE\n"
        plans = [("svs-live2", SV_MC % ("FairSpec", "1, 2", 1, 99, "", "EventuallyConsistent"), 2, 600),
                 ("svs-safe2", SV_MC % ("Spec", "1, 2", 2, 99, "", ""), 6, 900)]
        if th:
            plans.append(("svs-safe3", SV_MC % ("Spec", "1, 2, 3", 1, 4, "CONSTRAINT NetBound\n", ""), 8, 2400))
        for (tag, cfgtext, workers, tmo) in plans:
            with open(os.path.join(wd, "mc_%s.cfg" % tag), "w") as f:
                f.write(cfgtext)
            mc[tag] = V.tlc(wd, "SvSyncMC.tla", "mc_%s.cfg" % tag, workers=workers, timeout=tmo)
        V.run_harness(binary, "TestSvsGen", {"VERIF_OUT": wd, "VERIF_N": 300 if th else 40, "VERIF_LEN": 60 if th else 40}, timeout=3000)
        rows = V.read_ndjson(os.path.join(wd, "svs.ndjson"))
        sv_execs = V.split_executions(rows)
        execs_all += sv_execs
        head = 'SPECIFICATION TSpec\nCONSTANTS Nodes = {1, 2, 3} MaxSeq = 99 TraceFile = "@TRACE@"\n'
        r = V.validate_trace(wd, rows, "SvTrace.tla", head, ["T_C19svs_upd", "T_C19svs_pubup"],
                             invariants=["I_C19svs_vec", "I_C19svs_send", "I_C19svs_pub", "I_C19svs_periodic", "I_C19svs_probe", "I_C19svs_settle", "I_C19svs_exact"],
                             label="svs", timeout=3000)
        if r["blocked"]:
            raise V.Machinery("SVS trace not followable (drift): %s" % json.dumps(r["blocked"])[:1500])
        accepted += r["accepted_execs"]
        events += r["events"]
        viols += r["violations"]
    # ---- how advertisements travel (spec/dv/DVAdvert.tla): Sync Interests, debounced fetches, the engine's pending table,
    #      queued ribUpdate goroutines against the dead-neighbour check
    if pid == "C18" and not replay:
        AD_MC = ("SPECIFICATION MSpec\nCONSTANTS DeadInt = 3 Life = 1 Fresh = 1 Dev = %s MaxChanges = %d MaxTime = %d MCFaces = %s\nVIEW MView\nCONSTRAINT GenBound\n"
                 "INVARIANTS Sane QuiescentCorrect RoutesFollowFace\nPROPERTIES NoResurrect\nCHECK_DEADLOCK FALSE\n")
        with open(os.path.join(wd, "mc_adv.cfg"), "w") as f:
            f.write(AD_MC % ("{}", 2, 5 if th else 4, "{7}"))
        mc["adv"] = V.tlc(wd, "DVAdvertMC.tla", "mc_adv.cfg", workers=8, timeout=3000)
        with open(os.path.join(wd, "mc_advf.cfg"), "w") as f:        # two faces, active and passive pings (the face the routes follow)
            f.write(AD_MC % ("{}", 1, 4 if th else 3, "{7, 8}"))
        mc["adv-faces"] = V.tlc(wd, "DVAdvertMC.tla", "mc_advf.cfg", workers=4, timeout=1500)
        for dev in ('{"AcceptOlder"}', '{"KeepAdvertOnRemove"}'):       # negative controls: both deviations must be refuted
            with open(os.path.join(wd, "mc_adv_neg.cfg"), "w") as f:
                f.write(AD_MC % (dev, 2, 4, "{7}"))
            neg = V.tlc(wd, "DVAdvertMC.tla", "mc_adv_neg.cfg", workers=2, timeout=600)
            if neg.status != "violation":
                raise V.Machinery("negative control %s of DVAdvert not refuted: %s\n%s" % (dev, neg.status, neg.out[-1500:]))
        V.run_harness(binary, "TestDvAdvGen", {"VERIF_OUT": wd, "VERIF_N": 600 if th else 60, "VERIF_LEN": 100}, timeout=3000)
        rows = V.read_ndjson(os.path.join(wd, "dvadv.ndjson"))
        ad_execs = V.split_executions(rows)
        execs_all += ad_execs
        for ci in range(0, len(ad_execs), 150):
            ch = [r for (_, ex) in ad_execs[ci:ci + 150] for r in ex]
            r = V.validate_trace(wd, ch, "DVAdvTrace.tla", ADV_HEAD, ADV_PROPS, invariants=["I_C18a_quiet", "I_C18a_routes"], label="adv%d" % ci, timeout=3000)
            if r["blocked"]:
                raise V.Machinery("advertisement-exchange trace not followable (drift): %s" % json.dumps(r["blocked"])[:1500])
            accepted += r["accepted_execs"]
            events += r["events"]
            viols += r["violations"]
    # ---- the command worker between the installer and the forwarder (spec/dv/NfdcQueue.tla)
    if pid == "C19" and not replay:
        NQ_MC = "SPECIFICATION MSpec\nCONSTANTS Dev = %s MaxCmds = %d MaxFail = %d\nVIEW MView\nINVARIANTS FwdIsIssueOrder InstalledAtQuiescence\nPROPERTIES P_C19queue\nCHECK_DEADLOCK FALSE\n"
        with open(os.path.join(wd, "mc_nfdc.cfg"), "w") as f:
            f.write(NQ_MC % ("{}", 4 if th else 3, 3 if th else 2))
        mc["nfdc"] = V.tlc(wd, "NfdcMC.tla", "mc_nfdc.cfg", workers=6, timeout=1500)
        with open(os.path.join(wd, "mc_nfdc_neg.cfg"), "w") as f:       # negative control: re-queueing a failed command must be refuted
            f.write(NQ_MC % ('{"RequeueOnFailure"}', 3, 2))
        neg = V.tlc(wd, "NfdcMC.tla", "mc_nfdc_neg.cfg", workers=2, timeout=600)
        if neg.status != "violation":
            raise V.Machinery("negative control of NfdcQueue not refuted: %s\n%s" % (neg.status, neg.out[-1500:]))
        V.run_harness(binary, "TestNfdcGen", {"VERIF_OUT": wd, "VERIF_N": 2000 if th else 200}, timeout=3000)
        rows = V.read_ndjson(os.path.join(wd, "nfdc.ndjson"))
        nq_execs = V.split_executions(rows)
        execs_all += nq_execs
        head = 'SPECIFICATION TSpec\nCONSTANTS Dev = {} TraceFile = "@TRACE@"\n'
        for ci in range(0, len(nq_execs), 1500):
            ch = [r for (_, ex) in nq_execs[ci:ci + 1500] for r in ex]
            r = V.validate_trace(wd, ch, "NfdcTrace.tla", head, ["T_C19q_fifo", "T_C19q_same", "T_C19q_final"], invariants=["I_C19q_order"], label="nfdc%d" % ci, timeout=3000)
            if r["blocked"]:
                raise V.Machinery("nfdc trace not followable (drift): %s" % json.dumps(r["blocked"])[:1500])
            accepted += r["accepted_execs"]
            events += r["events"]
            viols += r["violations"]
    # ---- from a client route in the forwarder's RIB to a prefix announced by the daemon (spec/readv/Readvertise.tla)
    if pid == "C19" and not replay:
        V.copy_spec("readv", wd)
        RV_MC = ('SPECIFICATION MSpec\nCONSTANTS Names = {"p", "q"} FaceIds = {1, 2} Origins = {0, 65} Client = 65 Dev = %s MaxDepth = %d\n'
                 "VIEW MView\nCONSTRAINT MConstr\nINVARIANTS AnnIsClientRoutes CountIsClientRoutes\nCHECK_DEADLOCK FALSE\n")
        with open(os.path.join(wd, "mc_readv.cfg"), "w") as f:
            f.write(RV_MC % ("{}", 99))
        mc["readv"] = V.tlc(wd, "ReadvMC.tla", "mc_readv.cfg", workers=4, timeout=900)
        with open(os.path.join(wd, "mc_readv_neg.cfg"), "w") as f:
            f.write(RV_MC % ('{"WithdrawAlways"}', 99))
        neg = V.tlc(wd, "ReadvMC.tla", "mc_readv_neg.cfg", workers=2, timeout=600)
        if neg.status != "violation":
            raise V.Machinery("negative control of Readvertise not refuted: %s\n%s" % (neg.status, neg.out[-1500:]))
        V.run_harness(binary, "TestReadvGen", {"VERIF_OUT": wd, "VERIF_N": 400 if th else 40, "VERIF_LEN": 30}, timeout=3000)
        rows = V.read_ndjson(os.path.join(wd, "readv.ndjson"))
        rv_execs = V.split_executions(rows)
        execs_all += rv_execs
        r = V.validate_trace(wd, rows, "ReadvTrace.tla", RV_HEAD, [], invariants=["I_C19r_ann", "I_C19r_rib", "I_C19r_ok", "CountIsClientRoutes"], label="readv", timeout=3000)
        if r["blocked"]:
            raise V.Machinery("readvertise trace not followable (drift): %s" % json.dumps(r["blocked"])[:1500])
        accepted += r["accepted_execs"]
        events += r["events"]
        viols += r["violations"]
    if bg:
        bg.join()
    unfinished = []
    for tag, x in mc.items():
        if x.status == "timeout":
            unfinished.append(tag)      # reported as unfinished, not as a verdict
        elif x.status != "ok":
            raise V.Machinery("model checking of DV (%s) did not pass: %s %s %s\n%s" % (tag, x.status, x.kind, x.name, x.out[-2500:]))
    rc = 0
    for v in viols:
        path = V.save_violation(pid, v["segment"], {"rule": v["rule"], "event": v["segment"][-1], "model_state": v["state"]})
        print("VIOLATION property=%s replay=%s" % (pid, path))
        V.log("  rule %s violated at event %d of an execution: %s" % (v["rule"], v["index"], json.dumps(v["segment"][-1])[:600]))
        rc = 1
    V.write_evidence(pid, tier, "model_checking", {
        "states": max(1, sum(x.distinct for x in mc.values())), "transitions": max(1, sum(x.generated for x in mc.values())),
        "traces_validated_against_impl": accepted, "evaluations": events,
        "distinct_nontrivial": sum(1 for (_, ex) in execs_all if nontrivial(pid, ex)),
        "rule": "N real dv.Routers (N in %s) on dummy engines in one synctest bubble; every connected labelled graph for N<=4 (cycled) and random connected graphs above; "
                "seeded schedules of fetch / link down (dead-neighbour detection) / link up / fair rounds to quiescence / announce / withdraw / prefix-log sync "
                "(incl. 130-operation bursts crossing the snapshot threshold); validated by TLC against DVTrace with %s; for C19 also 2..3 real SvSync instances "
                "(publish / deliver any Sync Interest ever sent to anybody / time steps 20 ms..34 s / two suppression probes / lossless settle rounds) validated against SvTrace; non-trivial = %s"
                % ([n for n, _ in traces], " ".join(INVS[pid]), "execution contains a link failure" if pid == "C18" else "execution installs routes or reconstructs a non-empty prefix set"),
        "samples": [ex[:5] for (_, ex) in execs_all[:2]],
        "model_checking": {k: {"status": x.status, "distinct": x.distinct, "generated": x.generated, "depth": x.depth, "wall_s": round(x.wall, 1)} for k, x in mc.items()},
        "unfinished_model_runs": unfinished,
        "checker_cmd": "tlc DVMC.tla (safety per topology; liveness Converges on all graphs with N<=3) ; tlc -workers 1 DVTrace.tla", "exhaustive": False},
        time.time() - t0, violations=len(viols),
        assumptions=["TLC, JVM, Go runtime, testing/synctest trusted", "advertisements are handed over synchronously by the harness (through the real TLV encoder/decoder); the routers' own SvSync instances are not wired to each other, "
                     "SvSync is bound separately (C19 stage svs: real SvSync instances, the harness as lossy, duplicating, reordering network)",
                     "model router ids are ordered by router-name hash (the code's tie-break)", "infinity 16 in traces; scaled infinity in exhaustive runs"])
    if rc == 0:
        shutil.rmtree(wd, ignore_errors=True)
    return rc
