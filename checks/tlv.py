"""C13 (and later C03 C04 C12 C14) -- spec/tlv: pure-function family ("transcribe and enumerate" use of TLA+)."""
import os, subprocess, json
from lib import vlib as V

PL_MC = """SPECIFICATION Spec
CONSTANTS Dev = {}
INVARIANT C13
CHECK_DEADLOCK FALSE
"""
REG_HEAD = """SPECIFICATION TSpec
CONSTANTS Dev = {} TraceFile = "@TRACE@"
"""


def gen_registry():
    """rebuild the registry of generated models from /repo's zz_generated.go files (nothing listed by hand)"""
    out = os.path.join(V.VERIF, "harness", "reg", "zz_registry_test.go")
    p = subprocess.run(["go", "run", ".", V.REPO, "github.com/named-data/ndnd", out, "reg"], cwd=os.path.join(V.VERIF, "tools", "genreg"),
                       env=V.GOENV, stdout=subprocess.PIPE, stderr=subprocess.STDOUT, text=True)
    if p.returncode != 0:
        raise V.Machinery("registry generation failed:\n" + p.stdout[-2000:])
    V.log("  " + p.stdout.strip())


def gen_compare(wd):
    """C13, last clause: build the generator from /repo, run it on every package that carries a go:generate line for it,
    and compare its output with the checked-in zz_generated.go (rows judged by RegTrace!I_C13gen)."""
    gen = os.path.join(wd, "gondn_tlv_gen")
    p = subprocess.run(["go", "build", "-o", gen, "./std/cmd/gondn_tlv_gen"], cwd=V.REPO, env=V.GOENV, stdout=subprocess.PIPE, stderr=subprocess.STDOUT, text=True)
    if p.returncode != 0:
        raise V.Machinery("cannot build the TLV generator:\n" + p.stdout[-2000:])
    rows = []
    for root, dirs, files in os.walk(V.REPO):
        dirs[:] = [d for d in dirs if not d.startswith(".")]
        for fn in files:
            if not fn.endswith(".go") or fn == "zz_generated.go":
                continue
            try:
                txt = open(os.path.join(root, fn), errors="replace").read()
            except OSError:
                continue
            if "//go:generate gondn_tlv_gen" not in txt:
                continue
            out = os.path.join(wd, "zz_regen.go")
            if os.path.exists(out):
                os.remove(out)
            q = subprocess.run([gen, "-input", root, "-output", out], env=V.GOENV, stdout=subprocess.PIPE, stderr=subprocess.STDOUT, text=True)
            new = open(out, "rb").read() if os.path.exists(out) else b""
            old_path = os.path.join(root, "zz_generated.go")
            old = open(old_path, "rb").read() if os.path.exists(old_path) else b""
            first = next((i for i, (a, b) in enumerate(zip(new.splitlines(), old.splitlines())) if a != b), -1)
            rows.append({"ev": "gen", "pkg": os.path.relpath(root, V.REPO), "equal": new == old and len(new) > 0, "generated": len(new), "checkedin": len(old),
                         "firstDiffLine": first + 1, "rc": q.returncode})
    if not rows:
        raise V.Machinery("no package with a go:generate line for the TLV generator was found")
    return rows


def match_c13(pid, v):
    last = v["segment"][-1]
    for f in V.open_findings(pid):
        if f["id"] == "F30" and v["rule"] == "I_C13ins" and last.get("ev") == "ins" and last.get("outcome") == "reject":
            for s in f.get("sites", []):
                if s["model"] == last.get("model") and s["prevT"] == last.get("prevT") and s["nextT"] == last.get("nextT"):
                    return f
    return None


def sweep(pid, tier, spec_dir, mc_runs, binary, wd, drivers, module, head, rule_text, assumptions, match=None, short=None, extra_rows=None):
    """pipeline for traces of independent experiments (one TLC pass, every violating row reported)"""
    import time, threading, shutil
    t0 = time.time()
    V.copy_spec(spec_dir, wd)
    mc = {}

    def mc_all():
        for (tag, mod, cfgtext, workers, tmo) in mc_runs:
            cfg = "mc_%s.cfg" % tag
            with open(os.path.join(wd, cfg), "w") as f:
                f.write(cfgtext)
            mc[tag] = V.tlc(wd, mod, cfg, workers=workers, timeout=tmo)
    bg = threading.Thread(target=mc_all)
    bg.start()
    events, allv, samples, nontriv = 0, [], [], 0
    for (test, env, tf) in drivers:
        e = {"VERIF_OUT": wd}
        e.update(env)
        V.run_harness(binary, test, e, timeout=3000)
        rows = V.read_ndjson(os.path.join(wd, tf))
        n, viols = V.validate_collect(wd, rows, module, head, label=test)
        events += n
        nontriv += sum(1 for r in rows if r.get("ev") not in ("Reset",))
        samples += rows[1:4]
        for (idx, rules) in viols:
            allv.append((rows[idx], rules, rows[max(0, idx - 2): idx + 1]))
    for (label, rows) in (extra_rows or []):
        n, viols = V.validate_collect(wd, rows, module, head, label=label)
        events += n
        nontriv += len(rows)
        samples += rows[:2]
        for (idx, rules) in viols:
            allv.append((rows[idx], rules, rows[max(0, idx - 2): idx + 1]))
    bg.join()
    for tag, x in mc.items():
        if x.status != "ok":
            raise V.Machinery("model checking (%s) did not pass: %s %s %s\n%s" % (tag, x.status, x.kind, x.name, x.out[-2500:]))
    known, rest = {}, []
    for (row, rules, seg) in allv:
        f = match(pid, {"rule": rules[0], "rules": rules, "segment": [row]}) if match else None
        if f:
            known[f["id"]] = f
        else:
            rest.append((row, rules, seg))
    for f in known.values():
        print("KNOWN-FINDING: property=%s %s" % (pid, f["what"]))
    short = short or (lambda r: r)
    rc = 0
    for i, (row, rules, seg) in enumerate(rest):
        if i < 25:
            path = V.save_violation(pid, [row], {"rules": rules, "event": short(row)})
            print("VIOLATION property=%s replay=%s" % (pid, path))
            V.log("  rules %s violated by: %s" % (" ".join(rules), json.dumps(short(row))[:500]))
        rc = 1
    if len(rest) > 25:
        V.log("  ... and %d more violating experiments" % (len(rest) - 25))
    V.write_evidence(pid, tier, "model_checking", {
        "states": max(1, sum(x.distinct for x in mc.values())), "transitions": max(1, sum(x.generated for x in mc.values())),
        "traces_validated_against_impl": len(drivers) if rc == 0 else 0, "evaluations": events, "distinct_nontrivial": nontriv,
        "rule": rule_text, "samples": [short(r) for r in samples[:6]], "known_findings": sorted(known.keys()),
        "model_checking": {k: {"distinct": x.distinct, "generated": x.generated, "wall_s": round(x.wall, 1)} for k, x in mc.items()},
        "checker_cmd": "tlc <Module>MC ; tlc -workers 1 %s (one pass, CollectViol)" % module, "exhaustive": False},
        time.time() - t0, violations=len(rest), assumptions=list(assumptions))
    if rc == 0:
        shutil.rmtree(wd, ignore_errors=True)
    return rc


RECV_MC = """SPECIFICATION Spec
CONSTANTS NThreads = 2 MaxFrag = 8800 MaxDepth = %d
CONSTRAINT Constr
INVARIANT StoreSound
PROPERTY P_C04
CHECK_DEADLOCK FALSE
"""
RECV_HEAD = """SPECIFICATION TSpec
CONSTANTS NThreads = 2 MaxFrag = 8800 TraceFile = "@TRACE@"
"""


def run_crashsafe(binary, test, env, wd, stem, mem_kb=8000000, max_crashes=40):
    """Runs an adversarial driver in child processes under an address-space limit. The driver writes the index of the
    case about to run to <stem>.progress; an abnormal exit (runtime fatal error, OOM kill) is attributed to that case,
    recorded as a `crash` row, and the driver is resumed after it."""
    import subprocess
    trace = os.path.join(wd, stem + ".ndjson")
    prog = os.path.join(wd, stem + ".progress")
    for f in (trace, prog):
        if os.path.exists(f):
            os.remove(f)
    frm, crashes = 0, 0
    while True:
        e = dict(V.GOENV)
        e.update({k: str(v) for k, v in env.items()})
        e.update({"VERIF_OUT": wd, "VERIF_FROM": str(frm), "VERIF_SEED": str(V.seed())})
        cmd = "ulimit -v %d; exec %s -test.run '^%s$' -test.timeout 1500s -test.count 1" % (mem_kb, binary, test)
        p = subprocess.run(["bash", "-c", cmd], cwd=wd, env=e, stdout=subprocess.PIPE, stderr=subprocess.STDOUT, text=True, errors="replace")
        done = False
        if os.path.exists(trace):
            with open(trace) as f:
                tail = f.read()[-400:]
            done = '"ev":"done"' in tail
        if p.returncode == 0 and done:
            break
        if not os.path.exists(prog):
            raise V.Machinery("driver %s died before its first case (rc=%d):\n%s" % (test, p.returncode, p.stdout[-3000:]))
        line = open(prog).read().strip()
        idx = int(line.split()[0])
        if idx <= frm:
            raise V.Machinery("driver %s makes no progress after case %d:\n%s" % (test, frm, p.stdout[-2000:]))
        # drop a possibly half-written last line, then record the crash
        rows = []
        for l in open(trace):
            try:
                rows.append(json.loads(l))
            except Exception:
                pass
        reason = "fatal" if "fatal error" in p.stdout else "killed"
        m = [x for x in p.stdout.splitlines() if "fatal error" in x or "runtime:" in x]
        rows.append({"ev": "crash", "i": idx, "case": line[:300], "detail": (m[0] if m else reason)[:200], "rc": p.returncode})
        V.write_ndjson(trace, rows)
        crashes += 1
        frm = idx
        V.log("  %s: abnormal exit at case %d (%s); resuming" % (test, idx, reason))
        if crashes >= max_crashes:
            rows.append({"ev": "done", "cases": idx, "aborted": True})
            V.write_ndjson(trace, rows)
            break
    return trace


def run_c04(tier):
    import time, shutil
    t0 = time.time()
    th = tier == "thorough"
    gen_registry()
    wd = V.workdir("C04")
    V.copy_spec("tlv", wd)
    breg = V.build_harness(wd, pkg="./reg")
    os.rename(breg, os.path.join(wd, "reg.test"))
    breg = os.path.join(wd, "reg.test")
    bh = V.build_harness(wd)
    cfg = os.path.join(wd, "mc_recv.cfg")
    open(cfg, "w").write(RECV_MC % (3 if th else 2))
    mc = V.tlc(wd, "RecvMC.tla", "mc_recv.cfg", workers=V.NCPU, timeout=1800)
    if mc.status != "ok":
        raise V.Machinery("RecvMC did not pass: %s %s\n%s" % (mc.status, mc.name, mc.out[-2000:]))
    traces = [run_crashsafe(breg, "TestC04Dec", {"VERIF_VARIANTS": 12 if th else 3, "VERIF_TRUNC": 120 if th else 30}, wd, "c04dec"),
              run_crashsafe(breg, "TestC04Extra", {"VERIF_TRUNC": 2000 if th else 300}, wd, "c04extra"),
              run_crashsafe(bh, "TestC04Recv", {}, wd, "c04recv")]
    events, viols, classes, samples = 0, [], {}, []
    for tf in traces:
        rows = [r for r in V.read_ndjson(tf)]
        n, vs = V.validate_collect(wd, rows, "RecvTrace.tla", RECV_HEAD, label=os.path.basename(tf)[:-7])
        events += n
        for r in rows:
            if "class" in r:
                classes[r["class"]] = classes.get(r["class"], 0) + 1
        samples += [r for r in rows if r.get("ev") in ("dec", "frame")][:2]
        viols += [(rows[i], rules) for (i, rules) in vs]
    rc = 0
    for i, (row, rules) in enumerate(viols):
        if i < 25:
            path = V.save_violation("C04", [row], {"rules": rules, "event": row})
            print("VIOLATION property=C04 replay=%s" % path)
            V.log("  %s: %s" % (" ".join(rules), json.dumps(row)[:500]))
        rc = 1
    missing = [c for c in ("valid", "len", "type", "unknown", "nested", "trunc", "frag", "token", "stream") if classes.get(c, 0) == 0]
    if missing:
        raise V.Machinery("mutation classes never exercised: %s" % missing)
    V.write_evidence("C04", tier, "model_checking", {
        "states": max(1, mc.distinct), "transitions": max(1, mc.generated), "traces_validated_against_impl": 3 if rc == 0 else 0,
        "evaluations": events, "distinct_nontrivial": sum(v for k, v in classes.items() if k != "valid"),
        "rule": "every decoder of the registry (70 generated models, discovered at check time) plus the packet reader and the standalone name/component decoders, "
                "fed through the contiguous and the segmented reader with structure-aware mutants of valid encodings (every TLV-LENGTH replaced by 15 boundary/huge values, "
                "type confusion, nested-length disagreement, truncation at many offsets); the receive path (handleIncomingFrame and readTlvStream->handleIncomingFrame) with the same mutants of "
                "valid frames, 243 FragIndex/FragCount/Sequence combinations, PIT-token lengths and thread ids; each call under recover(), an allocation budget (64 x input + 1 MiB) and a 2 s "
                "watchdog, in child processes under an 8 GB address-space limit so that runtime fatal errors are attributed to the case; every mutant is a distinct non-trivial case",
        "classes": classes, "samples": samples[:6], "checker_cmd": "tlc RecvMC.tla ; tlc -workers 1 RecvTrace.tla (CollectViol)", "exhaustive": False},
        time.time() - t0, violations=len(viols),
        assumptions=["TLC, JVM, Go runtime trusted", "unstructured random bytes beyond the enumerated mutation classes are a fuzzer's job, not covered by this family (DESIGN C04 residual)",
                     "sync and certificate message decoders are covered as generated models (svs_2024, ndncert_0_3) of the registry"])
    if rc == 0:
        shutil.rmtree(wd, ignore_errors=True)
    return rc


def match_c12(pid, v):
    last = v["segment"][-1]
    for f in V.open_findings(pid):
        if (f["id"] == "F33" and "I_C12tamper" in v.get("rules", []) and last.get("ev") == "tamper" and last.get("kind") == "interest" and last.get("signer") == "none"
                and last.get("region") in ("params", "params/ReadPacket") and last.get("off") == 0 and last.get("outcome") == "accepted"):
            return f
    return None


def run(pid, tier, replay=None):
    th = tier == "thorough"
    if pid == "C04":
        return run_c04(tier)
    if pid == "C13":
        gen_registry()
        wd = V.workdir(pid)
        binary = V.build_harness(wd, pkg="./reg")
        return sweep(pid, tier, "tlv", [("parseloop", "ParseLoopMC.tla", PL_MC, 8, 900)], binary, wd,
            [("TestRegRoundTrip", {"VERIF_VARIANTS": 300 if th else 60}, "reg_rt.ndjson")], "RegTrace.tla", REG_HEAD,
            "every generated model with a public Parse function, discovered at check time by scanning the zz_generated.go files (tools/genreg); "
            "a type-directed reflection builder makes nil/empty/boundary/large variants of every field kind (nested structs, sequences, maps); each value is encoded, "
            "walked with an independent TLV reader, decoded contiguous and segmented and compared semantically; then an unrecognised element of each class "
            "(<=31, odd, even) is inserted at every top-level position with ignoreCritical on/off and the outcome compared with ParseLoop!Expected; "
            "every experiment is non-trivial (distinct model x variant x position x class); finally the generator is built from /repo and run on every package "
            "with a go:generate line for it, its output compared byte for byte with the checked-in zz_generated.go (I_C13gen)",
            ["TLC, JVM, Go runtime trusted", "private packet models (Interest/Data/LpPacket) are exercised through ReadPacket in C03/C04, not here",
             "the generator-output clause is a byte comparison (rows judged by I_C13gen); that the generator's *templates* implement the parse loop of ParseLoop.tla is what the experiments establish"],
            match=match_c13, extra_rows=[("gen", gen_compare(wd))])
    if pid in ("C03", "C12"):
        wd = V.workdir(pid)
        V.copy_spec("tlv", wd)
        # 1. TLC enumerates packet shapes from the boundary sets (and checks the oracle's self-consistency)
        n = 2500 if th else 350
        with open(os.path.join(wd, "shapes.cfg"), "w") as f:
            f.write('SPECIFICATION Spec\nCONSTANTS OutFile = "shapes.ndjson" NData = %d NInterest = %d\nINVARIANT OracleSound\nCHECK_DEADLOCK FALSE\n' % (n, n))
        g = V.tlc(wd, "TlvMC.tla", "shapes.cfg", workers=1, timeout=1800, tseed=V.seed())
        if g.status != "ok" or not os.path.exists(os.path.join(wd, "shapes.ndjson")):
            raise V.Machinery("TlvMC did not produce shapes: %s %s\n%s" % (g.status, g.name, g.out[-2000:]))
        binary = V.build_harness(wd)
        head = 'SPECIFICATION TSpec\nCONSTANTS TraceFile = "@TRACE@" Which = "%s"\n' % pid

        def short(r):
            r = dict(r)
            return r
        rc = sweep(pid, tier, "tlv", [], binary, wd,
            [("TestTlvShapes", {"VERIF_SHAPES": os.path.join(wd, "shapes.ndjson"), "VERIF_TAMPER": 200 if th else 24}, "tlv.ndjson")], "TlvTrace.tla", head,
            ("%d Data and %d Interest shapes drawn by TLC (TlvMC) field by field from boundary sets: 0..3 components of types {1,8,32,50,54,65535} and value lengths "
             "{0,1,5,252,253,254,255,256,300,1000}, every optional field absent / boundary-valued, content and parameters of 0..7000 bytes in 1..3 buffers, signers none/SHA-256/HMAC/ECDSA/RSA; "
             "each built through the packet API, walked by an independent TLV reader, decoded contiguous and at up to 11 segmentations, compared field by field, and judged by the Tlv layout oracle "
             "(exact total/outer/name lengths, covered and digested ranges); " % (n, n)) +
            ("C12 additionally: signer input = parser's covered bytes = oracle ranges, validator accepts, and single-bit flips inside signed portion / signature value / parameters are never accepted"
             if pid == "C12" else "C03: plus Name.Bytes / NameFromBytes agreement with the packet encoder"),
            ["TLC, JVM, Go runtime, crypto/* trusted", "SignatureInfo and SignatureValue lengths are taken as observed parameters of the shape (ECDSA signatures vary in length)",
             "field VALUES are compared for equality after the round trip; the oracle speaks about structure and lengths (DESIGN C03 residual)"],
            match=match_c12 if pid == "C12" else None)
        ev_path = V.evidence_path(pid)
        e = json.load(open(ev_path))
        e["coverage"]["states"] = max(1, g.distinct)
        e["coverage"]["transitions"] = max(1, g.generated)
        e["coverage"]["model_checking"] = {"TlvMC": {"distinct": g.distinct, "generated": g.generated, "shapes": 2 * n, "wall_s": round(g.wall, 1)}}
        json.dump(e, open(ev_path, "w"), indent=1)
        return rc
    if pid == "C14":
        wd = V.workdir(pid)
        V.copy_spec("tlv", wd)
        with open(os.path.join(wd, "ng.cfg"), "w") as f:
            f.write('SPECIFICATION Spec\nCONSTANTS OutNames = "universe.ndjson" OutStrings = "strings.ndjson" Full = %s\nINVARIANT TotalOrder\nCHECK_DEADLOCK FALSE\n' % ("TRUE" if th else "FALSE"))
        g = V.tlc(wd, "NameGen.tla", "ng.cfg", workers=4, timeout=2400)
        if g.status != "ok" or not os.path.exists(os.path.join(wd, "universe.ndjson")):
            raise V.Machinery("NameGen did not pass: %s %s\n%s" % (g.status, g.name, g.out[-2000:]))
        binary = V.build_harness(wd)
        rc = sweep(pid, tier, "tlv", [], binary, wd,
            [("TestNames", {"VERIF_NAMES": os.path.join(wd, "universe.ndjson"), "VERIF_STRINGS": os.path.join(wd, "strings.ndjson"), "VERIF_PAIRS": 600000 if th else 60000}, "names.ndjson")],
            "NameTrace.tla", 'SPECIFICATION TSpec\nCONSTANTS TraceFile = "@TRACE@"\n',
            "TLC (NameGen) enumerates a universe of 1118 names (types {1,8,32,50,54,65535}; values over {00 '.' '..' '...' '%' '/' '=' 'A' FF, two- and three-byte values, all 256 single bytes}; up to 3 components) "
            "and 1206 parser inputs over separators/escapes/type markers, and proves NameCmp a total order on it; the real Compare/Equal/IsPrefix/Hash/PrefixHash/Bytes/NameFromBytes/String/NameFromStr "
            "are evaluated on every name, on random / identical / neighbouring / prefix-related pairs, and on every parser input (4 variants each); every observation judged by NameOrder",
            ["TLC, JVM, Go runtime trusted", "hash agreement is checked as 'equal names hash equally' and prefix-hash = hash of prefix (collisions are not a violation)"])
        ev_path = V.evidence_path(pid)
        e = json.load(open(ev_path))
        e["coverage"]["states"], e["coverage"]["transitions"] = max(1, g.distinct), max(1, g.generated)
        e["coverage"]["model_checking"] = {"NameGen": {"universe": 1118, "total_order_proved_on": "whole universe" if th else "close-pairs subset", "wall_s": round(g.wall, 1)}}
        json.dump(e, open(ev_path, "w"), indent=1)
        return rc
    raise V.Machinery("not built yet: " + pid)
