"""C13 (and later C03 C04 C12 C14) -- spec/tlv: pure-function family ("transcribe and enumerate" use of TLA+)."""
import os, subprocess, json
from lib import vlib as V

PL_MC = """SPECIFICATION Spec
CONSTANTS Dev = {}
INVARIANT C13
CHECK_DEADLOCK FALSE
"""
REG_HEAD = """SPECIFICATION TSpec
CONSTANTS Dev = {} TraceFile = "@TRACE@"
"""


def gen_registry():
    """rebuild the registry of generated models from /repo's zz_generated.go files (nothing listed by hand)"""
    out = os.path.join(V.VERIF, "harness", "reg", "zz_registry_test.go")
    p = subprocess.run(["go", "run", ".", V.REPO, "github.com/named-data/ndnd", out, "reg"], cwd=os.path.join(V.VERIF, "tools", "genreg"),
                       env=V.GOENV, stdout=subprocess.PIPE, stderr=subprocess.STDOUT, text=True)
    if p.returncode != 0:
        raise V.Machinery("registry generation failed:\n" + p.stdout[-2000:])
    V.log("  " + p.stdout.strip())


def match_c13(pid, v):
    last = v["segment"][-1]
    for f in V.open_findings(pid):
        if f["id"] == "F30" and v["rule"] == "I_C13ins" and last.get("ev") == "ins" and last.get("outcome") == "reject":
            for s in f.get("sites", []):
                if s["model"] == last.get("model") and s["prevT"] == last.get("prevT") and s["nextT"] == last.get("nextT"):
                    return f
    return None


def sweep(pid, tier, spec_dir, mc_runs, binary, wd, drivers, module, head, rule_text, assumptions, match=None, short=None):
    """pipeline for traces of independent experiments (one TLC pass, every violating row reported)"""
    import time, threading, shutil
    t0 = time.time()
    V.copy_spec(spec_dir, wd)
    mc = {}

    def mc_all():
        for (tag, mod, cfgtext, workers, tmo) in mc_runs:
            cfg = "mc_%s.cfg" % tag
            with open(os.path.join(wd, cfg), "w") as f:
                f.write(cfgtext)
            mc[tag] = V.tlc(wd, mod, cfg, workers=workers, timeout=tmo)
    bg = threading.Thread(target=mc_all)
    bg.start()
    events, allv, samples, nontriv = 0, [], [], 0
    for (test, env, tf) in drivers:
        e = {"VERIF_OUT": wd}
        e.update(env)
        V.run_harness(binary, test, e, timeout=3000)
        rows = V.read_ndjson(os.path.join(wd, tf))
        n, viols = V.validate_collect(wd, rows, module, head, label=test)
        events += n
        nontriv += sum(1 for r in rows if r.get("ev") not in ("Reset",))
        samples += rows[1:4]
        for (idx, rules) in viols:
            allv.append((rows[idx], rules, rows[max(0, idx - 2): idx + 1]))
    bg.join()
    for tag, x in mc.items():
        if x.status != "ok":
            raise V.Machinery("model checking (%s) did not pass: %s %s %s\n%s" % (tag, x.status, x.kind, x.name, x.out[-2500:]))
    known, rest = {}, []
    for (row, rules, seg) in allv:
        f = match(pid, {"rule": rules[0], "rules": rules, "segment": [row]}) if match else None
        if f:
            known[f["id"]] = f
        else:
            rest.append((row, rules, seg))
    for f in known.values():
        print("KNOWN-FINDING: property=%s %s" % (pid, f["what"]))
    short = short or (lambda r: r)
    rc = 0
    for i, (row, rules, seg) in enumerate(rest):
        if i < 25:
            path = V.save_violation(pid, [row], {"rules": rules, "event": short(row)})
            print("VIOLATION property=%s replay=%s" % (pid, path))
            V.log("  rules %s violated by: %s" % (" ".join(rules), json.dumps(short(row))[:500]))
        rc = 1
    if len(rest) > 25:
        V.log("  ... and %d more violating experiments" % (len(rest) - 25))
    V.write_evidence(pid, tier, "model_checking", {
        "states": max(1, sum(x.distinct for x in mc.values())), "transitions": max(1, sum(x.generated for x in mc.values())),
        "traces_validated_against_impl": len(drivers) if rc == 0 else 0, "evaluations": events, "distinct_nontrivial": nontriv,
        "rule": rule_text, "samples": [short(r) for r in samples[:6]], "known_findings": sorted(known.keys()),
        "model_checking": {k: {"distinct": x.distinct, "generated": x.generated, "wall_s": round(x.wall, 1)} for k, x in mc.items()},
        "checker_cmd": "tlc <Module>MC ; tlc -workers 1 %s (one pass, CollectViol)" % module, "exhaustive": False},
        time.time() - t0, violations=len(rest), assumptions=list(assumptions))
    if rc == 0:
        shutil.rmtree(wd, ignore_errors=True)
    return rc


def run(pid, tier, replay=None):
    th = tier == "thorough"
    if pid == "C13":
        gen_registry()
        wd = V.workdir(pid)
        binary = V.build_harness(wd, pkg="./reg")
        return sweep(pid, tier, "tlv", [("parseloop", "ParseLoopMC.tla", PL_MC, 8, 900)], binary, wd,
            [("TestRegRoundTrip", {"VERIF_VARIANTS": 300 if th else 60}, "reg_rt.ndjson")], "RegTrace.tla", REG_HEAD,
            "every generated model with a public Parse function, discovered at check time by scanning the zz_generated.go files (tools/genreg); "
            "a type-directed reflection builder makes nil/empty/boundary/large variants of every field kind (nested structs, sequences, maps); each value is encoded, "
            "walked with an independent TLV reader, decoded contiguous and segmented and compared semantically; then an unrecognised element of each class "
            "(<=31, odd, even) is inserted at every top-level position with ignoreCritical on/off and the outcome compared with ParseLoop!Expected; "
            "every experiment is non-trivial (distinct model x variant x position x class)",
            ["TLC, JVM, Go runtime trusted", "private packet models (Interest/Data/LpPacket) are exercised through ReadPacket in C03/C04, not here",
             "'the checked-in generated code is exactly what the generator produces' is a file comparison with no state or oracle a TLA+ model adds: not decided by this family (DESIGN 4 C13)"],
            match=match_c13)
    raise V.Machinery("not built yet: " + pid)
