"""C16 -- spec/conc (TablesConc.tla): concurrent use of the RIB, the FIB / strategy table and lookups."""
from lib import vlib as V

PROCS = '{"m", "t", "u", "l", "k", "w1", "w2", "w3", "w4", "w5", "w6", "r1", "r2", "r3", "r4", "r5", "r6", "r7", "r8", "r9", "r10"}'
MC = """SPECIFICATION Spec
CONSTANTS Procs = {"m", "t", "l"} Dev = {} Scenario = "%s"
INVARIANTS LookupAtomic RaceFree FinalOK NoDeadlock
PROPERTY Progress
CHECK_DEADLOCK FALSE
"""
GEN = """SPECIFICATION GSpec
CONSTANTS Procs = {"m", "t", "u", "l"} Dev = {} OutDir = "sched" MaxOps = 3
CONSTRAINT Dump
INVARIANT ModelOK
CHECK_DEADLOCK FALSE
"""
HEAD = """SPECIFICATION TSpec
CONSTANTS Procs = %s Dev = {} TraceFile = "@TRACE@"
""" % PROCS


def nontrivial(ex):
    ps = set(r.get("p") for r in ex if r.get("ev") in ("step", "inv"))
    return len(ps) >= 2


def run(pid, tier, replay=None):
    th = tier == "thorough"
    return V.pipeline(
        pid, tier, replay, "conc",
        mc_runs=[("sc" + sc, "ConcMC.tla", MC % sc, 2, 1200) for sc in "ABCDEFG"],
        gens=[("ConcGen.tla", GEN, "sched", 6000 if th else 600, 80)],
        drivers=[("TestConcSched", {"VERIF_SCHED": "@sched", "VERIF_BOTH": 1 if th else 0}, ["conc_sched.ndjson"]),
                 ("TestConcFree", {"VERIF_N": 3000 if th else 300}, ["conc_free.ndjson"], {"race": True}),
                 ("TestConcHammer", {"VERIF_N": 24 if th else 6, "VERIF_LEN": 4000 if th else 1500}, ["conc_hammer.ndjson"], {"race": True})],
        replay_driver=("TestConcSched", "VERIF_REPLAY", "conc_sched.ndjson"),
        trace_module="ConcTrace.tla", trace_head=HEAD,
        props=["T_C16look", "T_C16race"], invs=["I_C16virt", "I_C16final", "I_C16quiet", "I_C16safe"], nontrivial=nontrivial, chunk=20000,
        rule_text="(a) gated replay: the processes of TLC-generated schedules (management, two face teardowns, a forwarding thread; 1..3 operations each over "
                  "register / unregister / face down / fib add,remove / strategy set,unset / lookups on nested prefixes /a /a/b /a/c and /d) are real goroutines on the "
                  "real RIB and both FIB implementations, parked at gates before every RIB-mutex and FIB-lock acquisition and released one step at a time in TLC's order; "
                  "a goroutine released into a held RIB mutex must stay blocked until the holder returns; after every step routes, FIB and strategies are logged and TLC "
                  "checks that a lookup of any name at that instant would be answered as in some sequential order of the overlapping operations (I_C16virt), every real "
                  "lookup's answer (T_C16look), mutual exclusion of RIB sections (T_C16race) and the final tables (I_C16final); "
                  "(b) free run under the Go race detector: 2..16 goroutines (1..6 writers, 1..10 readers) issue the same kinds of operations concurrently, "
                  "invocations and returns stamped by one atomic counter, every history checked for linearizability by TLC; a race report, a runtime crash or a "
                  "deadlock is a violation; (c) hammer: 16 goroutines x 1500..4000 operations on the same few prefixes (writers, readers that consume the returned lists, "
                  "FIB / strategy / RIB listings, two goroutines bringing faces up and down through the real face table with routes on them) under the race detector; "
                  "judged by the detector, the runtime, and at quiescence by I_C16quiet (FIB = what the routes prescribe, nothing left of removed faces); non-trivial = at least two goroutines took part",
        assumptions=["TLC, JVM, Go runtime and the Go race detector trusted", "the gates sit before lock acquisitions: what a goroutine does between two gates is one step",
                     "the 40 ms window that classifies a released goroutine as blocked can only miss a violation, never invent one",
                     "the face table is exercised through Add / Get / GetAll / Remove (which tears the face's routes down) in the hammer; socket-level faces are not created"])
