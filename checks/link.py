"""C10 C11 -- spec/link (LpLink.tla, StreamFraming.tla)."""
import os, time, json, shutil, threading
from lib import vlib as V

LP_MC = """SPECIFICATION Spec
CONSTANTS Slack = 64 MaxFrag = 8800 Mode = "%s"
INVARIANTS %s
%s
CHECK_DEADLOCK FALSE
"""
LP_HEAD = """SPECIFICATION TSpec
CONSTANTS Slack = 64 MaxFrag = 8800 TraceFile = "@TRACE@"
"""
ST_MC = """SPECIFICATION Spec
CONSTANTS MaxPkt = 4 BufLen = 12 Dev = {} MaxBlocks = %d
INVARIANTS FramesAreBlocks NoError Bounded UnreadIsStream DeliveredAsSoonAsComplete AllAtEof
CHECK_DEADLOCK FALSE
"""
ST_HEAD = """SPECIFICATION TSpec
CONSTANTS MaxPkt = 8800 BufLen = 281600 Dev = {} TraceFile = "@TRACE@"
"""


SS_MC = "SPECIFICATION Spec\nCONSTANTS\n  Senders <- MCSenders\n  Dev = %s\nINVARIANTS FramesIntact\nPROPERTIES AllSent\nCHECK_DEADLOCK FALSE\n"
SS_HEAD = 'SPECIFICATION TSpec\nCONSTANTS\n  Senders <- MCSenders\n  Dev = {}\n  TraceFile = "@TRACE@"\n'


def run_multi(pid, tier, spec_dir, mc_runs, jobs, rule_text, assumptions, nontrivial):
    """jobs: [(driver test, env, trace file, trace module, head, props, invs, reset-splitting?)]"""
    t0 = time.time()
    wd = V.workdir(pid)
    V.copy_spec(spec_dir, wd)
    mc = {}

    def mc_run(tag, module, cfgtext, workers, tmo):
        cfg = "mc_%s.cfg" % tag
        with open(os.path.join(wd, cfg), "w") as f:
            f.write(cfgtext)
        mc[tag] = V.tlc(wd, module, cfg, workers=workers, timeout=tmo)

    def mc_all():
        for r in mc_runs:
            mc_run(*r)
    bg = threading.Thread(target=mc_all)
    bg.start()
    binary = V.build_harness(wd)
    accepted, events, viols, execs_all = 0, 0, [], []
    for (test, env, tf, module, head, props, invs) in jobs:
        e = {"VERIF_OUT": wd}
        e.update(env)
        V.run_harness(binary, test, e, timeout=3000)
        rows = V.read_ndjson(os.path.join(wd, tf))
        execs = V.split_executions(rows)
        execs_all += execs
        chunks, cur = [], []
        for (_, ex) in execs:
            if cur and len(cur) + len(ex) > 120000:
                chunks.append(cur)
                cur = []
            cur += ex
        if cur:
            chunks.append(cur)
        for ci, ch in enumerate(chunks):
            r = V.validate_trace(wd, ch, module, head, list(props), invariants=list(invs), label="%s_%d" % (test, ci), timeout=3000)
            if r["blocked"]:
                raise V.Machinery("trace not followable (drift): %s" % json.dumps(r["blocked"])[:1200])
            accepted += r["accepted_execs"]
            events += r["events"]
            viols += r["violations"]
    bg.join()
    for tag, x in mc.items():
        if x.status != "ok":
            raise V.Machinery("model checking (%s) did not pass: %s %s %s\n%s" % (tag, x.status, x.kind, x.name, x.out[-2500:]))
    rc = 0

    def short(r):
        r = dict(r)
        for k in ("blocks", "frames"):
            if k in r and isinstance(r[k], list) and len(r[k]) > 4:
                r[k] = r[k][:4] + ["... %d more" % (len(r[k]) - 4)]
        return r
    for v in viols:
        path = V.save_violation(pid, v["segment"], {"rule": v["rule"], "event": short(v["segment"][-1]), "model_state": v["state"][:4000]})
        print("VIOLATION property=%s replay=%s" % (pid, path))
        V.log("  rule %s violated at event %d of an execution: %s" % (v["rule"], v["index"], json.dumps(short(v["segment"][-1]))[:600]))
        rc = 1
    V.write_evidence(pid, tier, "model_checking", {
        "states": max(1, sum(x.distinct for x in mc.values())), "transitions": max(1, sum(x.generated for x in mc.values())),
        "traces_validated_against_impl": accepted, "evaluations": events,
        "distinct_nontrivial": sum(1 for (_, ex) in execs_all if nontrivial(ex)),
        "rule": rule_text, "samples": [[short(r) for r in ex[:4]] for (_, ex) in execs_all[:2]],
        "model_checking": {k: {"distinct": x.distinct, "generated": x.generated, "depth": x.depth, "wall_s": round(x.wall, 1)} for k, x in mc.items()},
        "checker_cmd": "tlc <Module>MC ; tlc -workers 1 <Module>Trace", "exhaustive": False},
        time.time() - t0, violations=len(viols), assumptions=list(assumptions))
    if rc == 0:
        shutil.rmtree(wd, ignore_errors=True)
    return rc


def run(pid, tier, replay=None):
    th = tier == "thorough"
    if replay:
        V.log("note: link-layer executions are deterministic sweeps; --replay re-runs the whole quick sweep")
    if pid == "C10":
        return run_multi(pid, tier, "link",
            [("send", "LpLinkMC.tla", LP_MC % ("send", "SentOK SentNonEmpty", "CONSTRAINT OneStep"), 8, 900),
             ("rx", "LpLinkMC.tla", LP_MC % ("rx", "StoreSound AllOnce NeverTwice", "PROPERTIES P_C10rx P_C04rx"), 4, 900),
             ("adv", "LpLinkMC.tla", LP_MC % ("adv", "StoreSound NeverTwice", "PROPERTIES P_C10rx P_C04rx"), 4, 900)],
            [("TestLpSend", {"VERIF_FULL": 1 if th else 0}, "lp_send.ndjson", "LpTrace.tla", LP_HEAD, [], ["I_C10send", "I_nopanic"]),
             ("TestLpRx", {"VERIF_N": 3000 if th else 300}, "lp_rx.ndjson", "LpTrace.tla", LP_HEAD, ["P_C10rx", "T_C10intact"], ["I_C10single", "I_nopanic", "StoreSound"]),
             ("TestLpLocal", {}, "lp_local.ndjson", "LpTrace.tla", LP_HEAD, [], ["I_C10local", "I_nopanic"]),
             ("TestLpCong", {}, "lp_cong.ndjson", "LpTrace.tla", LP_HEAD, [], ["I_C10cong", "I_nopanic"])],
            "sender: sweep of packet sizes around every MTU boundary x 12 MTUs (thorough: +235 MTUs, every size near the boundaries) x token/mark/incoming-face/fragmentation variants, "
            "each frame decoded and checked by SendOK; receiver: every delivery order of two fragmented messages + shuffled interleavings (with duplicates) of up to three, "
            "checked by RxOK and byte/token/mark identity; local header fields (NextHopFaceId, CachePolicy, congestion mark, PIT token) x the options that admit them, 64 combinations; non-trivial = execution with a fragmented message",
            ["TLC, JVM, Go runtime trusted", "in-memory transport (fw/face/verif_hooks.go) whose reported send-queue length is set by the driver", "one-frame tolerance Slack = 64 bytes (DESIGN C10)"],
            lambda ex: any((r.get("ev") == "send" and len(r.get("frames", [])) > 1) or (r.get("ev") == "rx" and r["f"]["cnt"] > 1) for r in ex))
    return run_multi(pid, tier, "link",
        [("stream", "StreamMC.tla", ST_MC % (5 if th else 4), 12, 3000),
         ("send", "StreamSendMC.tla", SS_MC % "{}", 4, 600)],
        [("TestStreamSend", {"VERIF_N": 400 if th else 40}, "stream_send.ndjson", "StreamSendTrace.tla", SS_HEAD, [], ["I_C11send"]),
         ("TestStreamGen", {"VERIF_N": 240 if th else 48, "VERIF_FULL": 1 if th else 0}, "stream.ndjson", "StreamTrace.tla", ST_HEAD, ["P_C11"], []),
         ("TestStreamApp", {"VERIF_N": 96 if th else 24}, "stream_app.ndjson", "StreamTrace.tla", ST_HEAD, ["P_C11"], []),
         ("TestXportStream", {"VERIF_N": 160 if th else 20}, "xport.ndjson", "StreamTrace.tla", ST_HEAD, ["T_C11xport"], []),
         ("TestXportReconnect", {"VERIF_N": 40 if th else 6}, "xport_re.ndjson", "StreamTrace.tla", ST_HEAD, ["T_C11xport"], [])],
        "streams of well-formed TLV blocks (sizes 2..8800, 1/3/5-byte type and length forms) many times the 32-packet buffer, read by the real readTlvStream through a scripted "
        "io.Reader (1-byte reads, buffer-filling reads, tiny, large, near-max, reads ending inside every T/L field) and by the application StreamFace over net.Pipe; "
        "every read is validated by ReadOK; sending side: 2..3 goroutines send multi-buffer wires on one real StreamFace, the raw stream read by the peer must keep every "
        "packet's buffers contiguous (StreamSend.tla); non-trivial = stream longer than the receive buffer or read pattern ending inside headers",
        ["TLC, JVM, Go runtime, testing/synctest trusted", "block contents compared by SHA-256 prefix", "real sockets are replaced by a scripted reader / net.Pipe"],
        lambda ex: len(ex) > 3 or any(r.get("ev") == "sent" and r.get("buffers", 0) > 3 for r in ex))
