"""C01 C02 C07 C08 C09 -- spec/forwarder (Forwarder.tla): TLC exhaustive model checking of the module,
TLC-generated + seeded schedules executed on the real fw.Thread, trace validation per property."""
import os, threading, time, json
from lib import vlib as V
from checks import node as N

FACES_CFG = """SPECIFICATION TSpec
CONSTANTS
  Faces = {1,2,3,4,5}
  LocalFaces = {1,2}
  AdHocFaces = {5}
  SuppBR = %(supp)d
  SuppMC = %(suppm)d
  DnlLife = 2
  Regions <- TraceRegions
  Dev = {}
  TraceFile = "@TRACE@"
"""

RULES = {
    "C01": ["P_C01", "T_C01tok", "T_C01hit", "T_C01same", "T_nopanic"],
    "C02": ["P_C02", "T_C02hop", "T_C02noI", "T_C02once", "T_C02dead", "T_nopanic"],
    "C07": ["P_C07", "T_C07wire", "T_C07cs", "T_C07cap", "T_C07probe", "T_nopanic"],
    "C08": ["P_C08", "T_C08size", "T_C08dead", "T_C08sched", "T_C08quiet", "T_nopanic"],
    "C09": ["P_C09", "T_C09obs", "T_C09drop", "T_C09scope", "T_nopanic"],
}
MC_PROPS = {"C01": "P_C01", "C02": "P_C02", "C07": "P_C07", "C08": "P_C08", "C09": "P_C09"}
MC_INVS = {"C01": "TokensUnique", "C02": "TokensUnique", "C07": "CsConsistent", "C08": "AllScheduled", "C09": "TokensUnique"}

MC_CFG = """SPECIFICATION Spec
CONSTANTS
  Faces = {1,2,3}
  LocalFaces = {1}
  AdHocFaces = {}
  SuppBR = 1
  SuppMC = 1
  DnlLife = 2
  Regions = {}
  Dev = {}
  MaxDepth = %(depth)d
  Fan = "%(fan)s"
CONSTRAINT Constr
VIEW View
INVARIANTS %(inv)s
PROPERTIES %(prop)s
CHECK_DEADLOCK FALSE
"""

GEN_CFG = """SPECIFICATION Spec
CONSTANTS
  Faces = {1,2,3,4,5}
  LocalFaces = {1,2}
  AdHocFaces = {5}
  SuppBR = 1
  SuppMC = 1
  DnlLife = 2
  Regions = {}
  Dev = {}
  Depth = %(depth)d
  OutDir = "sched"
CONSTRAINT Dump
CHECK_DEADLOCK FALSE
"""


def nontrivial(pid, ex):
    """is this execution non-trivial for the property? (rule stated in the evidence)"""
    for r in ex:
        e = r.get("ev")
        if pid == "C01" and e == "D" and len(r["o"]["D"]) > 0:
            return True
        if pid == "C02" and e == "I" and len(r["oi"]) > 0:
            return True
        if pid == "C07" and e == "I" and r["o"]["csn"] != ["$none"]:
            return True
        if pid == "C08" and e == "U" and len(r["R"]) > 0:
            return True
        if pid == "C09" and e in ("I", "D") and r["i"]["n"][:1] == ["localhost"]:
            return True
    return False


def is_table_segment(path):
    rows = V.read_ndjson(path)
    return any("shape" in r for r in rows[:3])


def is_node_segment(path):
    rows = V.read_ndjson(path)
    return bool(rows) and rows[0].get("ev") == "Reset" and "nt" in rows[0]


def run_node_replay(pid, tier, replay):
    """--replay of a violation found by the node stage: re-execute the inputs on the real node, validate again"""
    wd = V.workdir(pid)
    binary = V.build_harness(wd)
    nd = N.stage(pid, tier, os.path.join(wd, "node"), binary, replay=replay)
    rc = 0
    for f in nd["known"]:
        print("KNOWN-FINDING: property=%s %s" % (pid, f["what"]))
    for v in nd["viols"]:
        path = V.save_violation(pid, v["segment"], {"rule": v["rule"], "event": v["segment"][-1], "model_state_before": v["state"]})
        print("VIOLATION property=%s replay=%s" % (pid, path))
        V.log("  rule %s violated at event %d of an execution: %s" % (v["rule"], v["index"], json.dumps(v["segment"][-1])[:600]))
        rc = 1
    return rc


def run(pid, tier, replay=None):
    t0 = time.time()
    if pid == "C08" and replay and is_table_segment(replay):
        from checks import tables as T
        return T.run("C08", tier, replay=replay)
    if replay and is_node_segment(replay):
        return run_node_replay(pid, tier, replay)
    wd = V.workdir(pid)
    V.copy_spec("forwarder", wd)
    thorough = tier == "thorough"
    seed = V.seed()

    # ---- 1. exhaustive model checking of the module (background, while the harness builds)
    mc = {}

    def mc_run(tag, depth, fan, workers):
        cfg = "mc_%s.cfg" % tag
        with open(os.path.join(wd, cfg), "w") as f:
            f.write(MC_CFG % {"depth": depth, "fan": fan, "inv": MC_INVS[pid], "prop": MC_PROPS[pid]})
        mc[tag] = V.tlc(wd, "ForwarderMC.tla", cfg, workers=workers, timeout=3000 if thorough else 600)

    threads = []
    if not replay:
        plans = [("narrow", 5, "narrow", 8), ("wide", 4, "wide", 8)] if thorough else [("narrow", 4, "narrow", 6), ("wide", 3, "wide", 6)]
        for p in plans:
            th = threading.Thread(target=mc_run, args=p)
            th.start()
            threads.append(th)

    # ---- 2. build harness from /repo's working tree; generate schedules with TLC; drive the real thread
    binary = V.build_harness(wd)
    rows = []
    nsched = 0
    if replay:
        V.run_harness(binary, "TestFwdSched", {"VERIF_OUT": wd, "VERIF_REPLAY": os.path.abspath(replay)})
        rows = V.read_ndjson(os.path.join(wd, "fwd_sched.ndjson"))
    else:
        os.makedirs(os.path.join(wd, "sched"))
        depth = 60 if thorough else 40
        with open(os.path.join(wd, "gen.cfg"), "w") as f:
            f.write(GEN_CFG % {"depth": depth})
        num = 1500 if thorough else 150
        g = V.tlc(wd, "ForwarderGen.tla", "gen.cfg", workers=1, timeout=900, simulate="num=%d" % num, depth=depth + 2, tseed=seed)
        nsched = len([x for x in os.listdir(os.path.join(wd, "sched")) if x.endswith(".ndjson")])
        if nsched == 0:
            raise V.Machinery("TLC generated no schedules:\n" + g.out[-2000:])
        V.run_harness(binary, "TestFwdSched", {"VERIF_OUT": wd, "VERIF_SCHED": os.path.join(wd, "sched")}, timeout=1800)
        V.run_harness(binary, "TestFwdGen", {"VERIF_OUT": wd, "VERIF_N": 2500 if thorough else 200, "VERIF_LEN": 80 if thorough else 60}, timeout=1800)
        rows = V.read_ndjson(os.path.join(wd, "fwd_sched.ndjson")) + V.read_ndjson(os.path.join(wd, "fwd_gen.ndjson"))
        if pid == "C09":   # the classification of faces as local / non-local, made by the real transport constructors
            V.run_harness(binary, "TestFaceScope", {"VERIF_OUT": wd}, timeout=300)
            rows += V.read_ndjson(os.path.join(wd, "fwd_scope.ndjson"))
    if not rows:
        raise V.Machinery("no trace recorded")
    first = rows[0]
    head = FACES_CFG % {"supp": first.get("supp", 1), "suppm": first.get("suppm", 1)}

    # ---- 3. validate the real traces against the module, rule by rule of this property
    execs = V.split_executions(rows)
    chunks, cur = [], []
    for (_, ex) in execs:      # keep TLC's trace files moderate: <= 60k events per run
        if len(cur) + len(ex) > 60000:
            chunks.append(cur)
            cur = []
        cur += ex
    if cur:
        chunks.append(cur)
    accepted, events, viols, blocked = 0, 0, [], None
    for ci, ch in enumerate(chunks):
        r = V.validate_trace(wd, ch, "ForwarderTrace.tla", head, RULES[pid], label="fwd%d" % ci, timeout=1800)
        accepted += r["accepted_execs"]
        events += r["events"]
        viols += r["violations"]
        if r["blocked"]:
            blocked = r["blocked"]
            break
    for th in threads:
        th.join()
    # ---- 3b. C08 also owns the FIB/RIB structures: "hold nothing beyond what their live entries require"
    tbl = None
    if pid == "C08" and not replay:
        from checks import tables as T
        wd2 = os.path.join(wd, "tables")
        os.makedirs(wd2)
        shutil_copy = __import__("shutil").copy
        tbl = T.stage("C08", tier, wd2, binary)
        for v in tbl["viols"]:
            v["segment"] = v["segment"]
        viols += tbl["viols"]
        accepted += tbl["accepted"]
        events += tbl["events"]
        for k, x in tbl["mc"].items():
            mc["tables-" + k] = x

    # ---- 3c. the node: NT real threads behind the real dispatch of real link services (spec/forwarder/Node.tla)
    nd = None
    if not replay and pid in N.RULES:
        nd = N.stage(pid, tier, os.path.join(wd, "node"), binary)
        viols += nd["viols"]
        accepted += nd["accepted"]
        events += nd["events"]
        for k, x in nd["mc"].items():
            mc[k] = x
        for f in nd["known"]:
            print("KNOWN-FINDING: property=%s %s" % (pid, f["what"]))

    # ---- 4. verdict
    states = sum(x.distinct for x in mc.values())
    trans = sum(x.generated for x in mc.values())
    for tag, x in mc.items():
        if x.status != "ok":
            raise V.Machinery("model checking of Forwarder (%s) did not pass: %s %s %s\n%s" % (tag, x.status, x.kind, x.name, x.out[-2500:]))
    if blocked:
        raise V.Machinery("trace not followable by the module (drift, no property verdict): %s" % json.dumps(blocked)[:1500])
    nt = sum(1 for (_, ex) in execs if nontrivial(pid, ex))
    if nd:
        nt += sum(1 for (_, ex) in nd["execs"] if N.nontrivial(pid, ex))
    samples = [ex[:6] for (_, ex) in execs[:2]]
    rc = 0
    for v in viols:
        path = V.save_violation(pid, v["segment"], {"rule": v["rule"], "event": v["segment"][-1], "model_state_before": v["state"]})
        print("VIOLATION property=%s replay=%s" % (pid, path))
        V.log("  rule %s violated at event %d of an execution: %s" % (v["rule"], v["index"], json.dumps(v["segment"][-1])[:600]))
        rc = 1
    V.write_evidence(pid, tier, "model_checking", {
        "states": max(states, 1) if not replay else 1, "transitions": max(trans, 1) if not replay else 1,
        "traces_validated_against_impl": accepted,
        "evaluations": events, "distinct_nontrivial": nt,
        "rule": "executions of the real fw.Thread (TLC -simulate schedules of ForwarderGen + seeded generator), each validated by TLC "
                "against ForwarderTrace with the rules %s; non-trivial = execution contains a step the property constrains "
                "(C01: Data with >=1 copy sent; C02: Interest forwarded; C07: cache hit; C08: reaper removed an entry; C09: /localhost packet); "
                "node stage (not C07): executions of a node of 1..8 real forwarding threads in loop mode behind real NDNLPv2 link services over in-memory "
                "transports (frames in, frames out), validated against NodeTrace" % " ".join(RULES[pid]),
        "samples": samples + ([nd["execs"][0][1][:6]] if nd and nd["execs"] else []), "tlc_schedules": nsched,
        "known_findings": [f["id"] for f in nd["known"]] if nd else [],
        "node_stage": ({"executions": len(nd["execs"]), "rules": N.RULES[pid]} if nd else {}), "model_checking": {k: {"distinct": x.distinct, "generated": x.generated, "depth": x.depth, "wall_s": round(x.wall, 1)} for k, x in mc.items()},
        "checker_cmd": "tlc ForwarderMC.tla, NodeMC.tla (exhaustive, depth-bounded) ; tlc -workers 1 ForwarderTrace.tla, NodeTrace.tla (trace validation)",
        "exhaustive": False},
        time.time() - t0, violations=len(viols),
        assumptions=["TLC, JVM, Go runtime and testing/synctest are trusted", "hooks project the PIT/CS tree faithfully (fw/table/verif_hooks.go)",
                     "time advances in 500 ms ticks; sub-tick orderings are not explored", "universe: 5 faces, 5 Interest names, 8 Data names, nonces 7..9"])
    if rc == 0:
        import shutil
        shutil.rmtree(wd, ignore_errors=True)
    return rc
