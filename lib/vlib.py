"""Shared plumbing for /verif/vcheck: harness build/run, TLC runs, result parsing,
known findings, evidence.  Verdict rule (DESIGN.md 2.3/7): exit 1 only for a property
predicate false on a trace recorded from the real code; everything else that goes
wrong is exit 2 (machinery), never a violation."""
import json, os, re, shutil, subprocess, sys, time, glob

VERIF = os.path.dirname(os.path.dirname(os.path.abspath(__file__)))
REPO = os.environ.get("VERIF_REPO", "/repo")
GOENV = dict(os.environ, GOFLAGS="-mod=mod", GOPROXY="off", GOSUMDB="off", GOTOOLCHAIN="local")
GO = "go1.26.8"
NCPU = os.cpu_count() or 4


class Machinery(Exception):
    """Something in the verification machinery failed (exit 2, never a violation)."""


class Crash(Machinery):
    """A driver process died from a panic / fatal runtime error raised inside the code under test (the innermost
    non-runtime frame of the panicking goroutine is a file of the repository, not of the harness). vcheck reports it as a
    violation: no property of this list tolerates the component taking the process down."""

    def __init__(self, test, excerpt, where):
        Machinery.__init__(self, "driver %s: the code under test crashed at %s:\n%s" % (test, where, excerpt))
        self.test, self.excerpt, self.where = test, excerpt, where


def crash_site(out):
    """(excerpt, file:line) when `out` (a dead driver's output) shows a panic whose innermost frame outside the Go runtime lies
    in the repository under test; None otherwise (harness panics, synctest deadlocks, build failures stay machinery errors)."""
    m = re.search(r"^(panic: .*|fatal error: .*)$", out, re.M)
    if not m:
        return None
    tail = out[m.start():]
    repo = os.path.abspath(REPO).rstrip("/") + "/"
    if "deadlock: all goroutines in bubble are blocked" in m.group(1) or "all goroutines are asleep - deadlock" in m.group(1):
        # a synctest bubble with nothing left to run. It is the code under test's doing when a goroutine of the HARNESS is
        # blocked inside a call into the repository (an API call that never returns): frames of the repository come before
        # the first harness frame on that goroutine's stack. Idle goroutines of the repository alone prove nothing.
        for g in re.findall(r"\ngoroutine \d+ \[[^\n]*\]:\n(.*?)(?=\n\ngoroutine |\Z)", tail, re.S):
            frames = re.findall(r"^\t(/[^\s:]+\.go):(\d+)", g, re.M)
            user = [f for f in frames if not (f[0].startswith("/opt/veriftools/") or "/src/runtime/" in f[0] or "/src/testing/" in f[0] or "/src/internal/" in f[0])]
            if user and (user[0][0].startswith(repo) or user[0][0].startswith("/repo/")) and any("/verif/harness/" in f[0] for f in user):
                return ("deadlock: a call into the code under test never returns\n" + g[:1800], "%s:%s" % user[0])
        return None
    g = re.search(r"\ngoroutine \d+ [^\n]*\[running[^\n]*\]:\n(.*?)(?:\n\n|\Z)", tail, re.S) or re.search(r"\ngoroutine \d+ [^\n]*:\n(.*?)(?:\n\n|\Z)", tail, re.S)
    if not g:
        return None
    for fr in re.findall(r"^\t(/[^\s:]+\.go):(\d+)", g.group(1), re.M):
        path = fr[0]
        if path.startswith("/opt/veriftools/") or "/src/runtime/" in path or "/src/testing/" in path or "/src/internal/" in path:
            continue
        if path.startswith(repo) or path.startswith("/repo/"):
            return (tail[:2500], "%s:%s" % (path, fr[1]))
        return None
    return None


class Hang(Machinery):
    """The code under test stopped making progress inside a driver (the driver's real-time watchdog wrote hang.json and
    left with exit status 7). A check for a property that promises completion may turn this into a violation."""

    def __init__(self, test, info, outdir):
        Machinery.__init__(self, "driver %s: the code under test made no progress for %ss: %s" % (test, info.get("seconds"), json.dumps(info.get("at"))[:600]))
        self.test, self.info, self.outdir = test, info, outdir


def log(*a):
    print(*a, flush=True)


def seed():
    try:
        return int(os.environ.get("VERIF_SEED", "1"))
    except ValueError:
        return 1


# --------------------------------------------------------------------------- workdirs
def workdir(pid_tag):
    d = os.path.join(VERIF, "out", pid_tag, "run-%d" % os.getpid())
    shutil.rmtree(d, ignore_errors=True)
    os.makedirs(d)
    return d


def copy_spec(subdir, dest):
    """Copy /verif/spec/<subdir>/* and the shared modules into the scratch dir."""
    for src in (os.path.join(VERIF, "spec", "common"), os.path.join(VERIF, "spec", subdir)):
        if os.path.isdir(src):
            for f in os.listdir(src):
                p = os.path.join(src, f)
                if os.path.isfile(p):
                    shutil.copy(p, dest)


# --------------------------------------------------------------------------- Go harness
def build_harness(dest, race=False, pkg="."):
    """Build the harness test binary from /repo's *current working tree* with -tags verif."""
    h = os.path.join(VERIF, "harness")
    shutil.copy(os.path.join(REPO, "go.sum"), os.path.join(h, "go.sum"))
    out = os.path.join(dest, "harness_race.test" if race else "harness.test")
    cmd = [GO, "test", "-tags", "verif", "-vet=off", "-c", "-o", out]
    if os.path.abspath(REPO) != "/repo":
        # experiments on a scratch copy of the repository (VERIF_REPO): same harness, module replaced by that copy
        alt = os.path.join(dest, "alt.mod")
        with open(alt, "w") as f:
            f.write(open(os.path.join(h, "go.mod")).read().replace("=> /repo", "=> " + os.path.abspath(REPO)))
        shutil.copy(os.path.join(REPO, "go.sum"), os.path.join(dest, "alt.sum"))
        cmd += ["-modfile", alt]
    if race:
        cmd.append("-race")
    if os.environ.get("VERIF_COVER"):
        # engineering aid (tools/cover.py): which statements of the repository the drivers of a check execute
        cmd += ["-cover", "-covermode", "atomic" if race else "set", "-coverpkg", "github.com/named-data/ndnd/..."]
    cmd.append(pkg)
    t0 = time.time()
    p = subprocess.run(cmd, cwd=h, env=GOENV, stdout=subprocess.PIPE, stderr=subprocess.STDOUT, text=True)
    if p.returncode != 0 or not os.path.exists(out):
        raise Machinery("harness build failed (is /repo buildable with -tags verif?):\n" + p.stdout[-4000:])
    log("  harness built in %.1fs" % (time.time() - t0))
    return out


def run_harness(binary, test, env=None, timeout=900, cwd=None, allow_fail=False):
    e = dict(GOENV)
    e["VERIF_SEED"] = str(seed())
    if env:
        e.update({k: str(v) for k, v in env.items()})
    cmd = [binary, "-test.run", "^%s$" % test, "-test.timeout", "%ds" % timeout, "-test.count", "1"]
    if os.environ.get("VERIF_COVER"):
        os.makedirs(os.environ["VERIF_COVER"], exist_ok=True)
        cmd += ["-test.coverprofile", os.path.join(os.environ["VERIF_COVER"], "%s-%d-%d.out" % (test, os.getpid(), int(time.time() * 1000) % 1000000))]
    t0 = time.time()
    try:
        p = subprocess.run(cmd, cwd=cwd or os.path.dirname(binary), env=e, stdout=subprocess.PIPE,
                           stderr=subprocess.STDOUT, text=True, timeout=timeout + 30, errors="replace")
    except subprocess.TimeoutExpired:
        raise Machinery("harness driver %s timed out" % test)
    log("  driver %s: rc=%d in %.1fs" % (test, p.returncode, time.time() - t0))
    hj = os.path.join(e.get("VERIF_OUT", ""), "hang.json")
    if p.returncode == 7 and e.get("VERIF_OUT") and os.path.exists(hj):
        raise Hang(test, json.load(open(hj)), e["VERIF_OUT"])
    if p.returncode != 0 and not allow_fail:
        site = crash_site(p.stdout)
        if site:
            raise Crash(test, site[0], site[1])
        raise Machinery("harness driver %s died (rc=%d):\n%s" % (test, p.returncode, p.stdout[-6000:]))
    return p


# --------------------------------------------------------------------------- TLC
class TLCResult:
    def __init__(self):
        self.status = "error"   # ok | violation | error | timeout
        self.kind = ""          # "Action property" | "Invariant" | "Temporal" | "Deadlock" | "PostCondition"
        self.name = ""          # violated property/invariant name
        self.generated = 0
        self.distinct = 0
        self.depth = 0
        self.out = ""
        self.states = []        # text of counterexample states
        self.wall = 0.0
        self.prints = []        # PrintT outputs

    def last_var(self, var):
        """value of `var` (a one-line scalar) in the last counterexample state"""
        for st in reversed(self.states):
            m = re.search(r"^/\\ %s = (.+)$" % re.escape(var), st, re.M)
            if m:
                return m.group(1).strip()
        return None


def tlc(cwd, module, cfg, workers=None, timeout=600, simulate=None, depth=None, tseed=None, extra=None,
        deadlock=True, heap=None, dfs=False):
    """Run TLC in `cwd` (a scratch copy). Always under a timeout, own metadir."""
    meta = os.path.join(cwd, "meta-%s-%d" % (os.path.basename(cfg), int(time.time() * 1000) % 100000))
    cmd = ["timeout", str(timeout), "java", "-XX:+UseParallelGC", "-Xss64m"]
    cmd.append("-Xmx" + (heap or os.environ.get("VERIF_TLC_HEAP", "6g")))   # bounded: several checks may run at once
    if dfs:
        cmd.append("-Dtlc2.tool.queue.IStateQueue=StateDeque")
    cmd += ["-cp", "/opt/veriftools/tla/tla2tools.jar:/opt/veriftools/tla/CommunityModules-deps.jar", "tlc2.TLC",
            "-metadir", meta, "-config", cfg, "-workers", str(workers or NCPU), "-noGenerateSpecTE"]
    if not deadlock:
        cmd.append("-deadlock")
    if simulate:
        cmd += ["-simulate", simulate]
    if depth:
        cmd += ["-depth", str(depth)]
    if tseed is not None:
        cmd += ["-seed", str(tseed)]
    if extra:
        cmd += extra
    cmd.append(module)
    t0 = time.time()
    p = subprocess.run(cmd, cwd=cwd, stdout=subprocess.PIPE, stderr=subprocess.STDOUT, text=True, errors="replace")
    r = TLCResult()
    r.wall = time.time() - t0
    r.out = p.stdout
    shutil.rmtree(meta, ignore_errors=True)
    m = re.findall(r"(\d+) states generated, (\d+) distinct states found", r.out)
    if m:
        r.generated, r.distinct = int(m[-1][0]), int(m[-1][1])
    m = re.search(r"The depth of the complete state graph search is (\d+)", r.out)
    if m:
        r.depth = int(m.group(1))
    r.prints = re.findall(r"^(<<.*>>)$", r.out, re.M)
    if p.returncode == 124:
        r.status = "timeout"
        return r
    mv = re.search(r"Error: (Action property|Invariant|Temporal properties?|Deadlock|Property) ?(\S*?) (?:is|was|were) violated", r.out)
    if "Error: Deadlock reached" in r.out:
        r.status, r.kind = "violation", "Deadlock"
    elif mv:
        r.status, r.kind, r.name = "violation", mv.group(1), mv.group(2)
    elif re.search(r"Error: Invariant (\S+) is violated", r.out):
        r.status, r.kind, r.name = "violation", "Invariant", re.search(r"Error: Invariant (\S+) is violated", r.out).group(1)
    elif "Temporal properties were violated" in r.out:
        r.status, r.kind = "violation", "Temporal"
    elif "The postcondition" in r.out and "violated" in r.out or "Error: Evaluating the post condition" in r.out or "Postcondition" in r.out and "violated" in r.out:
        r.status, r.kind = "violation", "PostCondition"
    elif "Model checking completed. No error has been found." in r.out or (simulate and p.returncode in (0,) and "Error:" not in r.out):
        r.status = "ok"
    elif simulate and "Error:" not in r.out:
        r.status = "ok"
    else:
        r.status = "error"
    # counterexample states
    parts = re.split(r"^State \d+: .*$", r.out, flags=re.M)
    if len(parts) > 1:
        r.states = [x.strip() for x in parts[1:]]
        # cut trailing statistics off the last state
        r.states[-1] = re.split(r"\n\d+ states generated|\nThe number of states|\nFinished in|\nError:", r.states[-1])[0]
    return r


def tlc_or_die(*a, **kw):
    r = tlc(*a, **kw)
    if r.status in ("error", "timeout"):
        raise Machinery("TLC %s on %s:\n%s" % (r.status, a[1], r.out[-3000:]))
    return r


# --------------------------------------------------------------------------- traces
def read_ndjson(path):
    with open(path) as f:
        return [json.loads(x) for x in f if x.strip()]


def write_ndjson(path, rows):
    with open(path, "w") as f:
        for r in rows:
            f.write(json.dumps(r, separators=(",", ":")) + "\n")


def split_executions(rows, reset_key="ev", reset_val="Reset"):
    """[(start_index, [rows])] ; every execution starts with a Reset row"""
    ex, cur, start = [], [], 0
    for i, r in enumerate(rows):
        if r.get(reset_key) == reset_val and cur:
            ex.append((start, cur))
            cur, start = [], i
        cur.append(r)
    if cur:
        ex.append((start, cur))
    return ex


# --------------------------------------------------------------------------- findings
def load_findings():
    p = os.path.join(VERIF, "known_findings.json")
    if not os.path.exists(p):
        return []
    return json.load(open(p)).get("findings", [])


def open_findings(pid):
    return [f for f in load_findings() if f.get("status") == "open" and pid in f.get("properties", [])]


# --------------------------------------------------------------------------- evidence
def evidence_path(pid):
    """where this run's evidence file is (evidence/ for runs against /repo itself, out/evidence-scratch/ otherwise)"""
    evdir = "evidence" if os.path.abspath(REPO) == "/repo" and not os.environ.get("VERIF_MAX_VIOL") else os.path.join("out", "evidence-scratch")
    return os.path.join(VERIF, evdir, pid + ".json")


def write_evidence(pid, tier, level, coverage, wall, violations=0, assumptions=None):
    ev = {"property_id": pid, "tier": tier, "seed": seed(), "level": level, "coverage": coverage,
          "assumptions": assumptions or [], "wall_s": round(wall, 2), "violations": violations}
    # evidence describes runs against /repo itself; experiments on a scratch copy (VERIF_REPO) and runs that are told
    # to stop at the first violations (VERIF_MAX_VIOL, seeded-defect runs) leave the evidence directory alone
    evdir = "evidence" if os.path.abspath(REPO) == "/repo" and not os.environ.get("VERIF_MAX_VIOL") else os.path.join("out", "evidence-scratch")
    os.makedirs(os.path.join(VERIF, evdir), exist_ok=True)
    with open(os.path.join(VERIF, evdir, pid + ".json"), "w") as f:
        json.dump(ev, f, indent=1)
    return ev


def save_violation(pid, rows, info):
    d = os.path.join(VERIF, "out", pid)
    os.makedirs(d, exist_ok=True)
    n = len(glob.glob(os.path.join(d, "viol-*.ndjson"))) + 1
    path = os.path.join(d, "viol-%d-%d.ndjson" % (os.getpid(), n))
    write_ndjson(path, rows)
    with open(path + ".info.json", "w") as f:
        json.dump(info, f, indent=1)
    return path


# --------------------------------------------------------------------------- trace validation loop
def validate_trace(wd, rows, module, cfg_head, props, invariants=(), label="trace", max_viol=12, timeout=900,
                   exempt_const=None):
    """Validate `rows` (executions separated by Reset rows) against <module> with the given rules.
    Returns dict(accepted_execs, events, violations=[{rule, kind, index, segment(rows), state}], blocked=None|info).
    A violated rule removes that execution from the trace and validation continues on the rest."""
    res = {"accepted_execs": 0, "events": 0, "violations": [], "blocked": None, "tlc_wall": 0.0}
    if os.environ.get("VERIF_MAX_VIOL"):      # seeded-defect runs only need to know THAT the check fires
        max_viol = min(max_viol, int(os.environ["VERIF_MAX_VIOL"]))
    rows = list(rows)
    it = 0
    while True:
        it += 1
        tf = os.path.join(wd, "%s.ndjson" % label)
        write_ndjson(tf, rows)
        cfg = os.path.join(wd, "%s_%d.cfg" % (label, it))
        with open(cfg, "w") as f:
            f.write(cfg_head.replace("@TRACE@", os.path.basename(tf)))
            if exempt_const is not None:
                f.write("\n")
            f.write("CONSTRAINT HiWater\nPOSTCONDITION Accepted\nCHECK_DEADLOCK FALSE\n")
            if props:
                f.write("PROPERTIES " + " ".join(props) + "\n")
            if invariants:
                f.write("INVARIANTS " + " ".join(invariants) + "\n")
        r = tlc(wd, module, os.path.basename(cfg), workers=1, timeout=timeout)
        res["tlc_wall"] += r.wall
        if r.status in ("error", "timeout"):
            raise Machinery("TLC %s while validating %s:\n%s" % (r.status, label, r.out[-3000:]))
        hw = None
        for p in r.prints:
            m = re.match(r'<<"hiwater", (\d+), (\d+)>>', p)
            if m:
                hw = (int(m.group(1)), int(m.group(2)))
        if r.status == "ok" or (r.status == "violation" and r.kind == "PostCondition"):
            if hw and hw[0] == hw[1] == len(rows) and r.status == "ok":
                res["accepted_execs"] = len(split_executions(rows)) if rows else 0
                res["events"] = len(rows)
                return res
            # blocked: no action of the module can consume line hw+1 (model/log drift, not a property verdict)
            res["blocked"] = {"hiwater": hw, "line": rows[hw[0]] if hw and hw[0] < len(rows) else None}
            return res
        if r.status == "violation" and r.kind in ("Action property", "Invariant"):
            lv = r.last_var("l")
            if lv is None:
                raise Machinery("cannot locate violated line in TLC output:\n" + r.out[-3000:])
            # action property: last state has l = k+1 where line k (1-based) was consumed by the bad step.
            # invariant: the state after consuming line k has l = k+1 as well.
            k = int(lv) - 1
            idx = k - 1
            execs = split_executions(rows)
            hit = None
            for (start, ex) in execs:
                if start <= idx < start + len(ex):
                    hit = (start, ex)
            if hit is None:
                raise Machinery("violated line %d outside the trace" % k)
            start, ex = hit
            seg = ex[: idx - start + 1]
            res["violations"].append({"rule": r.name, "kind": r.kind, "index": idx - start, "segment": seg,
                                      "state": r.states[-2] if len(r.states) >= 2 else (r.states[-1] if r.states else "")})
            rows = rows[:start] + rows[start + len(ex):]
            if len(res["violations"]) >= max_viol or not rows:
                res["accepted_execs"] = 0
                res["events"] = 0
                res["truncated"] = True
                return res
            continue
        raise Machinery("unexpected TLC outcome %s/%s:\n%s" % (r.status, r.kind, r.out[-3000:]))


# --------------------------------------------------------------------------- generic pipeline
def pipeline(pid, tier, replay, spec_dir, mc_runs, gens, drivers, replay_driver, trace_module, trace_head,
             props=(), invs=(), nontrivial=None, strip=None, rule_text="", assumptions=(), match_finding=None,
             chunk=30000, reset_key="ev", extra_cov=None, max_viol=12, binary=None, wd=None):
    """The pipeline of DESIGN 2.1 for one property:
    mc_runs : [(tag, module, cfg_text, workers, timeout)]             exhaustive TLC runs of the module (background)
    gens    : [(module, cfg_text, outdir, num, depth)]                TLC -simulate schedule generators
    drivers : [(test, env, [trace files])]                            harness drivers producing NDJSON traces
    replay_driver : (test, env-key for the path, trace file)          driver used for --replay
    """
    import threading
    t0 = time.time()
    wd = wd or workdir(pid)
    copy_spec(spec_dir, wd)
    thorough = tier == "thorough"
    mc = {}

    def mc_run(tag, module, cfgtext, workers, tmo):
        cfg = "mc_%s.cfg" % tag
        with open(os.path.join(wd, cfg), "w") as f:
            f.write(cfgtext)
        mc[tag] = tlc(wd, module, cfg, workers=workers, timeout=tmo)

    threads = []
    if not replay:
        for r in mc_runs:
            th = threading.Thread(target=mc_run, args=r)
            th.start()
            threads.append(th)
    binary = binary or build_harness(wd)
    rows, nsched, outcomes = [], 0, []
    if replay:
        test, key, tf = replay_driver
        run_harness(binary, test, {"VERIF_OUT": wd, key: os.path.abspath(replay)})
        rows = read_ndjson(os.path.join(wd, tf))
    else:
        for gi, (module, cfgtext, outdir, num, depth) in enumerate(gens):
            os.makedirs(os.path.join(wd, outdir), exist_ok=True)
            cfg = "gen_%d.cfg" % gi
            with open(os.path.join(wd, cfg), "w") as f:
                f.write(cfgtext)
            g = tlc(wd, module, cfg, workers=1, timeout=1200, simulate="num=%d" % num, depth=depth + 2, tseed=seed())
            k = len([x for x in os.listdir(os.path.join(wd, outdir)) if x.endswith(".ndjson")])
            if k == 0:
                raise Machinery("TLC generated no schedules (%s):\n%s" % (module, g.out[-2000:]))
            nsched += k
        for drv in drivers:
            (test, env, files), opt = drv[:3], (drv[3] if len(drv) > 3 else {})
            e = {"VERIF_OUT": wd}
            e.update({k: (os.path.join(wd, v[1:]) if isinstance(v, str) and v.startswith("@") else v) for k, v in env.items()})
            if opt.get("race"):
                # the driver runs under the Go race detector: a race report or a runtime crash of the code under test is an
                # observation about the code (outcome RACE / CRASH), not a machinery failure
                rb = build_harness(wd, race=True)
                e["GORACE"] = "halt_on_error=1 exitcode=66"
                p = run_harness(rb, test, e, timeout=3000, allow_fail=True)
                if p.returncode != 0:
                    what = "RACE" if "WARNING: DATA RACE" in p.stdout else ("CRASH" if ("fatal error:" in p.stdout or "panic:" in p.stdout) and "/repo/" in p.stdout else
                                                                            ("DEADLOCK" if "DEADLOCK" in p.stdout else None))
                    if what is None:
                        raise Machinery("harness driver %s died (rc=%d):\n%s" % (test, p.returncode, p.stdout[-6000:]))
                    os.makedirs(os.path.join(VERIF, "out", pid), exist_ok=True)
                    path = os.path.join(VERIF, "out", pid, "%s-%s-%d.txt" % (test, what.lower(), os.getpid()))
                    with open(path, "w") as f:
                        f.write(p.stdout[-20000:])
                    outcomes.append((what, path, p.stdout))
            else:
                run_harness(binary, test, e, timeout=3000)
            for tf in files:
                if os.path.exists(os.path.join(wd, tf)):
                    rows += read_ndjson(os.path.join(wd, tf))
    if not rows:
        raise Machinery("no trace recorded")
    execs = split_executions(rows, reset_key)
    chunks, cur = [], []
    for (_, ex) in execs:
        if cur and len(cur) + len(ex) > chunk:
            chunks.append(cur)
            cur = []
        cur += ex
    if cur:
        chunks.append(cur)
    accepted, events, viols = 0, 0, []
    head = trace_head(rows[0]) if callable(trace_head) else trace_head
    for ci, ch in enumerate(chunks):
        r = validate_trace(wd, ch, trace_module, head, list(props), invariants=list(invs), label="t%d" % ci, timeout=3000, max_viol=max_viol)
        if r["blocked"]:
            raise Machinery("trace not followable by the module (drift, no property verdict): %s" % json.dumps(r["blocked"])[:1500])
        accepted += r["accepted_execs"]
        events += r["events"]
        viols += r["violations"]
    for th in threads:
        th.join()
    for tag, x in mc.items():
        if x.status != "ok":
            raise Machinery("model checking (%s) did not pass: %s %s %s\n%s" % (tag, x.status, x.kind, x.name, x.out[-2500:]))
    known, rest = {}, []
    for v in viols:
        f = match_finding(pid, v) if match_finding else None
        if f:
            known[f["id"]] = f
        else:
            rest.append(v)
    strip = strip or (lambda ex: ex)
    for f in known.values():
        print("KNOWN-FINDING: property=%s %s" % (pid, f["what"]))
    rc = 0
    for (what, path, out) in outcomes:
        print("VIOLATION property=%s replay=%s" % (pid, path))
        m = re.search(r"(WARNING: DATA RACE.*?)(?:\n\n|==================)", out, re.S) if what == "RACE" else re.search(r"((?:fatal error|panic):.*?\n(?:.*\n){0,14})", out)
        log("  outcome %s while running the code under test%s" % (what, (":\n    " + m.group(1)[:1500].replace("\n", "\n    ")) if m else ""))
        rc = 1
    for v in rest:
        path = save_violation(pid, v["segment"], {"rule": v["rule"], "event": strip([v["segment"][-1]])[0], "model_state": v["state"]})
        print("VIOLATION property=%s replay=%s" % (pid, path))
        log("  rule %s violated at event %d of an execution: %s" % (v["rule"], v["index"], json.dumps(strip([v["segment"][-1]])[0])[:600]))
        rc = 1
    cov = {"states": max(1, sum(x.distinct for x in mc.values())), "transitions": max(1, sum(x.generated for x in mc.values())),
           "traces_validated_against_impl": accepted, "evaluations": events,
           "distinct_nontrivial": sum(1 for (_, ex) in execs if (nontrivial(ex) if nontrivial else True)),
           "rule": rule_text, "samples": [strip(ex[:5]) for (_, ex) in execs[:2]], "tlc_schedules": nsched,
           "known_findings": sorted(known.keys()),
           "model_checking": {k: {"distinct": x.distinct, "generated": x.generated, "depth": x.depth, "wall_s": round(x.wall, 1)} for k, x in mc.items()},
           "checker_cmd": "tlc <Module>MC (exhaustive, bounded) ; tlc -workers 1 %s (trace validation; rules %s)" % (trace_module, " ".join(list(props) + list(invs))),
           "exhaustive": False}
    if extra_cov:
        cov.update(extra_cov)
    write_evidence(pid, tier, "model_checking", cov, time.time() - t0, violations=len(rest) + len(outcomes), assumptions=list(assumptions))
    if rc == 0:
        shutil.rmtree(wd, ignore_errors=True)
    return rc


# --------------------------------------------------------------------------- sweeps of independent experiments
def validate_collect(wd, rows, module, head, label="sweep", timeout=3000):
    """For traces whose rows are independent experiments: the trace module defines `Failed` (set of names of the rules
    the line just consumed violates) and CONSTRAINT CollectViol prints <<"viol", index, Failed>>; TLC runs once over the
    whole trace and every violating row is reported. Returns (events, [(row_index0, [rule names])])."""
    tf = os.path.join(wd, "%s.ndjson" % label)
    write_ndjson(tf, rows)
    cfg = os.path.join(wd, "%s.cfg" % label)
    with open(cfg, "w") as f:
        f.write(head.replace("@TRACE@", os.path.basename(tf)))
        f.write("CONSTRAINT HiWater\nCONSTRAINT CollectViol\nPOSTCONDITION Accepted\nCHECK_DEADLOCK FALSE\n")
    r = tlc(wd, module, os.path.basename(cfg), workers=1, timeout=timeout)
    if r.status in ("error", "timeout") or (r.status == "violation" and r.kind != "PostCondition"):
        raise Machinery("TLC %s/%s while validating %s:\n%s" % (r.status, r.kind, label, r.out[-3000:]))
    hw = None
    viols = []
    for p in r.prints:
        m = re.match(r'<<"hiwater", (\d+), (\d+)>>', p)
        if m:
            hw = (int(m.group(1)), int(m.group(2)))
        m = re.match(r'<<"viol", (\d+), \{(.*)\}>>', p)
        if m:
            viols.append((int(m.group(1)) - 1, [x.strip().strip('"') for x in m.group(2).split(",") if x.strip()]))
    if not hw or hw[0] != hw[1] or hw[0] != len(rows):
        raise Machinery("sweep trace not fully consumed: %s\n%s" % (hw, r.out[-2000:]))
    return len(rows), viols
