package h

// Driver for spec/readv/Readvertise.tla (C19, stage readv): from a route in the forwarder's RIB to a prefix announced by
// the routing daemon. The real table.Rib with the real NlsrReadvertiser of a running management thread; its command
// Interests travel through the internal transport, a real forwarding thread and the FIB entry /localhost/nlsr to a local
// link-service face; the harness hands them to the real readvertise handler of a dv.Router (real engine) and reads the
// status of the reply. After every RIB operation: the routes in the RIB and the names the daemon announces.

import (
	"encoding/json"
	"fmt"
	"math/rand"
	"sort"
	"testing"
	"testing/synctest"
	"time"

	"github.com/named-data/ndnd/fw/core"
	"github.com/named-data/ndnd/fw/defn"
	"github.com/named-data/ndnd/fw/dispatch"
	"github.com/named-data/ndnd/fw/face"
	"github.com/named-data/ndnd/fw/fw"
	"github.com/named-data/ndnd/fw/mgmt"
	"github.com/named-data/ndnd/fw/table"
	enc "github.com/named-data/ndnd/std/encoding"
	mgmtdef "github.com/named-data/ndnd/std/ndn/mgmt_2022"
	spec "github.com/named-data/ndnd/std/ndn/spec_2022"
)

type readvOp struct {
	Ev     string `json:"ev"`
	Name   string `json:"name"`
	Face   uint64 `json:"face"`
	Origin uint64 `json:"origin"`
	Cost   uint64 `json:"cost"`
}

var readvNames = []string{"/p/a", "/p/b", "/q"}

func readvExec(t *testing.T, w *traceWriter, algo string, ops []readvOp) (events int) {
	synctest.Test(t, func(t *testing.T) {
		cfg := core.DefaultConfig()
		cfg.Core.LogLevel = "FATAL"
		cfg.Tables.Rib.ReadvertiseNlsr = true
		cfg.Fw.Threads = 1
		core.LoadConfig(cfg, "")
		core.InitializeLogger("")
		core.ShouldQuit = false
		face.Configure()
		table.Configure()
		fw.Configure()
		mgmt.Configure()
		table.CreateFIBTable(algo)
		table.VerifResetRib()
		table.VerifResetReadvertisers()
		crashed := ""
		guard := func(what string, f func()) {
			defer func() {
				if r := recover(); r != nil {
					crashed = what + ": " + fmt.Sprint(r)
				}
			}()
			f()
		}
		go guard("mgmt", func() { mgmt.MakeMgmtThread().Run() })
		th := fw.NewThread(0)
		fw.Threads = []*fw.Thread{th}
		dispatch.InitializeFWThreads([]dispatch.FWThread{th})
		go guard("fw", func() { th.Run() })
		synctest.Wait()
		tx := face.NewVerifMemTransportURI(defn.MakeUnixFaceURI("/run/nfd.sock"), defn.MakeFDFaceURI(9), defn.Local, 8800)
		ls := face.VerifMakeLinkService(tx, face.MakeNDNLPLinkServiceOptions())
		ls.Run(nil)
		synctest.Wait()
		table.FibStrategyTable.InsertNextHopEnc(nm("/localhost/nlsr"), ls.FaceID(), 0)
		dvn := mkAdvNode("/net/a")
		w.Emit(map[string]any{"ev": "Reset", "algo": algo})
		for _, op := range ops {
			if crashed != "" {
				break
			}
			switch op.Ev {
			case "register":
				table.Rib.AddEncRoute(nm(op.Name), &table.Route{FaceID: op.Face, Origin: op.Origin, Cost: op.Cost, Flags: table.RouteFlagChildInherit})
			case "unregister":
				table.Rib.RemoveRouteEnc(nm(op.Name), op.Face, op.Origin)
			case "facedown":
				table.Rib.CleanUpFace(op.Face)
			}
			synctest.Wait()
			time.Sleep(5 * time.Millisecond)
			synctest.Wait()
			// what left the forwarder towards the routing daemon, in order
			cmds := []map[string]any{}
			frames := tx.Frames
			tx.Frames = nil
			for _, fr := range frames {
				p, _, err := spec.ReadPacket(enc.NewBufferReader(fr))
				if err != nil || p.LpPacket == nil {
					continue
				}
				inner := p.LpPacket.Fragment.Join()
				q, _, err := spec.ReadPacket(enc.NewBufferReader(inner))
				if err != nil || q.Interest == nil || len(q.Interest.NameV) != 6 {
					continue
				}
				verb := string(q.Interest.NameV[3].Val)
				cp, err := mgmtdef.ParseControlParameters(enc.NewBufferReader(q.Interest.NameV[4].Val), false)
				cname := "?"
				if err == nil && cp.Val != nil && cp.Val.Name != nil {
					cname = cp.Val.Name.String()
				}
				dvn.face.FeedPacket(inner)
				synctest.Wait()
				time.Sleep(time.Millisecond)
				synctest.Wait()
				status := 0
				for {
					b, err := dvn.face.Consume()
					if err != nil {
						break
					}
					if d, _, err := spec.ReadPacket(enc.NewBufferReader(b)); err == nil && d.Data != nil && d.Data.NameV.Equal(q.Interest.NameV) {
						if cr, err := mgmtdef.ParseControlResponse(enc.NewBufferReader(d.Data.ContentV.Join()), true); err == nil && cr.Val != nil {
							status = int(cr.Val.StatusCode)
						}
					}
				}
				cmds = append(cmds, map[string]any{"verb": verb, "name": cname, "status": status})
			}
			rib := []map[string]any{}
			for _, e := range table.Rib.GetAllEntries() {
				for _, r := range e.GetRoutes() {
					if r.Origin == table.RouteOriginStatic && len(e.Name) >= 2 && e.Name[1].String() == "nfd" {
						continue // management's own prefixes (/localhost/nfd, /localhop/nfd) are routes of the daemon, not of this stage's clients
					}
					rib = append(rib, map[string]any{"name": e.Name.String(), "face": r.FaceID, "origin": r.Origin})
				}
			}
			names, _, _ := dvn.r.VerifPrefixesOf(nm("/net/a"))
			ann := []string{}
			for _, n := range names {
				ann = append(ann, n.String())
			}
			sort.Strings(ann)
			row := map[string]any{"ev": op.Ev, "name": op.Name, "face": op.Face, "origin": op.Origin, "cost": op.Cost, "cmds": cmds, "rib": rib, "dvann": ann, "op": op}
			if crashed != "" {
				row["crash"] = crashed
			}
			w.Emit(row)
			dvn.r.VerifDrainCmds()
			events++
		}
		// shutdown (as in the management driver)
		core.ShouldQuit = true
		if crashed == "" || crashed[:2] != "fw" {
			th.TellToQuit()
			<-th.HasQuit
		}
		for _, f := range face.FaceTable.GetAll() {
			f.Close()
			synctest.Wait()
		}
		ls.Close()
		synctest.Wait()
		drained := make(chan struct{})
		go func() {
			for {
				select {
				case <-th.VerifPitCS().UpdateTimer():
				case <-drained:
					return
				}
			}
		}()
		time.Sleep(10 * time.Second)
		synctest.Wait()
		close(drained)
		th.VerifDNL().Ticker.Stop()
	})
	return
}

func TestReadvGen(t *testing.T) {
	defer watchDriver("TestReadvGen")()
	w := newTrace("readv.ndjson")
	defer w.Close()
	n, length := envInt("VERIF_N", 40), envInt("VERIF_LEN", 30)
	rng := rand.New(rand.NewSource(verifSeed()*4241 + 3))
	total := 0
	for e := 0; e < n; e++ {
		var ops []readvOp
		for i := 0; i < length; i++ {
			op := readvOp{Name: readvNames[rng.Intn(len(readvNames))], Face: uint64(901 + rng.Intn(3)), Origin: []uint64{0, 65, 65, 128}[rng.Intn(4)], Cost: uint64(rng.Intn(3))}
			switch k := rng.Intn(10); {
			case k < 5:
				op.Ev = "register"
			case k < 9:
				op.Ev = "unregister"
			default:
				op.Ev = "facedown"
			}
			ops = append(ops, op)
		}
		total += readvExec(t, w, []string{"nametree", "hashtable"}[e%2], ops)
	}
	writeMeta("readv.meta.json", map[string]any{"executions": n, "events": total})
}

// TestReadvReplay re-executes the operations of a saved segment ($VERIF_REPLAY)
func TestReadvReplay(t *testing.T) {
	defer watchDriver("TestReadvReplay")()
	w := newTrace("readv_replay.ndjson")
	defer w.Close()
	var ops []readvOp
	algo := "nametree"
	readNdjson(envStr("VERIF_REPLAY", ""), func(line []byte) {
		var r struct {
			Ev   string   `json:"ev"`
			Algo string   `json:"algo"`
			Op   *readvOp `json:"op"`
		}
		if json.Unmarshal(line, &r) != nil {
			return
		}
		if r.Ev == "Reset" && r.Algo != "" {
			algo = r.Algo
		}
		if r.Op != nil {
			ops = append(ops, *r.Op)
		}
	})
	readvExec(t, w, algo, ops)
}
