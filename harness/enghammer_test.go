package h

// Free-running hammer for the application engine (C20, run under the race detector): several goroutines express
// Interests (some re-express from inside their callbacks), others feed Data and Nacks, attach and detach handlers and
// feed incoming Interests, all at once on ONE real basic.Engine with the real timer in real time. At quiescence every
// expressed Interest must have been resolved exactly once, and every Data result must satisfy its Interest.

import (
	"math/rand"
	"sync"
	"sync/atomic"
	"testing"
	"time"

	enc "github.com/named-data/ndnd/std/encoding"
	basic_engine "github.com/named-data/ndnd/std/engine/basic"
	"github.com/named-data/ndnd/std/ndn"
	spec "github.com/named-data/ndnd/std/ndn/spec_2022"
	sec "github.com/named-data/ndnd/std/security"
	"github.com/named-data/ndnd/std/utils"
)

// lockedFace: a face whose Send may be called from any goroutine (the repository's dummy face is test support for
// single-goroutine use)
type lockedFace struct {
	mu      sync.Mutex
	running atomic.Bool
	onPkt   func(r enc.ParseReader) error
	onErr   func(err error) error
	sent    int
}

func (f *lockedFace) IsRunning() bool { return f.running.Load() }
func (f *lockedFace) IsLocal() bool   { return true }
func (f *lockedFace) SetCallback(onPkt func(r enc.ParseReader) error, onError func(err error) error) {
	f.onPkt, f.onErr = onPkt, onError
}
func (f *lockedFace) Open() error  { f.running.Store(true); return nil }
func (f *lockedFace) Close() error { f.running.Store(false); return nil }
func (f *lockedFace) Send(pkt enc.Wire) error {
	f.mu.Lock()
	f.sent++
	f.mu.Unlock()
	return nil
}
func (f *lockedFace) feed(b []byte) { f.onPkt(enc.NewBufferReader(append([]byte(nil), b...))) }

func TestEngHammer(t *testing.T) {
	defer watchDriver("TestEngHammer")()
	w := newTrace("eng_hammer.ndjson")
	defer w.Close()
	rounds, per := envInt("VERIF_N", 6), envInt("VERIF_LEN", 400)
	data := engDataTable()
	for tr := 0; tr < rounds; tr++ {
		f := &lockedFace{}
		timer := basic_engine.NewTimer()
		eng := basic_engine.NewEngine(f, timer, sec.NewSha256IntSigner(timer), func(enc.Name, enc.Wire, ndn.Signature) bool { return true })
		eng.Start()
		w.Emit(map[string]any{"ev": "Reset", "mode": "hammer"})
		var mu sync.Mutex
		type ent struct {
			name enc.Name
			cbp  bool
			n    int
			bad  bool
		}
		ents := map[int]*ent{}
		var nextID atomic.Int64
		var express func(rng *rand.Rand, name enc.Name, cbp bool, re bool)
		express = func(rng *rand.Rand, name enc.Name, cbp bool, re bool) {
			id := int(nextID.Add(1))
			e := &ent{name: name, cbp: cbp}
			mu.Lock()
			ents[id] = e
			mu.Unlock()
			i, err := spec.Spec{}.MakeInterest(name, &ndn.InterestConfig{CanBePrefix: cbp, Lifetime: utils.IdPtr(time.Duration(5+id%25) * time.Millisecond), Nonce: utils.IdPtr(uint64(id))}, nil, nil)
			if err != nil {
				panic(err)
			}
			err = eng.Express(i, func(r ndn.ExpressCallbackArgs) {
				mu.Lock()
				e.n++
				if r.Result == ndn.InterestResultData {
					dn := r.Data.Name()
					if !(dn.Equal(name) || (cbp && name.IsPrefix(dn))) {
						e.bad = true
					}
				}
				mu.Unlock()
				if re && r.Result != ndn.InterestResultTimeout {
					express(rng, name, cbp, false) // from inside the callback
				}
			})
			if err != nil {
				panic(err)
			}
		}
		var wg sync.WaitGroup
		for g := 0; g < 8; g++ {
			wg.Add(1)
			go func() {
				defer wg.Done()
				rng := rand.New(rand.NewSource(verifSeed()*101 + int64(tr*16+g)))
				for k := 0; k < per; k++ {
					switch {
					case g < 4:
						express(rng, nm(engNames[rng.Intn(len(engNames))]), rng.Intn(3) == 0, rng.Intn(4) == 0)
					case g < 6:
						if rng.Intn(5) == 0 {
							i, _ := spec.Spec{}.MakeInterest(nm(engNames[rng.Intn(len(engNames))]), &ndn.InterestConfig{Nonce: utils.IdPtr(uint64(1))}, nil, nil)
							lp := &spec.Packet{LpPacket: &spec.LpPacket{Nack: &spec.NetworkNack{Reason: spec.NackReasonNoRoute}, Fragment: i.Wire}}
							pe := spec.PacketEncoder{}
							pe.Init(lp)
							f.feed(pe.Encode(lp).Join())
						} else {
							f.feed(data[1+rng.Intn(2*len(engDNames))].wire)
						}
					case g == 6:
						p := nm([]string{"/a", "/a/b", "/d", "/a/b/c"}[rng.Intn(4)])
						if rng.Intn(2) == 0 {
							eng.AttachHandler(p, func(args ndn.InterestHandlerArgs) {})
						} else {
							eng.DetachHandler(p)
						}
					default:
						i, _ := spec.Spec{}.MakeInterest(nm(engDNames[rng.Intn(len(engDNames))]), &ndn.InterestConfig{Nonce: utils.IdPtr(uint64(7)), Lifetime: utils.IdPtr(20 * time.Millisecond)}, nil, nil)
						f.feed(i.Wire.Join())
					}
					if k%16 == 0 {
						time.Sleep(time.Millisecond)
					}
				}
			}()
		}
		wg.Wait()
		time.Sleep(150 * time.Millisecond) // every lifetime (<= 30 ms + margin) is past
		mu.Lock()
		never, twice, wrong := 0, 0, 0
		for _, e := range ents {
			switch {
			case e.n == 0:
				never++
			case e.n > 1:
				twice++
			}
			if e.bad {
				wrong++
			}
		}
		n := len(ents)
		mu.Unlock()
		w.Emit(map[string]any{"ev": "hammer", "expressed": n, "never": never, "twice": twice, "wrong": wrong, "fired": []engFired{}})
		eng.Stop()
	}
}
