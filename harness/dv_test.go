package h

// Distance-vector routing conformance driver (spec/dv/DV.tla).
// N real dv.Routers (real table.Rib, NeighborTable, ribUpdate, checkDeadNeighbors, fibUpdate, prefix table and
// prefix-data fetch) on dummy engines in one synctest bubble; the harness is the network: a step
// `fetch(r,n)` hands n's current advertisement (through the real TLV encoder/decoder) to r, `sync(r,q)` tells r
// how far q's prefix log goes and relays r's real fetch Interests to q's real handlers until r has caught up.

import (
	"encoding/json"
	"fmt"
	"math/rand"
	"os"
	"sort"
	"testing"
	"testing/synctest"
	"time"

	"github.com/named-data/ndnd/dv/config"
	"github.com/named-data/ndnd/dv/dv"
	"github.com/named-data/ndnd/dv/tlv"
	enc "github.com/named-data/ndnd/std/encoding"
	basic_engine "github.com/named-data/ndnd/std/engine/basic"
	"github.com/named-data/ndnd/std/engine/dummy"
	"github.com/named-data/ndnd/std/log"
	"github.com/named-data/ndnd/std/ndn"
	spec "github.com/named-data/ndnd/std/ndn/spec_2022"
	sec "github.com/named-data/ndnd/std/security"
)

type dvNode struct {
	r     *dv.Router
	face  *dummy.DummyFace
	timer *dummy.Timer
	name  string
}

func mkDvNode(name string) *dvNode {
	face := dummy.NewDummyFace()
	timer := dummy.NewTimer()
	eng := basic_engine.NewEngine(face, timer, sec.NewSha256IntSigner(timer), func(enc.Name, enc.Wire, ndn.Signature) bool { return true })
	eng.Start()
	cfg := config.DefaultConfig()
	cfg.Network = "/net"
	cfg.Router = name
	r, err := dv.NewRouter(cfg, eng)
	if err != nil {
		panic(err)
	}
	r.VerifInitSelf()
	if err := r.VerifRegister(); err != nil {
		panic(err)
	}
	return &dvNode{r, face, timer, name}
}

type dvAct struct {
	Ev    string   `json:"ev"`
	R     int      `json:"r"`
	N     int      `json:"n"`
	A     int      `json:"a"`
	B     int      `json:"b"`
	Q     int      `json:"q"`
	P     int      `json:"p"`
	Links [][2]int `json:"links"`
	NN    int      `json:"nn"`
}

var dvPool = []string{"/p/a", "/p/b", "/q", "/q/r/s"}

type dvExec struct {
	n     int
	names []string // index r-1 -> router name, sorted by name hash (model id order = tie-break order)
	id    map[string]int
	rs    map[int]*dvNode
	links map[[2]int]bool
	pend  map[[2]int][][]byte // (r,q) -> PFX fetch Interests of r waiting for q
	base  map[int]uint64      // router -> sequence number of its prefix log before the first operation
	w     *traceWriter
	total int
}

func dvNames(n int) []string {
	c := []string{}
	for i := 0; i < n; i++ {
		c = append(c, fmt.Sprintf("/r/n%d", i))
	}
	sort.Slice(c, func(i, j int) bool { return nm(c[i]).Hash() < nm(c[j]).Hash() })
	return c
}

func (x *dvExec) faceOf(a, b int) uint64 { return uint64(100*a + b) }

func (x *dvExec) advOf(r int) []map[string]any {
	out := []map[string]any{}
	for _, e := range x.rs[r].r.VerifAdvert().Entries {
		nh := 0
		if e.NextHop != nil && e.NextHop.Name != nil {
			nh = x.id[e.NextHop.Name.String()]
		}
		out = append(out, map[string]any{"d": x.id[e.Destination.Name.String()], "nh": nh, "c": e.Cost, "o": e.OtherCost})
	}
	sort.Slice(out, func(i, j int) bool { return out[i]["d"].(int) < out[j]["d"].(int) })
	return out
}

// commands r issued to its forwarder for routing prefixes and announced prefixes (name encoded for the model)
func (x *dvExec) cmdsOf(r int) []map[string]any {
	out := []map[string]any{}
	for _, c := range x.rs[r].r.VerifDrainCmds() {
		if c.Module != "rib" || c.Args == nil || c.Args.Name == nil || c.Args.FaceId == nil {
			continue
		}
		nmv := c.Args.Name
		if len(nmv) > 0 && string(nmv[0].Val) == "localhop" {
			continue
		}
		var name []any
		if len(nmv) >= 2 && string(nmv[len(nmv)-1].Val) == "DV" {
			d, ok := x.id[nmv[:len(nmv)-1].String()]
			if !ok {
				continue
			}
			name = []any{"dv", d}
		} else {
			k := -1
			for i, p := range dvPool {
				if p == nmv.String() {
					k = i + 1
				}
			}
			if k < 0 {
				continue
			}
			name = []any{"pfx", k}
		}
		cost := 0
		if c.Args.Cost != nil {
			cost = int(*c.Args.Cost)
		}
		out = append(out, map[string]any{"cmd": c.Cmd, "name": name, "face": *c.Args.FaceId, "cost": cost})
	}
	return out
}

// collect packets the routers sent: PFX fetch Interests are kept for relaying, everything else is dropped
func (x *dvExec) collect() {
	for r := 1; r <= x.n; r++ {
		for {
			p, err := x.rs[r].face.Consume()
			if err != nil {
				break
			}
			pkt, _, perr := spec.ReadPacket(enc.NewBufferReader(p))
			if perr != nil || pkt.Interest == nil {
				continue
			}
			nmv := pkt.Interest.NameV
			for q := 1; q <= x.n; q++ {
				pfx := append(nm(x.names[q-1]), enc.NewStringComponent(enc.TypeKeywordNameComponent, "DV"), enc.NewStringComponent(enc.TypeKeywordNameComponent, "PFX"))
				if q != r && pfx.IsPrefix(nmv) {
					x.pend[[2]int{r, q}] = append(x.pend[[2]int{r, q}], append([]byte(nil), p...))
				}
			}
		}
	}
}

// picks: the best and second-best next hop router r has chosen for every destination it can reach
func (x *dvExec) picksOf(r int) []map[string]any {
	out := []map[string]any{}
	for _, e := range x.rs[r].r.VerifRib().Entries() {
		d := x.id[e.Name().String()]
		fes := x.rs[r].r.VerifRib().GetFibEntries(x.rs[r].r.VerifNeighbors(), e.Name().Hash())
		b, s := 0, 0
		if d == r {
			b = r
		}
		if len(fes) > 0 && fes[0].FaceId != 0 {
			b = int(fes[0].FaceId) % 100
		}
		if len(fes) > 1 && fes[1].FaceId != 0 && fes[1].Cost < 16 {
			s = int(fes[1].FaceId) % 100
		}
		out = append(out, map[string]any{"d": d, "b": b, "s": s})
	}
	sort.Slice(out, func(i, j int) bool { return out[i]["d"].(int) < out[j]["d"].(int) })
	return out
}

func (x *dvExec) emit(row map[string]any) {
	x.w.Emit(row)
	x.total++
}

func (x *dvExec) fetch(r, n int) {
	wire := x.rs[n].r.VerifAdvert().Encode()
	adv, err := tlv.ParseAdvertisement(enc.NewWireReader(wire), false)
	if err != nil {
		panic(err)
	}
	x.rs[r].r.VerifFetch(nm(x.names[n-1]), x.faceOf(r, n), adv)
	synctest.Wait()
	x.collect()
	x.emit(map[string]any{"ev": "fetch", "r": r, "n": n, "adv": x.advOf(r), "cmds": x.cmdsOf(r), "picks": x.picksOf(r)})
}

func (x *dvExec) connected(links map[[2]int]bool) bool {
	reach := map[int]bool{1: true}
	for k := 0; k < x.n; k++ {
		for l := range links {
			if reach[l[0]] || reach[l[1]] {
				reach[l[0]], reach[l[1]] = true, true
			}
		}
	}
	return len(reach) == x.n
}

func (x *dvExec) linkList() [][2]int {
	out := [][2]int{}
	for l := range x.links {
		out = append(out, l)
	}
	sort.Slice(out, func(i, j int) bool { return out[i][0]*100+out[i][1] < out[j][0]*100+out[j][1] })
	return out
}

func (x *dvExec) tables() string {
	s := ""
	for r := 1; r <= x.n; r++ {
		s += fmt.Sprint(x.advOf(r))
	}
	return s
}

// quiet: fair round-robin exchange until no advertisement changes, then log every table
func (x *dvExec) quiet() {
	rounds := 0
	for ; rounds < 60; rounds++ {
		before := x.tables()
		for _, l := range x.linkList() {
			x.fetch(l[0], l[1])
			x.fetch(l[1], l[0])
		}
		if before == x.tables() {
			break
		}
	}
	tab := []map[string]any{}
	for r := 1; r <= x.n; r++ {
		seen := map[int]bool{}
		for _, e := range x.advOf(r) {
			tab = append(tab, map[string]any{"r": r, "d": e["d"], "c": e["c"], "nh": e["nh"]})
			seen[e["d"].(int)] = true
		}
		for d := 1; d <= x.n; d++ {
			if !seen[d] {
				tab = append(tab, map[string]any{"r": r, "d": d, "c": 16, "nh": 0})
			}
		}
	}
	x.emit(map[string]any{"ev": "quiet", "tab": tab, "rounds": rounds})
}

func (x *dvExec) down(a, b int) {
	if a > b {
		a, b = b, a
	}
	delete(x.links, [2]int{a, b})
	x.emit(map[string]any{"ev": "down", "a": a, "b": b})
	x.deadPass([]int{a, b})
}

// rdown: router r loses all its links at once (several neighbours die in the same dead-check pass)
func (x *dvExec) rdown(r int) {
	affected := map[int]bool{r: true}
	for _, l := range x.linkList() {
		if l[0] == r || l[1] == r {
			delete(x.links, l)
			x.emit(map[string]any{"ev": "down", "a": l[0], "b": l[1]})
			affected[l[0]], affected[l[1]] = true, true
		}
	}
	rs := []int{}
	for k := range affected {
		rs = append(rs, k)
	}
	sort.Ints(rs)
	x.deadPass(rs)
}

// the dead interval passes; every remaining neighbour keeps being heard; one dead-check pass on each given router
func (x *dvExec) deadPass(routers []int) {
	time.Sleep(31 * time.Second)
	for l := range x.links {
		x.rs[l[0]].r.VerifPing(nm(x.names[l[1]-1]), x.faceOf(l[0], l[1]))
		x.rs[l[1]].r.VerifPing(nm(x.names[l[0]-1]), x.faceOf(l[1], l[0]))
	}
	for _, r := range routers {
		ns := []int{}
		for n := 1; n <= x.n; n++ {
			if n != r && !x.links[[2]int{min(r, n), max(r, n)}] && x.rs[r].r.VerifNeighbors().Get(nm(x.names[n-1])) != nil {
				ns = append(ns, n)
			}
		}
		x.rs[r].r.VerifDeadCheck()
		synctest.Wait()
		x.collect()
		if len(ns) > 0 {
			x.emit(map[string]any{"ev": "dead", "r": r, "ns": ns, "adv": x.advOf(r), "cmds": x.cmdsOf(r), "picks": x.picksOf(r)})
		}
	}
}

func (x *dvExec) up(a, b int) {
	if a > b {
		a, b = b, a
	}
	x.links[[2]int{a, b}] = true
	x.emit(map[string]any{"ev": "up", "a": a, "b": b})
}

func (x *dvExec) pubSeq(q int) uint64 {
	_, k, _ := x.rs[q].r.VerifPrefixesOf(nm(x.names[q-1]))
	return k
}

// sequence numbers start at a boot-time value; the model counts operations from 0
func (x *dvExec) rel(q int, s uint64) int {
	if s < x.base[q] {
		return 0
	}
	return int(s - x.base[q])
}

func (x *dvExec) announce(q, p int, withdraw bool) {
	if withdraw {
		x.rs[q].r.VerifWithdraw(nm(dvPool[p-1]))
		x.emit(map[string]any{"ev": "withdraw", "q": q, "p": p, "seq": x.rel(q, x.pubSeq(q))})
	} else {
		x.rs[q].r.VerifAnnounce(nm(dvPool[p-1]))
		x.emit(map[string]any{"ev": "announce", "q": q, "p": p, "seq": x.rel(q, x.pubSeq(q))})
	}
}

// sync: r learns q's latest sequence number; the harness relays r's fetch Interests to q and q's Data back
func (x *dvExec) sync(r, q int) {
	if !x.rs[r].r.VerifRib().Has(nm(x.names[q-1])) {
		return
	}
	qn := nm(x.names[q-1])
	x.rs[r].r.VerifLearnSeq(qn, x.pubSeq(q))
	for i := 0; i < 4000; i++ {
		synctest.Wait()
		x.collect()
		moved := false
		for _, p := range x.pend[[2]int{r, q}] {
			x.rs[q].face.FeedPacket(p)
			moved = true
		}
		x.pend[[2]int{r, q}] = nil
		synctest.Wait()
		for {
			p, err := x.rs[q].face.Consume()
			if err != nil {
				break
			}
			pkt, _, perr := spec.ReadPacket(enc.NewBufferReader(p))
			if perr == nil && pkt.Data != nil {
				x.rs[r].face.FeedPacket(p)
				moved = true
			}
		}
		synctest.Wait()
		if !moved {
			time.Sleep(20 * time.Millisecond)
			synctest.Wait()
			x.collect()
			_, known, latest := x.rs[r].r.VerifPrefixesOf(qn)
			if known >= latest && len(x.pend[[2]int{r, q}]) == 0 {
				break
			}
		}
	}
	synctest.Wait()
	x.collect()
	names, known, latest := x.rs[r].r.VerifPrefixesOf(qn)
	set := []int{}
	for _, n := range names {
		for i, p := range dvPool {
			if p == n.String() {
				set = append(set, i+1)
			}
		}
	}
	sort.Ints(set)
	x.emit(map[string]any{"ev": "sync", "r": r, "q": q, "set": set, "nset": len(names), "known": x.rel(q, known), "latest": x.rel(q, latest), "pseq": x.rel(q, x.pubSeq(q)), "cmds": x.cmdsOf(r)})
}

func runDvExecution(t *testing.T, w *traceWriter, n int, links [][2]int, next func(x *dvExec, i int) (dvAct, bool)) int {
	total := 0
	synctest.Test(t, func(t *testing.T) {
		x := &dvExec{n: n, names: dvNames(n), id: map[string]int{}, rs: map[int]*dvNode{}, links: map[[2]int]bool{}, pend: map[[2]int][][]byte{}, w: w}
		x.base = map[int]uint64{}
		for i, c := range x.names {
			x.id[c] = i + 1
			x.rs[i+1] = mkDvNode(c)
			x.base[i+1] = x.pubSeq(i + 1)
		}
		for _, l := range links {
			a, b := l[0], l[1]
			if a > b {
				a, b = b, a
			}
			x.links[[2]int{a, b}] = true
		}
		x.emit(map[string]any{"ev": "Reset", "nn": n, "links": x.linkList()})
		for i := 0; ; i++ {
			a, ok := next(x, i)
			if !ok {
				break
			}
			switch a.Ev {
			case "fetch":
				if x.links[[2]int{min(a.R, a.N), max(a.R, a.N)}] {
					x.fetch(a.R, a.N)
				}
			case "down":
				if x.links[[2]int{min(a.A, a.B), max(a.A, a.B)}] {
					x.down(a.A, a.B)
				}
			case "rdown":
				x.rdown(a.R)
			case "up":
				if a.A != a.B && !x.links[[2]int{min(a.A, a.B), max(a.A, a.B)}] {
					x.up(a.A, a.B)
				}
			case "quiet":
				x.quiet()
			case "announce":
				x.announce(a.Q, a.P, false)
			case "withdraw":
				x.announce(a.Q, a.P, true)
			case "sync":
				x.sync(a.R, a.Q)
			case "dead": // part of down
			default:
				panic("unknown dv action " + a.Ev)
			}
		}
		x.quiet()
		for r := 1; r <= n; r++ {
			x.rs[r].r.VerifDrainCmds()
		}
		total = x.total
	})
	return total
}

func randGraph(rng *rand.Rand, n int) [][2]int {
	for {
		var links [][2]int
		for a := 1; a <= n; a++ {
			for b := a + 1; b <= n; b++ {
				if rng.Intn(2) == 0 {
					links = append(links, [2]int{a, b})
				}
			}
		}
		reach := map[int]bool{1: true}
		for k := 0; k < n; k++ {
			for _, l := range links {
				if reach[l[0]] || reach[l[1]] {
					reach[l[0]], reach[l[1]] = true, true
				}
			}
		}
		if len(reach) == n {
			return links
		}
	}
}

// all connected labelled graphs on n nodes (used exhaustively for n <= 4)
func allGraphs(n int) [][][2]int {
	var pairs [][2]int
	for a := 1; a <= n; a++ {
		for b := a + 1; b <= n; b++ {
			pairs = append(pairs, [2]int{a, b})
		}
	}
	var out [][][2]int
	for m := 0; m < 1<<len(pairs); m++ {
		var links [][2]int
		for i, p := range pairs {
			if m&(1<<i) != 0 {
				links = append(links, p)
			}
		}
		reach := map[int]bool{1: true}
		for k := 0; k < n; k++ {
			for _, l := range links {
				if reach[l[0]] || reach[l[1]] {
					reach[l[0]], reach[l[1]] = true, true
				}
			}
		}
		if len(reach) == n {
			out = append(out, links)
		}
	}
	return out
}

func genDvAct(rng *rand.Rand, x *dvExec) dvAct {
	ll := x.linkList()
	if len(ll) == 0 {
		return dvAct{Ev: "up", A: 1 + rng.Intn(x.n), B: 1 + rng.Intn(x.n)}
	}
	switch k := rng.Intn(100); {
	case k < 55:
		l := ll[rng.Intn(len(ll))]
		if rng.Intn(2) == 0 {
			return dvAct{Ev: "fetch", R: l[0], N: l[1]}
		}
		return dvAct{Ev: "fetch", R: l[1], N: l[0]}
	case k < 61: // a link failure that keeps the graph connected
		for tries := 0; tries < 8; tries++ {
			l := ll[rng.Intn(len(ll))]
			rest := map[[2]int]bool{}
			for _, o := range ll {
				if o != l {
					rest[o] = true
				}
			}
			if x.connected(rest) {
				return dvAct{Ev: "down", A: l[0], B: l[1]}
			}
		}
		return dvAct{Ev: "quiet"}
	case k < 63:
		return dvAct{Ev: "up", A: 1 + rng.Intn(x.n), B: 1 + rng.Intn(x.n)}
	case k < 65: // a whole router goes away (its links come back through later "up" steps)
		if len(ll) > 2 {
			return dvAct{Ev: "rdown", R: 1 + rng.Intn(x.n)}
		}
		return dvAct{Ev: "quiet"}
	case k < 70:
		return dvAct{Ev: "quiet"}
	case k < 82:
		return dvAct{Ev: "announce", Q: 1 + rng.Intn(x.n), P: 1 + rng.Intn(len(dvPool))}
	case k < 88:
		return dvAct{Ev: "withdraw", Q: 1 + rng.Intn(x.n), P: 1 + rng.Intn(len(dvPool))}
	default:
		r := 1 + rng.Intn(x.n)
		q := 1 + rng.Intn(x.n)
		if q == r {
			q = q%x.n + 1
		}
		return dvAct{Ev: "sync", R: r, Q: q}
	}
}

// TestDvGen: VERIF_DVN routers; topologies: every connected graph for n <= 4 (cycled), random connected otherwise.
func TestDvGen(t *testing.T) {
	defer watchDriver("TestDvGen")()
	log.SetLevel(log.FatalLevel)
	n := envInt("VERIF_DVN", 4)
	w := newTrace(fmt.Sprintf("dv_n%d.ndjson", n))
	defer w.Close()
	nEx, ln := envInt("VERIF_N", 40), envInt("VERIF_LEN", 40)
	var graphs [][][2]int
	if n <= 4 {
		graphs = allGraphs(n)
	}
	total := 0
	for tr := 0; tr < nEx; tr++ {
		rng := rand.New(rand.NewSource(verifSeed()*15485863 + int64(tr)*31 + int64(n)))
		var links [][2]int
		if graphs != nil {
			links = graphs[tr%len(graphs)]
		} else {
			links = randGraph(rng, n)
		}
		burst := tr%7 == 6 // an operation burst that crosses the snapshot threshold between two syncs
		total += runDvExecution(t, w, n, links, func(x *dvExec, i int) (dvAct, bool) {
			limit := ln
			if burst {
				limit = ln + 130
			}
			if i >= limit {
				return dvAct{}, false
			}
			if burst && i == ln/2-2 { // the peer knows a non-empty set before the burst empties it (snapshot of an empty set)
				return dvAct{Ev: "announce", Q: 1, P: 1}, true
			}
			if burst && i == ln/2-1 {
				return dvAct{Ev: "sync", R: 2, Q: 1}, true
			}
			if burst && i >= ln/2 && i < ln/2+130 {
				if i == ln/2+129 {
					return dvAct{Ev: "sync", R: 2, Q: 1}, true
				}
				if i%2 == 0 {
					return dvAct{Ev: "announce", Q: 1, P: 1 + (i/2)%len(dvPool)}, true
				}
				return dvAct{Ev: "withdraw", Q: 1, P: 1 + (i/2)%len(dvPool)}, true
			}
			return genDvAct(rng, x), true
		})
	}
	writeMeta(fmt.Sprintf("dv_n%d.meta.json", n), map[string]any{"executions": nEx, "events": total})
}

// TestDvSched: replays a stored segment ($VERIF_REPLAY): only the inputs of the rows are used.
func TestDvSched(t *testing.T) {
	defer watchDriver("TestDvSched")()
	log.SetLevel(log.FatalLevel)
	var sched []dvAct
	readNdjson(os.Getenv("VERIF_REPLAY"), func(line []byte) {
		var a dvAct
		if err := json.Unmarshal(line, &a); err != nil {
			panic(err)
		}
		sched = append(sched, a)
	})
	if len(sched) == 0 || sched[0].Ev != "Reset" {
		panic("replay segment must start with a Reset row")
	}
	n := sched[0].NN
	w := newTrace("dv_sched.ndjson")
	defer w.Close()
	body := sched[1:]
	total := runDvExecution(t, w, n, sched[0].Links, func(x *dvExec, i int) (dvAct, bool) {
		if i >= len(body) {
			return dvAct{}, false
		}
		return body[i], true
	})
	writeMeta("dv_sched.meta.json", map[string]any{"executions": 1, "events": total, "n": n})
}
