package h

// Object client / store conformance driver (spec/object/ObjectFetch.tla, C15).
// (a) end to end: a producer and a consumer object.Client on real basic.Engines with dummy faces and the real timer (virtual time) in one
//     bubble; the harness is the network (it moves packets between the two faces, shuffles, drops first copies within
//     the retry budget); every consume run is one event with what the callback reported.
// (b) stores: operation histories (put / get exact / get prefix / remove / transactions) on MemoryStore and BoltStore,
//     every answer logged and compared with the abstract store of the specification.

import (
	"bytes"
	"fmt"
	"math/rand"
	"os"
	"testing"
	"testing/synctest"
	"time"

	enc "github.com/named-data/ndnd/std/encoding"
	basic_engine "github.com/named-data/ndnd/std/engine/basic"
	"github.com/named-data/ndnd/std/engine/dummy"
	"github.com/named-data/ndnd/std/log"
	"github.com/named-data/ndnd/std/ndn"
	spec "github.com/named-data/ndnd/std/ndn/spec_2022"
	"github.com/named-data/ndnd/std/object"
	sec "github.com/named-data/ndnd/std/security"
	"github.com/named-data/ndnd/std/utils"
)

type objNode struct {
	face  *dummy.DummyFace
	timer ndn.Timer
	eng   *basic_engine.Engine
	cli   *object.Client
}

func mkObjNode(store ndn.Store) *objNode {
	n := &objNode{face: dummy.NewDummyFace(), timer: basic_engine.NewTimer()}
	// (the real timer under the bubble's virtual clock: the test-only dummy.Timer loses events scheduled from another goroutine while it fires)
	n.eng = basic_engine.NewEngine(n.face, n.timer, sec.NewSha256IntSigner(n.timer), func(enc.Name, enc.Wire, ndn.Signature) bool { return true })
	n.eng.Start()
	n.cli = object.NewClient(n.eng, store)
	if err := n.cli.Start(); err != nil {
		panic(err)
	}
	return n
}

var objSizes = []int{1, 2, 7999, 8000, 8001, 15999, 16000, 16001, 24017, 80001, 96000}

func TestObjGen(t *testing.T) {
	log.SetLevel(log.FatalLevel)
	w := newTrace("obj.ndjson")
	defer w.Close()
	nEx, nEv := envInt("VERIF_N", 40), envInt("VERIF_LEN", 8)
	total := 0
	hw := startHangWatch("TestObjGen", time.Duration(envInt("VERIF_HANG_S", 60))*time.Second)
	defer close(hw.stop)
	for tr := 0; tr < nEx; tr++ {
		rng := rand.New(rand.NewSource(verifSeed()*6007 + int64(tr)))
		if only := envInt("VERIF_ONLY", -1); only >= 0 && tr != only {
			continue
		}
		dir, _ := os.MkdirTemp("", "verifbolt")
		synctest.Test(t, func(t *testing.T) {
			var store ndn.Store = object.NewMemoryStore()
			kind := "memory"
			if tr%2 == 1 {
				bs, err := object.NewBoltStore(dir + "/db")
				if err != nil {
					panic(err)
				}
				defer bs.Close()
				store, kind = bs, "bolt"
			}
			prod := mkObjNode(store)
			cons := mkObjNode(object.NewMemoryStore())
			w.Emit(map[string]any{"ev": "Reset", "store": kind})
			objs := []string{"/obj/x", "/obj/y"}
			newest := map[string][2]uint64{} // object -> (newest version, its size)
			for e := 0; e < nEv; e++ {
				on := objs[rng.Intn(2)]
				if tr == 2 && e <= 1 {
					on = objs[0]
				}
				k := rng.Intn(10)
				if tr == 2 && e == 0 {
					k = 0
				} else if tr == 2 && e == 1 {
					k = 9
				}
				switch {
				case k < 5:
					sz := objSizes[rng.Intn(len(objSizes))]
					if tr == 2 && e == 0 { // one object of more segments than the client's internal queues hold (1100 segments)
						sz = 1100*8000 - 123
					}
					content := make([]byte, sz)
					rng.Read(content)
					ver := uint64(1 + rng.Intn(1000))
					if rng.Intn(4) == 0 {
						ver = uint64(1) << uint(8*rng.Intn(4))
					}
					if rng.Intn(12) == 0 {
						ver = 0 // an "immutable" object
					}
					var wire enc.Wire
					rest := append([]byte{}, content...)
					for len(rest) > 0 {
						c := 1 + rng.Intn(len(rest))
						if rng.Intn(3) == 0 {
							c = len(rest)
						}
						wire = append(wire, rest[:c])
						rest = rest[c:]
					}
					pn := nm(on)
					if rng.Intn(2) == 0 { // the caller's name slice has room behind it, as names built with append have
						pn = append(make(enc.Name, 0, len(pn)+1+rng.Intn(5)), pn...)
					}
					if _, err := prod.cli.Produce(object.ProduceArgs{Name: pn, Content: wire, Version: utils.IdPtr(ver)}); err != nil {
						panic(err)
					}
					w.Emit(map[string]any{"ev": "produce", "n": strs(on), "ver": ver, "hash": hsh(content), "len": sz})
					if cur, ok := newest[on]; !ok || ver >= cur[0] {
						newest[on] = [2]uint64{ver, uint64(sz)}
					}
				case k < 6:
					store.Remove(nm(on), true)
					delete(newest, on)
					w.Emit(map[string]any{"ev": "remove", "n": strs(on)})
				default:
					type cRun struct {
						on                string
						got               bytes.Buffer
						completions       int
						errS              string
						done, inOrder     bool
						lastProg          int
						byVersion, exists bool
					}
					start := func(on string) *cRun {
						r := &cRun{on: on, inOrder: true, lastProg: -1}
						askName := nm(on)
						if cur, ok := newest[on]; ok {
							r.exists = true
							if rng.Intn(4) == 0 { // ask for the newest version by its full name, built the usual way
								askName = append(askName, enc.NewVersionComponent(cur[0]))
								r.byVersion = true
							}
						}
						cons.cli.Consume(askName, func(st *object.ConsumeState) bool {
							r.got.Write(st.Content())
							if st.Progress() < r.lastProg {
								r.inOrder = false
							}
							r.lastProg = st.Progress()
							if st.IsComplete() {
								r.completions++
								r.done = true
								if st.Error() != nil {
									r.errS = "error"
								}
							}
							return true
						})
						return r
					}
					dropped := map[string]int{}
					seenNonce := map[string]bool{}
					// black-hole mode: one segment (not the first) never gets through, so the fetch must fail once; the
					// Data of the other segments is held back and arrives only after the failure was reported
					bh := -1
					if cur, ok := newest[on]; ok && cur[1] > 16000 && rng.Intn(4) == 0 {
						bh = []int{2, 2, 2, 1}[rng.Intn(4)]
					}
					nack := rng.Intn(2) == 0
					// (object, segment) a packet is about; segment -1 for metadata / version discovery
					segOf := func(b enc.Buffer) (string, int) {
						p, _, err := spec.ReadPacket(enc.NewBufferReader(b))
						if err != nil {
							return "", -1
						}
						var n enc.Name
						if p.Interest != nil {
							n = p.Interest.NameV
						} else if p.Data != nil {
							n = p.Data.NameV
						}
						obj := ""
						if len(n) >= 2 {
							obj = "/" + string(n[0].Val) + "/" + string(n[1].Val)
						}
						for _, c := range n {
							if c.Typ == enc.TypeKeywordNameComponent {
								return obj, -1
							}
						}
						for _, c := range n {
							if c.Typ == enc.TypeSegmentNameComponent {
								return obj, int(c.NumberVal())
							}
						}
						return obj, -1
					}
					churn := 0
					A := start(on)
					// a second fetch running at the same time (an application fetching two objects): when the first one is
					// made to fail promptly, the second is kept waiting for its first segment until that has happened
					var B *cRun
					if rng.Intn(3) == 0 {
						other := objs[0]
						if other == on {
							other = objs[1]
						}
						B = start(other)
					}
					holdB := B != nil && bh >= 0 && nack
					var held, heldB, nacks []enc.Buffer
					var dbg []string
					hw.tick(map[string]any{"execution": tr, "event": e, "ev": "consume", "n": strs(on), "byVersion": A.byVersion, "blackhole": bh, "nack": nack, "concurrent": B != nil})
					for step := 0; step < 3000 && !(A.done && (B == nil || B.done)); step++ {
						hw.tick(nil)
						synctest.Wait()
						if A.done && len(heldB) > 0 {
							for _, p := range heldB {
								cons.face.FeedPacket(p)
							}
							heldB = nil
							synctest.Wait()
						}
						var batch []enc.Buffer
						for {
							p, err := cons.face.Consume()
							if err != nil {
								break
							}
							batch = append(batch, p)
						}
						if os.Getenv("VERIF_DEBUG") != "" && len(batch) > 0 {
							for _, b := range batch {
								o, sg := segOf(b)
								dbg = append(dbg, fmt.Sprintf("s%d:%s/%d", step, o, sg))
							}
						}
						rng.Shuffle(len(batch), func(i, j int) { batch[i], batch[j] = batch[j], batch[i] })
						var replies []enc.Buffer
						for _, b := range batch {
							if o, sg := segOf(b); bh >= 0 && o == A.on && sg == bh {
								if nack { // a final failure while other segments are still outstanding
									lp := &spec.Packet{LpPacket: &spec.LpPacket{Nack: &spec.NetworkNack{Reason: spec.NackReasonCongestion}, Fragment: enc.Wire{b}}}
									pe := spec.PacketEncoder{}
									pe.Init(lp)
									nacks = append(nacks, pe.Encode(lp).Join())
								}
								continue
							}
							key := string(b[:min(48, len(b))])
							if pk, _, err := spec.ReadPacket(enc.NewBufferReader(b)); err == nil && pk.Interest != nil {
								key = pk.Interest.NameV.String() // the loss budget is per Interest name: retransmissions carry fresh nonces
							}
							// the network is made of forwarders: an Interest repeating a (name, nonce) they have seen is a loop to them
							if pk, _, err := spec.ReadPacket(enc.NewBufferReader(b)); err == nil && pk.Interest != nil && pk.Interest.NonceV != nil {
								nk := fmt.Sprint(key, "#", *pk.Interest.NonceV)
								if seenNonce[nk] {
									continue
								}
								seenNonce[nk] = true
							}
							if rng.Intn(5) == 0 && dropped[key] < 2 { // losses stay inside the retry budget (3)
								dropped[key]++
								continue
							}
							prod.face.FeedPacket(b)
							synctest.Wait()
							nrep := 0
							for {
								p, err := prod.face.Consume()
								if err != nil {
									break
								}
								replies = append(replies, p)
								nrep++
							}
							if os.Getenv("VERIF_DEBUG") == "2" {
								o, sg := segOf(b)
								fmt.Println("  step", step, "fed", o, sg, "replies", nrep, "now", time.Now().Format("15:04:05.000"))
							}
						}
						// packets already handed to the face are in flight while the producer goes on writing to its store (other
						// objects are published and withdrawn): what was sent must not change underneath
						if len(replies) > 0 && churn < 12 && rng.Intn(3) == 0 {
							for c := 0; c < 3; c++ {
								churn++
								junk := make([]byte, 7000+rng.Intn(3000))
								for i := range junk {
									junk[i] = byte(churn*31 + i)
								}
								if _, err := prod.cli.Produce(object.ProduceArgs{Name: nm("/zz/scratch"), Content: enc.Wire{junk}, Version: utils.IdPtr(uint64(churn))}); err != nil {
									panic(err)
								}
								if churn > 1 {
									store.Remove(append(nm("/zz/scratch"), enc.NewVersionComponent(uint64(churn-1))), true)
								}
							}
						}
						rng.Shuffle(len(replies), func(i, j int) { replies[i], replies[j] = replies[j], replies[i] })
						replies = append(replies, nacks...)
						nacks = nil
						for _, p := range replies {
							o, sg := segOf(p)
							if bh >= 0 && o == A.on && sg >= 1 { // segment 0 opens the window; everything after it is late
								held = append(held, p)
								continue
							}
							if holdB && !A.done && o == B.on && sg == 0 {
								heldB = append(heldB, p)
								continue
							}
							cons.face.FeedPacket(p)
						}
						synctest.Wait()
						if len(batch) == 0 {
							time.Sleep(500 * time.Millisecond)
						}
					}
					for _, p := range held {
						cons.face.FeedPacket(p)
						synctest.Wait()
					}
					for i := 0; i < 10; i++ { // give late callbacks a chance to (wrongly) fire again
						time.Sleep(time.Second)
						synctest.Wait()
					}
					if os.Getenv("VERIF_DEBUG") != "" && (!A.done || (B != nil && !B.done) || (A.errS != "" && bh < 0 && A.exists) || (B != nil && B.errS != "" && B.exists)) {
						fmt.Println("STALL exec", tr, "event", e, "A", A.on, A.done, A.byVersion, "B", B != nil, "bh", bh, "nack", nack, "holdB", holdB, "trace", dbg)
					}
					for _, r := range []*cRun{A, B} {
						if r != nil {
							w.Emit(map[string]any{"ev": "consume", "n": strs(r.on), "completions": r.completions, "err": r.errS, "hash": hsh(r.got.Bytes()), "len": r.got.Len(),
								"chunksInOrder": r.inOrder, "lossy": r == A && bh >= 0, "byVersion": r.byVersion, "concurrent": B != nil})
						}
					}
				}
				total++
				w.w.Flush()
				hw.tick(nil)
			}
			prod.cli.Stop()
			cons.cli.Stop()
		})
		os.RemoveAll(dir)
	}
	writeMeta("obj.meta.json", map[string]any{"executions": nEx, "events": total})
}

// TestStoreGen: operation histories on both stores.
func TestStoreGen(t *testing.T) {
	w := newTrace("store.ndjson")
	defer w.Close()
	nEx, nEv := envInt("VERIF_N", 80), envInt("VERIF_LEN", 40)
	names := []string{"/o", "/o/a", "/o/a/v=1", "/o/a/v=1/seg=0", "/o/a/v=2/seg=0", "/o/a/v=0/seg=0", "/o/a/v=300/seg=0", "/o/b/v=7/seg=0", "/o/b/v=7/seg=1", "/p", "/p/v=255/seg=0", "/p/v=256/seg=0", "/o/a/v=0", "/q", "/q/v=0/seg=0", "/q/v=0/seg=1", "/q/v=0"}
	total := 0
	for tr := 0; tr < nEx; tr++ {
		rng := rand.New(rand.NewSource(verifSeed()*7121 + int64(tr)))
		dir, _ := os.MkdirTemp("", "verifbolt")
		var store ndn.Store = object.NewMemoryStore()
		kind := "memory"
		var bs *object.BoltStore
		if tr%2 == 1 {
			var err error
			bs, err = object.NewBoltStore(dir + "/db")
			if err != nil {
				panic(err)
			}
			store, kind = bs, "bolt"
		}
		w.Emit(map[string]any{"ev": "Reset", "store": kind})
		inTx := false
		id := 0
		for e := 0; e < nEv; e++ {
			n := names[rng.Intn(len(names))]
			row := map[string]any{}
			func() {
				defer func() {
					if r := recover(); r != nil {
						row = map[string]any{"ev": "P", "panic": fmt.Sprint(r)}
					}
				}()
				switch k := rng.Intn(20); {
				case k < 8:
					id++
					ver := uint64(0)
					for _, c := range nm(n) {
						if c.Typ == enc.TypeVersionNameComponent {
							ver = c.NumberVal()
						}
					}
					store.Put(nm(n), ver, []byte(fmt.Sprint("wire", id)))
					row = map[string]any{"ev": "put", "n": strs(n), "ver": ver, "id": id}
				case k < 14:
					prefix := rng.Intn(2) == 0
					wire, err := store.Get(nm(n), prefix)
					got := -1
					if err == nil && wire != nil {
						fmt.Sscanf(string(wire), "wire%d", &got)
					}
					row = map[string]any{"ev": "get", "n": strs(n), "prefix": prefix, "got": got}
				case k < 17:
					prefix := rng.Intn(2) == 0
					if inTx { // removals are not part of the transaction interface
						store.Get(nm(n), false)
						row = map[string]any{"ev": "noop"}
					} else {
						store.Remove(nm(n), prefix)
						row = map[string]any{"ev": "remove", "n": strs(n), "prefix": prefix}
					}
				case k < 18 && !inTx:
					store.Begin()
					inTx = true
					row = map[string]any{"ev": "begin"}
				case inTx && k < 19:
					store.Commit()
					inTx = false
					row = map[string]any{"ev": "commit"}
				case inTx:
					store.Rollback()
					inTx = false
					row = map[string]any{"ev": "rollback"}
				default:
					row = map[string]any{"ev": "noop"}
				}
			}()
			if row["ev"] != "noop" {
				w.Emit(row)
				total++
			}
		}
		if inTx {
			store.Rollback()
		}
		if bs != nil {
			bs.Close()
		}
		os.RemoveAll(dir)
	}
	writeMeta("store.meta.json", map[string]any{"executions": nEx, "events": total})
}
