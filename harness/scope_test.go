package h

// Face-scope driver (C09, spec/forwarder Forwarder.tla FaceScope): the real transport constructors classify faces as
// local / non-local; every /localhost rule of the forwarding thread rests on that. One "F" row per transport created.

import (
	"net"
	"os"
	"path/filepath"
	"testing"

	"github.com/named-data/ndnd/fw/core"
	"github.com/named-data/ndnd/fw/defn"
	"github.com/named-data/ndnd/fw/face"
)

// isLoopbackHost is the harness's own reading of "the peer is on this host" (127.0.0.0/8, ::1)
func isLoopbackHost(h string) bool {
	ip := net.ParseIP(h)
	if ip == nil {
		return false
	}
	if v4 := ip.To4(); v4 != nil {
		return v4[0] == 127
	}
	return ip.Equal(net.ParseIP("::1"))
}

func scopeStr(s defn.Scope) string {
	switch s {
	case defn.Local:
		return "local"
	case defn.NonLocal:
		return "nonlocal"
	}
	return "unknown"
}

func TestFaceScope(t *testing.T) {
	defer watchDriver("TestFaceScope")()
	cfg := core.DefaultConfig()
	cfg.Core.LogLevel = "FATAL"
	core.LoadConfig(cfg, "")
	core.InitializeLogger("")
	face.Configure()
	w := newTrace("fwd_scope.ndjson")
	defer w.Close()
	w.Emit(map[string]any{"ev": "Reset", "cap": 8, "algo": "nametree", "supp": 1, "suppm": 1})
	n, skipped := 0, 0
	kinds := map[string]int{}
	emit := func(kind, host string, loop bool, s defn.Scope) {
		kinds[kind]++
		w.Emit(map[string]any{"ev": "F", "kind": kind, "host": host, "loopback": loop, "scope": scopeStr(s)})
		n++
	}
	v4 := []string{"127.0.0.1", "127.0.0.2", "127.255.255.254", "10.0.0.1", "192.168.1.7", "172.16.0.9", "8.8.8.8", "126.255.255.255", "128.0.0.1", "169.254.1.1", "1.0.0.127"}
	v6 := []string{"::1", "2001:db8::1", "fe80::1", "fd00::127", "::2", "::ffff:10.0.0.1"}
	// zoned link-local addresses (on-link neighbours), on every interface that has a link-local address of its own
	if ifs, err := net.Interfaces(); err == nil {
		for _, ifc := range ifs {
			addrs, _ := ifc.Addrs()
			for _, a := range addrs {
				if ipn, ok := a.(*net.IPNet); ok && ipn.IP.To4() == nil && ipn.IP.IsLinkLocalUnicast() {
					v6 = append(v6, "fe80::1%"+ifc.Name, "fe80::abcd:1234%"+ifc.Name)
					break
				}
			}
		}
	}
	for ver, hosts := range map[int][]string{4: v4, 6: v6} {
		for _, hst := range hosts {
			for _, port := range []uint16{6363, 1, 65535} {
				// outgoing TCP (the constructor does not connect)
				if u := defn.MakeTCPFaceURI(ver, hst, port); u.IsCanonical() {
					if tr, err := face.MakeUnicastTCPTransport(u, nil, face.PersistencyPersistent); err == nil && tr != nil {
						emit("tcp-out", hst, isLoopbackHost(u.Path()), tr.Scope())
					} else {
						skipped++
					}
				}
				// outgoing UDP (connects a datagram socket: needs a route, which the sandbox has for loopback only)
				if u := defn.MakeUDPFaceURI(ver, hst, port); u.IsCanonical() {
					if tr, err := face.MakeUnicastUDPTransport(u, nil, face.PersistencyPersistent); err == nil && tr != nil {
						emit("udp-out", hst, isLoopbackHost(u.Path()), tr.Scope())
						tr.Close()
					} else {
						skipped++
					}
				}
			}
		}
	}
	// accepted TCP connections (loopback listeners; the peer of an accepted connection is what counts)
	for _, addr := range []string{"127.0.0.1:0", "[::1]:0"} {
		ln, err := net.Listen("tcp", addr)
		if err != nil {
			skipped++
			continue
		}
		go func() {
			c, err := net.Dial("tcp", ln.Addr().String())
			if err == nil {
				defer c.Close()
				buf := make([]byte, 1)
				c.Read(buf)
			}
		}()
		c, err := ln.Accept()
		if err == nil {
			host, _, _ := net.SplitHostPort(c.RemoteAddr().String())
			if tr, err := face.AcceptUnicastTCPTransport(c, nil, face.PersistencyOnDemand); err == nil && tr != nil {
				emit("tcp-accept", host, isLoopbackHost(host), tr.Scope())
			} else {
				skipped++
			}
			c.Close()
		}
		ln.Close()
	}
	// Unix stream socket
	dir, _ := os.MkdirTemp("", "verifsock")
	defer os.RemoveAll(dir)
	sock := filepath.Join(dir, "nfd.sock")
	if ln, err := net.Listen("unix", sock); err == nil {
		go func() {
			c, err := net.Dial("unix", sock)
			if err == nil {
				defer c.Close()
				buf := make([]byte, 1)
				c.Read(buf)
			}
		}()
		if c, err := ln.Accept(); err == nil {
			if tr, err := face.MakeUnixStreamTransport(defn.MakeFDFaceURI(9), defn.MakeUnixFaceURI(sock), c); err == nil && tr != nil {
				emit("unix", "", false, tr.Scope())
			} else {
				skipped++
			}
			c.Close()
		}
		ln.Close()
	}
	// the internal (management) face
	emit("internal", "", false, face.MakeInternalTransport().Scope())
	// how many transports of each kind were classified (outgoing TCP needs no network at all: its count is a floor)
	w.Emit(map[string]any{"ev": "F", "kind": "summary", "host": "", "loopback": false, "scope": "", "tcpOut": kinds["tcp-out"], "internal": kinds["internal"]})
	writeMeta("fwd_scope.meta.json", map[string]any{"executions": 1, "events": n, "skipped": skipped})
}
