package h

// Name-order conformance driver (spec/tlv/NameOrder.tla, C14): the universe of names and parser inputs comes from TLC
// (NameGen); the real Compare/Equal/IsPrefix/Hash/PrefixHash/Bytes/String/NameFromStr are evaluated on it.

import (
	"strings"
	"bytes"
	"encoding/json"
	"fmt"
	"math/rand"
	"os"
	"testing"

	enc "github.com/named-data/ndnd/std/encoding"
)

type jc struct {
	T uint64 `json:"t"`
	V []int  `json:"v"`
}

func toName(j []jc) enc.Name {
	n := enc.Name{}
	for _, c := range j {
		v := make([]byte, len(c.V))
		for i, x := range c.V {
			v[i] = byte(x)
		}
		n = append(n, enc.Component{Typ: enc.TLNum(c.T), Val: v})
	}
	return n
}
func toJ(n enc.Name) []jc {
	r := []jc{}
	for _, c := range n {
		v := []int{}
		for _, b := range c.Val {
			v = append(v, int(b))
		}
		r = append(r, jc{uint64(c.Typ), v})
	}
	return r
}
func sameShape(a, b []jc) bool {
	if len(a) != len(b) || len(a) == 0 {
		return false
	}
	for i := range a {
		if a[i].T != b[i].T || len(a[i].V) != len(b[i].V) {
			return false
		}
	}
	return true
}

func shortestNat(v []byte) bool {
	x := uint64(0)
	for _, b := range v {
		x = x<<8 | uint64(b)
	}
	return len(v) > 0 && len(v) <= 8 && enc.Nat(x).EncodingLength() == len(v)
}

func TestNames(t *testing.T) {
	defer watchDriver("TestNames")()
	var names [][]jc
	readNdjson(os.Getenv("VERIF_NAMES"), func(line []byte) {
		var j []jc
		if err := json.Unmarshal(line, &j); err != nil {
			panic(err)
		}
		if j == nil {
			j = []jc{}
		}
		for i := range j {
			if j[i].V == nil {
				j[i].V = []int{}
			}
		}
		names = append(names, j)
	})
	w := newTrace("names.ndjson")
	defer w.Close()
	w.Emit(map[string]any{"ev": "Reset", "universe": len(names)})
	total := 0
	for _, j := range names {
		n := toName(j)
		ev := map[string]any{"ev": "name", "n": j, "panic": "", "prefixHashOk": false, "bytesBack": []jc{}, "uriEligible": false, "uriErr": "", "uriBack": []jc{}}
		func() {
			defer func() {
				if r := recover(); r != nil {
					ev["panic"] = fmt.Sprint(r)
				}
			}()
			ph := n.PrefixHash()
			ok := len(ph) == len(n)+1
			for i := 0; ok && i <= len(n); i++ {
				for _, c := range n { // component hashes in between must not disturb name hashes
					c.Hash()
				}
				ok = ph[i] == n[:i].Hash()
			}
			ok = ok && fmt.Sprint(n.PrefixHash()) == fmt.Sprint(ph)
			ev["prefixHashOk"] = ok
			back, err := enc.NameFromBytes(n.Bytes())
			if err != nil {
				ev["bytesBack"] = []jc{{0, []int{}}}
			} else {
				ev["bytesBack"] = toJ(back)
			}
			elig := true
			for _, c := range n {
				if (c.Typ == 50 || c.Typ == 54) && !shortestNat(c.Val) {
					elig = false
				}
			}
			ev["uriEligible"] = elig
			uri := n.String()
			ub, err := enc.NameFromStr(uri)
			ev["uri"] = uri
			if err != nil {
				ev["uriErr"] = err.Error()
			} else {
				ev["uriBack"] = toJ(ub)
			}
		}()
		w.Emit(ev)
		total++
	}
	rng := rand.New(rand.NewSource(verifSeed()))
	nPairs := envInt("VERIF_PAIRS", 60000)
	for k := 0; k < nPairs; k++ {
		ja, jb := names[rng.Intn(len(names))], names[rng.Intn(len(names))]
		switch k % 10 {
		case 0:
			jb = ja
		case 1: // adversarially close: neighbours in the enumeration differ in one byte / length / type
			i := rng.Intn(len(names) - 1)
			ja, jb = names[i], names[i+1]
		case 3: // same shape (component count, types, value lengths), different bytes
			for tries := 0; tries < 200; tries++ {
				jc2 := names[rng.Intn(len(names))]
				if sameShape(ja, jc2) {
					jb = jc2
					break
				}
			}
		case 2: // prefix-related
			if len(ja) > 0 {
				jb = ja[:rng.Intn(len(ja))]
			}
		}
		a, b := toName(ja), toName(jb)
		row := map[string]any{"ev": "pair", "a": ja, "b": jb}
		func() {
			defer func() {
				if r := recover(); r != nil {
					row["panic"] = fmt.Sprint(r)
					row["cmp"], row["cmpRev"], row["eq"], row["encEq"], row["prefix"], row["hashEq"] = 99, 99, false, false, false, false
				}
			}()
			row["cmp"], row["cmpRev"], row["eq"] = a.Compare(b), b.Compare(a), a.Equal(b)
			ha := a.Hash()
			for _, c := range b {
				c.Hash()
			}
			hb := b.Hash()
			row["encEq"], row["prefix"], row["hashEq"] = bytes.Equal(a.Bytes(), b.Bytes()), a.IsPrefix(b), ha == hb
		}()
		w.Emit(row)
		total++
	}
	// the URI parser on adversarial strings
	readNdjson(os.Getenv("VERIF_STRINGS"), func(line []byte) {
		var s struct {
			S string `json:"s"`
		}
		json.Unmarshal(line, &s)
		s.S = strings.ReplaceAll(s.S, "HI", "\xc3\xa9\x80") // bytes >= 0x80 (the generator module writes them as the token HI)
		for _, str := range []string{s.S, "/" + s.S, s.S + "/", "/a/" + s.S} {
			outcome := "ok"
			func() {
				defer func() {
					if r := recover(); r != nil {
						outcome = "panic: " + fmt.Sprint(r)
					}
				}()
				if _, err := enc.NameFromStr(str); err != nil {
					outcome = "error"
				}
				if _, err := enc.ComponentFromStr(str); err != nil && outcome == "ok" {
					outcome = "ok"
				}
			}()
			w.Emit(map[string]any{"ev": "str", "s": str, "outcome": outcome})
			total++
		}
	})
	writeMeta("names.meta.json", map[string]any{"events": total})
}
