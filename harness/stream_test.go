package h

// Stream-framing conformance driver (spec/link/StreamFraming.tla): the real readTlvStream (forwarder side) reads
// streams of well-formed TLV blocks through a scripted io.Reader (chunk sizes: one byte, whole buffer, tiny, large,
// ends inside T or L); every Read and every frame handed up is an event.

import (
	"io"
	"math/rand"
	"net"
	"sync"
	"testing"
	"testing/synctest"
	"time"

	"github.com/named-data/ndnd/fw/face"
	enc "github.com/named-data/ndnd/std/encoding"
	appface "github.com/named-data/ndnd/std/engine/face"
)

type scriptReader struct {
	data        []byte
	chunks      []int
	i, off      int
	onRead      func(n int)
	pend        int
	eofTogether bool // the last bytes and io.EOF come in ONE Read call (n > 0, io.EOF), as the io.Reader contract allows
}

func (r *scriptReader) Read(p []byte) (int, error) {
	if r.pend > 0 { // the previous read's frames have all been delivered by now
		r.onRead(r.pend)
		r.pend = 0
	}
	if r.off >= len(r.data) {
		return 0, io.EOF
	}
	n := r.chunks[r.i%len(r.chunks)]
	r.i++
	if n > len(p) {
		n = len(p)
	}
	if n > len(r.data)-r.off {
		n = len(r.data) - r.off
	}
	copy(p, r.data[r.off:r.off+n])
	r.off += n
	r.pend = n
	if r.eofTogether && r.off >= len(r.data) {
		return n, io.EOF
	}
	return n, nil
}

func genBlocks(rng *rand.Rand, nb int) ([]byte, []map[string]any, []int) {
	return genBlocksSized(rng, nb, 0)
}

// genBlocksSized: fixed > 0 makes every block exactly that many bytes (a divisor of the receive buffer: block ends then fall on its end)
func genBlocksSized(rng *rand.Rand, nb int, fixed int) ([]byte, []map[string]any, []int) {
	var data []byte
	var blocks []map[string]any
	var bounds []int // offsets where a read may end inside a type/length field
	for b := 0; b < nb; b++ {
		var vlen int
		switch rng.Intn(7) {
		case 0:
			vlen = rng.Intn(3)
		case 1:
			vlen = 250 + rng.Intn(8)
		case 2:
			vlen = 8800 - 6 - rng.Intn(3)
		case 3:
			vlen = 8800 // too large with any header: skipped below
		default:
			vlen = rng.Intn(3000)
		}
		typ := enc.TLNum([]uint64{5, 6, 100, 253, 800, 70000}[rng.Intn(6)])
		if fixed > 0 {
			typ, vlen = 6, fixed-4 // 1-byte type, 3-byte length
		}
		hdr := make([]byte, typ.EncodingLength()+enc.TLNum(vlen).EncodingLength())
		p := typ.EncodeInto(hdr)
		enc.TLNum(vlen).EncodeInto(hdr[p:])
		if len(hdr)+vlen > 8800 {
			continue
		}
		blk := append(hdr, make([]byte, vlen)...)
		for i := len(hdr); i < len(blk); i++ {
			blk[i] = byte(rng.Intn(256))
		}
		for i := 1; i < len(hdr); i++ {
			bounds = append(bounds, len(data)+i)
		}
		data = append(data, blk...)
		blocks = append(blocks, map[string]any{"size": len(blk), "hash": hsh(blk), "end": len(data), "hdr": len(hdr)})
	}
	return data, blocks, bounds
}

func TestStreamGen(t *testing.T) {
	w := newTrace("stream.ndjson")
	defer w.Close()
	n := envInt("VERIF_N", 48)
	big := envInt("VERIF_FULL", 0) == 1
	total, bytesTotal := 0, 0
	hw := startHangWatch("TestStreamGen", time.Duration(envInt("VERIF_HANG_S", 60))*time.Second)
	defer close(hw.stop)
	for tr := 0; tr < n; tr++ {
		rng := rand.New(rand.NewSource(verifSeed()*7 + int64(tr)))
		hw.tick(map[string]any{"execution": tr, "what": "readTlvStream over scripted reads"})
		nb := 60 + rng.Intn(250)
		if tr%6 == 0 || tr%6 == 3 {
			nb = 8 + rng.Intn(10) // one-byte / tiny reads: keep the trace short
		}
		if big && tr%6 == 1 {
			nb = 4000
		}
		data, blocks, bounds := genBlocks(rng, nb)
		aligned := 0
		if tr%12 == 7 || tr%12 == 11 { // every read is one whole block and the blocks tile the 32-packet buffer exactly: more than one buffer of them
			aligned = []int{4400, 8800, 2200, 1100}[(tr/12)%4]
			data, blocks, bounds = genBlocksSized(rng, 32*8800/aligned+40, aligned)
		}
		bytesTotal += len(data)
		w.Emit(map[string]any{"ev": "Reset", "blocks": blocks})
		var chunks []int
		if aligned > 0 {
			for i := 0; i < len(blocks); i++ {
				chunks = append(chunks, aligned)
			}
		}
		switch {
		case aligned > 0:
		default:
			switch tr % 6 {
			case 0:
				chunks = []int{1}
			case 1:
				chunks = []int{1 << 20} // as much as the buffer takes
			case 2:
				for i := 0; i < 50; i++ {
					chunks = append(chunks, 1+rng.Intn(20000))
				}
			case 3:
				for i := 0; i < 50; i++ {
					chunks = append(chunks, 1+rng.Intn(7))
				}
			case 4: // every read ends inside a type or length field when possible
				prev := 0
				for _, b := range bounds {
					if b > prev {
						chunks = append(chunks, b-prev)
						prev = b
					}
				}
				chunks = append(chunks, 1<<20)
			default:
				for i := 0; i < 50; i++ {
					chunks = append(chunks, 8790+rng.Intn(20))
				}
			}
		}
		frames := []map[string]any{}
		sr := &scriptReader{data: data, chunks: chunks, eofTogether: tr%5 == 3}
		if tr%6 == 4 {
			sr.chunks = chunks // consumed once, then the large tail
		}
		sr.onRead = func(n int) {
			if n > 0 {
				hw.tick(nil) // (a reader that spins on empty reads, or never comes back for more, makes no progress)
			}
			w.Emit(map[string]any{"ev": "read", "n": n, "frames": frames})
			frames = []map[string]any{}
			total++
		}
		var err error
		func() {
			defer func() {
				if r := recover(); r != nil {
					err = io.ErrUnexpectedEOF
					w.Emit(map[string]any{"ev": "eof", "err": "PANIC"})
				}
			}()
			err = face.VerifReadTlvStream(sr, func(b []byte) {
				frames = append(frames, map[string]any{"size": len(b), "hash": hsh(b)})
			})
			if sr.pend > 0 {
				sr.onRead(sr.pend)
			}
			es := ""
			if err != nil {
				es = err.Error()
			}
			w.Emit(map[string]any{"ev": "eof", "err": es})
		}()
		total++
	}
	writeMeta("stream.meta.json", map[string]any{"executions": n, "events": total, "bytes": bytesTotal})
}

// TestStreamApp: the application-side StreamFace (std/engine/face) reads the same kind of streams from a net.Pipe;
// each Write of the harness is one "read" event (a pipe read never returns more than one write provides).
func TestStreamApp(t *testing.T) {
	w := newTrace("stream_app.ndjson")
	defer w.Close()
	n := envInt("VERIF_N", 24)
	total := 0
	for tr := 0; tr < n; tr++ {
		rng := rand.New(rand.NewSource(verifSeed()*11 + int64(tr)))
		nb := 30 + rng.Intn(60)
		if tr%4 == 0 {
			nb = 6 + rng.Intn(6)
		}
		data, blocks, bounds := genBlocks(rng, nb)
		synctest.Test(t, func(t *testing.T) {
			a, b := net.Pipe()
			f := appface.NewVerifStreamFace(b)
			var mu sync.Mutex
			frames := []map[string]any{}
			f.SetCallback(func(r enc.ParseReader) error {
				buf := r.Range(0, r.Length()).Join()
				mu.Lock()
				frames = append(frames, map[string]any{"size": len(buf), "hash": hsh(buf)})
				mu.Unlock()
				return nil
			}, func(err error) error { return err })
			crashed := ""
			go func() { // a panic of the face's reader is an outcome, not a harness failure
				defer func() {
					if r := recover(); r != nil {
						mu.Lock()
						crashed = "PANIC"
						mu.Unlock()
						go io.Copy(io.Discard, b) // keep the writer from blocking
					}
				}()
				f.Run()
				// the read loop gave up although the stream is intact: what follows is never delivered
				mu.Lock()
				if crashed == "" {
					crashed = "STOPPED"
				}
				mu.Unlock()
				go io.Copy(io.Discard, b)
			}()
			w.Emit(map[string]any{"ev": "Reset", "blocks": blocks, "mode": "app"})
			off, bi := 0, 0
			for off < len(data) {
				var c int
				switch tr % 4 {
				case 0:
					c = 1
				case 1:
					c = 1 + rng.Intn(20000)
				case 2:
					c = 1 + rng.Intn(9)
				default: // end inside a type/length field when possible
					for bi < len(bounds) && bounds[bi] <= off {
						bi++
					}
					if bi < len(bounds) {
						c = bounds[bi] - off
					} else {
						c = len(data) - off
					}
				}
				if c > len(data)-off {
					c = len(data) - off
				}
				a.Write(data[off : off+c])
				off += c
				synctest.Wait()
				mu.Lock()
				w.Emit(map[string]any{"ev": "read", "n": c, "frames": frames})
				frames = []map[string]any{}
				mu.Unlock()
				total++
			}
			mu.Lock()
			w.Emit(map[string]any{"ev": "eof", "err": crashed})
			mu.Unlock()
			total++
			a.Close()
			synctest.Wait()
		})
	}
	writeMeta("stream_app.meta.json", map[string]any{"executions": n, "events": total})
}

// slowConn yields between writes, so that another sender gets to run while a multi-buffer wire is being written
type slowConn struct{ net.Conn }

func (c slowConn) Write(p []byte) (int, error) {
	time.Sleep(200 * time.Microsecond) // real time: this driver runs outside a bubble (a sleep under the send mutex would stall one)
	return c.Conn.Write(p)
}

// TestStreamSend (spec/link/StreamSend.tla): several goroutines send multi-buffer wires on ONE real application StreamFace;
// the peer reads the raw stream. Every buffer is filled with a byte that identifies (sender, packet, buffer), so the order in
// which buffers reached the connection can be read off the stream.
func TestStreamSend(t *testing.T) {
	defer watchDriver("TestStreamSend")()
	w := newTrace("stream_send.ndjson")
	defer w.Close()
	n := envInt("VERIF_N", 40)
	for tr := 0; tr < n; tr++ {
		rng := rand.New(rand.NewSource(verifSeed()*13 + int64(tr)))
		func() {
			a, b := net.Pipe()
			f := appface.NewVerifStreamFace(slowConn{a})
			type bufID struct{ s, k, b int }
			ids := map[byte]bufID{}
			lens := map[byte]int{}
			var plans [][]enc.Wire
			next := byte(1)
			total, buffers := 0, 0
			for s := 1; s <= 2+rng.Intn(2); s++ {
				var pk []enc.Wire
				for k := 1; k <= 1+rng.Intn(3); k++ {
					var wire enc.Wire
					for bb := 1; bb <= []int{1, 1, 2, 3, 4}[rng.Intn(5)]; bb++ {
						l := 1 + rng.Intn(40)
						buf := make([]byte, l)
						for i := range buf {
							buf[i] = next
						}
						ids[next], lens[next] = bufID{s, k, bb}, l
						next++
						total += l
						buffers++
						wire = append(wire, buf)
					}
					pk = append(pk, wire)
				}
				plans = append(plans, pk)
			}
			errs := 0
			var mu sync.Mutex
			var wg sync.WaitGroup
			for _, pk := range plans {
				wg.Add(1)
				go func() {
					defer wg.Done()
					for _, wire := range pk {
						if err := f.Send(wire); err != nil {
							mu.Lock()
							errs++
							mu.Unlock()
						}
					}
				}()
			}
			got := make([]byte, 0, total)
			rd := make(chan struct{})
			go func() {
				defer close(rd)
				tmp := make([]byte, 64)
				for len(got) < total {
					k, err := b.Read(tmp)
					got = append(got, tmp[:k]...)
					if err != nil {
						return
					}
				}
			}()
			wg.Wait()
			<-rd
			a.Close()
			b.Close()
			runs := []map[string]int{}
			garbage := 0
			seen := map[byte]bool{}
			for i := 0; i < len(got); {
				j := i
				for j < len(got) && got[j] == got[i] {
					j++
				}
				id, ok := ids[got[i]]
				if !ok || seen[got[i]] || j-i != lens[got[i]] {
					garbage++ // a buffer cut in two, repeated or unknown
				} else {
					runs = append(runs, map[string]int{"s": id.s, "k": id.k, "b": id.b})
				}
				seen[got[i]] = true
				i = j
			}
			w.Emit(map[string]any{"ev": "sent", "runs": runs, "buffers": buffers, "garbage": garbage, "errors": errs})
		}()
	}
}
