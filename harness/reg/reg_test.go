package reg

// Conformance drivers over EVERY generated TLV model (registry generated at check time by tools/genreg from the
// zz_generated.go files of the repository): type-directed value builder, round trip, unknown-element insertion
// (spec/tlv/ParseLoop.tla, C13) and structure-aware mutation of valid encodings (spec/tlv/RecvPath.tla, C04).

import (
	"bufio"
	"encoding/json"
	"fmt"
	"os"
	"path/filepath"
	"reflect"
	"strconv"
	"testing"
	"time"

	enc "github.com/named-data/ndnd/std/encoding"
	"github.com/named-data/ndnd/std/engine/dummy"
	"github.com/named-data/ndnd/std/ndn"
	spec "github.com/named-data/ndnd/std/ndn/spec_2022"
	sec "github.com/named-data/ndnd/std/security"
	"github.com/named-data/ndnd/std/utils"
)

type regModel struct {
	name   string
	mk     func() any
	parse  func(r enc.ParseReader, ic bool) (any, error)
	encode func(v any) enc.Wire
}

func envInt(k string, def int) int {
	if s := os.Getenv(k); s != "" {
		if v, err := strconv.Atoi(s); err == nil {
			return v
		}
	}
	return def
}

func outFile(name string) (*os.File, *bufio.Writer) {
	d := os.Getenv("VERIF_OUT")
	if d == "" {
		d = "/verif/out/manual"
	}
	os.MkdirAll(d, 0o755)
	f, err := os.Create(filepath.Join(d, name))
	if err != nil {
		panic(err)
	}
	return f, bufio.NewWriterSize(f, 1<<20)
}

func emit(w *bufio.Writer, v any) {
	b, _ := json.Marshal(v)
	w.Write(b)
	w.WriteByte('\n')
}

var nameT = reflect.TypeOf(enc.Name{})
var wireT = reflect.TypeOf(enc.Wire{})
var durT = reflect.TypeOf(time.Duration(0))
var compT = reflect.TypeOf(enc.Component{})

// mix decorrelates the variant numbers of sibling fields (so that e.g. "first field present, second nil" and the
// reverse both occur); variant 0..2 keep the plain numbering so the smallest cases stay simple
func mix(k, i, depth int) int {
	if k < 3 {
		return k + i*3
	}
	x := uint32(k)*2654435761 ^ uint32(i+1)*40503 ^ uint32(depth+1)*2246822519
	x ^= x >> 15
	x *= 2246822519
	x ^= x >> 13
	return int(x % 10007)
}

// nonNil picks a variant number for which pointers, names, wires and byte strings are present
func nonNil(k int) int {
	for k%3 == 0 || k%4 == 0 || k%5 == 0 {
		k++
	}
	return k
}

func blen(k int) int { return []int{0, 1, 5, 252, 253, 256, 300}[k%7] }
func num(k int) uint64 {
	return []uint64{0, 1, 255, 256, 65535, 65536, 1<<32 - 1, 1 << 32, 1<<63 + 5}[k%9]
}

// fill sets every settable field of the struct v according to variant k (nil/empty/boundary/large values)
func fill(v reflect.Value, k int, depth int) bool {
	ok := true
	for i := 0; i < v.NumField(); i++ {
		f := v.Field(i)
		if !f.CanSet() {
			continue
		}
		ok = setVal(f, mix(k, i, depth), depth) && ok
	}
	return ok
}

func setVal(f reflect.Value, k int, depth int) bool {
	t := f.Type()
	switch {
	case t == nameT:
		if k%5 == 0 {
			return true // nil name
		}
		n := enc.Name{}
		if k%11 == 7 { // many empty components: 2 bytes each, the densest a name can be
			for j := 0; j < 4+k%5; j++ {
				n = append(n, enc.Component{Typ: 8, Val: []byte{}})
			}
		}
		for j := 0; j <= k%3; j++ {
			n = append(n, enc.Component{Typ: 8, Val: make([]byte, blen(k+j))})
		}
		f.Set(reflect.ValueOf(n))
	case t == compT:
		f.Set(reflect.ValueOf(enc.Component{Typ: 8, Val: make([]byte, blen(k))}))
	case t == wireT:
		if k%4 == 0 {
			return true
		}
		if k%4 == 1 {
			f.Set(reflect.ValueOf(enc.Wire{make([]byte, blen(k)), make([]byte, 3)}))
		} else {
			f.Set(reflect.ValueOf(enc.Wire{make([]byte, blen(k))}))
		}
	case t == durT:
		f.SetInt(int64(time.Duration(num(k)%100000) * time.Millisecond))
	case t.Kind() == reflect.Ptr:
		if k%3 == 0 {
			return true // nil optional
		}
		nv := reflect.New(t.Elem())
		if t.Elem().Kind() == reflect.Struct {
			if depth > 3 {
				return true
			}
			if !fill(nv.Elem(), k, depth+1) {
				return false
			}
		} else if !setVal(nv.Elem(), k, depth) {
			return false
		}
		f.Set(nv)
	case t.Kind() == reflect.Slice && t.Elem().Kind() == reflect.Uint8:
		if k%4 == 0 {
			return true
		}
		f.SetBytes(make([]byte, blen(k)))
	case t.Kind() == reflect.Slice:
		n := k % 3
		s := reflect.MakeSlice(t, n, n)
		for j := 0; j < n; j++ {
			if !setVal(s.Index(j), nonNil(k+j+1), depth+1) {
				return false
			}
		}
		if n > 0 {
			f.Set(s)
		}
	case t.Kind() == reflect.Struct:
		return fill(f, k, depth+1)
	case t.Kind() == reflect.String:
		f.SetString(string(make([]byte, blen(k))))
	case t.Kind() == reflect.Bool:
		f.SetBool(k%2 == 0)
	case t.Kind() == reflect.Uint64, t.Kind() == reflect.Uint32, t.Kind() == reflect.Uint16, t.Kind() == reflect.Uint8, t.Kind() == reflect.Uint:
		x := num(k)
		if t.Bits() < 64 {
			x &= 1<<uint(t.Bits()) - 1
		}
		f.SetUint(x)
	case t.Kind() == reflect.Int64, t.Kind() == reflect.Int:
		f.SetInt(int64(num(k) % (1 << 40)))
	case t.Kind() == reflect.Map:
		n := k % 3
		m := reflect.MakeMap(t)
		for j := 0; j < n; j++ {
			kk := reflect.New(t.Key()).Elem()
			vv := reflect.New(t.Elem()).Elem()
			if !setVal(kk, nonNil(k+j+1), depth+1) || !setVal(vv, nonNil(k+j+2), depth+1) {
				return false
			}
			if kk.Kind() == reflect.String {
				kk.SetString(fmt.Sprint("k", j)) // distinct keys
			} else if kk.CanUint() {
				kk.SetUint(uint64(j + 1))
			}
			m.SetMapIndex(kk, vv)
		}
		if n > 0 {
			f.Set(m)
		}
	default:
		return false
	}
	return true
}

// same: semantic equality of two values of a generated model (nil and empty are the same thing for names, wires,
// byte strings and sequences; unexported fields do not count)
func same(a, b reflect.Value) bool {
	if a.Kind() != b.Kind() {
		return false
	}
	switch a.Kind() {
	case reflect.Ptr, reflect.Interface:
		if a.IsNil() || b.IsNil() {
			return a.IsNil() == b.IsNil()
		}
		return same(a.Elem(), b.Elem())
	case reflect.Struct:
		for i := 0; i < a.NumField(); i++ {
			if !a.Type().Field(i).IsExported() {
				continue
			}
			if !same(a.Field(i), b.Field(i)) {
				return false
			}
		}
		return true
	case reflect.Slice:
		if a.Type() == wireT {
			return string(a.Interface().(enc.Wire).Join()) == string(b.Interface().(enc.Wire).Join())
		}
		if a.Len() != b.Len() {
			return false
		}
		for i := 0; i < a.Len(); i++ {
			if !same(a.Index(i), b.Index(i)) {
				return false
			}
		}
		return true
	case reflect.Map:
		if a.Len() != b.Len() {
			return false
		}
		for _, k := range a.MapKeys() {
			bv := b.MapIndex(k)
			if !bv.IsValid() || !same(a.MapIndex(k), bv) {
				return false
			}
		}
		return true
	default:
		return reflect.DeepEqual(a.Interface(), b.Interface())
	}
}

// tlvSpans walks a byte string as a sequence of TLVs with an independent 20-line reader; ok=false if it is not one
func readVar(b []byte) (uint64, int) {
	if len(b) == 0 {
		return 0, 0
	}
	switch x := b[0]; {
	case x <= 0xfc:
		return uint64(x), 1
	case x == 0xfd:
		if len(b) < 3 {
			return 0, 0
		}
		return uint64(b[1])<<8 | uint64(b[2]), 3
	case x == 0xfe:
		if len(b) < 5 {
			return 0, 0
		}
		return uint64(b[1])<<24 | uint64(b[2])<<16 | uint64(b[3])<<8 | uint64(b[4]), 5
	default:
		if len(b) < 9 {
			return 0, 0
		}
		v := uint64(0)
		for i := 1; i < 9; i++ {
			v = v<<8 | uint64(b[i])
		}
		return v, 9
	}
}

type span struct{ start, hdr, end int; typ uint64 }

func tlvSpans(b []byte) ([]span, bool) {
	var out []span
	off := 0
	for off < len(b) {
		t, n1 := readVar(b[off:])
		if n1 == 0 {
			return out, false
		}
		l, n2 := readVar(b[off+n1:])
		if n2 == 0 || l > uint64(len(b)-off-n1-n2) {
			return out, false
		}
		out = append(out, span{off, n1 + n2, off + n1 + n2 + int(l), t})
		off += n1 + n2 + int(l)
	}
	return out, true
}

func tlvHdr(t, l uint64) []byte {
	put := func(v uint64) []byte {
		switch {
		case v <= 0xfc:
			return []byte{byte(v)}
		case v <= 0xffff:
			return []byte{0xfd, byte(v >> 8), byte(v)}
		case v <= 0xffffffff:
			return []byte{0xfe, byte(v >> 24), byte(v >> 16), byte(v >> 8), byte(v)}
		default:
			o := []byte{0xff}
			for i := 7; i >= 0; i-- {
				o = append(o, byte(v>>(8*uint(i))))
			}
			return o
		}
	}
	return append(put(t), put(l)...)
}

// unknownTypes: three element types the model does not know at its top level: one <= 31 (critical), one odd > 31
// (critical), one even > 31 (non-critical). "Known" is established by observation: every type appearing at the top
// level of any variant's encoding.
var unkCache = map[string][]uint64{}

func unknownTypes(m regModel, nVar int) []uint64 {
	if u, ok := unkCache[m.name]; ok {
		return u
	}
	known := map[uint64]bool{}
	for k := 0; k < nVar+20; k++ {
		v := m.mk()
		if !fill(reflect.ValueOf(v).Elem(), nonNil(k), 0) {
			continue
		}
		func() {
			defer func() { recover() }()
			if w := m.encode(v); w != nil {
				sp, _ := tlvSpans(w.Join())
				for _, s := range sp {
					known[s.typ] = true
				}
			}
		}()
	}
	pick := func(cands []uint64) uint64 {
		for _, c := range cands {
			if !known[c] {
				return c
			}
		}
		return cands[len(cands)-1]
	}
	u := []uint64{pick([]uint64{31, 29, 27, 19, 17, 13, 11, 3}), pick([]uint64{65521, 32753, 4093, 1021}), pick([]uint64{65522, 32754, 4094, 1022})}
	unkCache[m.name] = u
	return u
}

// seeds: valid encodings of every model, variants 0..n-1 (those the builder supports and that round-trip)
type seed struct {
	model int
	k     int
	val   any
	wire  []byte
}

func buildSeeds(nVar int, onlyOK bool) []seed {
	var out []seed
	for mi, m := range registry {
		if m.encode == nil {
			continue
		}
		for k := -1; k < nVar; k++ { // k = -1: the zero value of the model (every field absent)
			v := m.mk()
			if k >= 0 && !fill(reflect.ValueOf(v).Elem(), k, 0) {
				continue
			}
			var wire []byte
			ok := func() (ok bool) {
				defer func() {
					if recover() != nil {
						ok = false
					}
				}()
				w := m.encode(v)
				if w == nil {
					return false
				}
				wire = w.Join()
				return true
			}()
			if !ok && onlyOK {
				continue
			}
			out = append(out, seed{mi, k, v, wire})
		}
	}
	return out
}

// TestRegRoundTrip (C13): for every model and variant: encode, walk, decode (contiguous and segmented), compare;
// then insert an unrecognised element of each class at each position of the encoding.
func TestRegRoundTrip(t *testing.T) {
	f, w := outFile("reg_rt.ndjson")
	defer f.Close()
	defer w.Flush()
	nVar := envInt("VERIF_VARIANTS", 30)
	emit(w, map[string]any{"ev": "Reset", "models": len(registry), "files": registryFiles})
	n := 0
	for mi, m := range registry {
		if m.encode == nil {
			continue
		}
		for k := 0; k < nVar; k++ {
			v := m.mk()
			if !fill(reflect.ValueOf(v).Elem(), k, 0) {
				emit(w, map[string]any{"ev": "unsupported", "model": m.name, "k": k})
				continue
			}
			row := map[string]any{"ev": "rt", "model": m.name, "mi": mi, "k": k}
			var wire []byte
			func() {
				defer func() {
					if r := recover(); r != nil {
						row["outcome"] = "panic"
						row["panic"] = fmt.Sprint(r)
						buf := make([]byte, 4096)
						row["stack"] = firstFrames(string(buf[:runtimeStack(buf)]))
					}
				}()
				ww := m.encode(v)
				if ww == nil {
					row["outcome"] = "noencode" // the encoder refused the value (e.g. a required field is nil)
					return
				}
				wire = ww.Join()
				spans, ok := tlvSpans(wire)
				row["len"], row["walk"], row["elems"] = len(wire), ok, len(spans)
				back, err := m.parse(enc.NewBufferReader(wire), false)
				if err != nil {
					row["outcome"] = "parse-error"
					row["err"] = err.Error()
					return
				}
				if !same(reflect.ValueOf(v), reflect.ValueOf(back)) {
					row["outcome"] = "differ"
					return
				}
				// segmented presentation: split in the middle and at 1
				for _, cut := range []int{1, len(wire) / 2, len(wire) - 1} {
					if cut <= 0 || cut >= len(wire) {
						continue
					}
					b2, err := m.parse(enc.NewWireReader(enc.Wire{wire[:cut], wire[cut:]}), false)
					if err != nil || !same(reflect.ValueOf(v), reflect.ValueOf(b2)) {
						row["outcome"] = "segmented-differ"
						return
					}
				}
				row["outcome"] = "equal"
			}()
			emit(w, row)
			n++
			if row["outcome"] != "equal" {
				continue
			}
			// unknown-element insertion at every top-level position
			spans, _ := tlvSpans(wire)
			positions := []int{0}
			for _, s := range spans {
				positions = append(positions, s.end)
			}
			for pi, p := range positions {
				for _, u := range unknownTypes(m, nVar) {
					for _, ic := range []bool{false, true} {
						// the inserted element's value is 2, 0 or 3 bytes long (varying with value and position): a parser that loses
						// its place reads the value bytes as further elements, which succeeds or fails depending on them
						uval := [][]byte{{0xAA, 0xBB}, {}, {0xAA, 0xBB, 0xCC}}[(pi+k)%3]
						mut := append(append(append([]byte{}, wire[:p]...), append(tlvHdr(u, uint64(len(uval))), uval...)...), wire[p:]...)
						prevT, nextT := -1, -1
						if pi > 0 {
							prevT = int(spans[pi-1].typ)
						}
						if pi < len(spans) {
							nextT = int(spans[pi].typ)
						}
						r2 := map[string]any{"ev": "ins", "model": m.name, "k": k, "pos": pi, "u": u, "ic": ic, "prevT": prevT, "nextT": nextT}
						func() {
							defer func() {
								if r := recover(); r != nil {
									r2["outcome"] = "panic"
								}
							}()
							back, err := m.parse(enc.NewBufferReader(mut), ic)
							if err != nil {
								r2["outcome"] = "reject"
							} else if same(reflect.ValueOf(v), reflect.ValueOf(back)) {
								r2["outcome"] = "same"
							} else {
								r2["outcome"] = "differ"
							}
						}()
						emit(w, r2)
						n++
					}
				}
			}
		}
	}
	b, _ := json.Marshal(map[string]any{"events": n, "models": len(registry)})
	os.WriteFile(filepath.Join(filepath.Dir(f.Name()), "reg_rt.meta.json"), b, 0o644)
}

// TestRegDebug prints one failing case per (model, outcome) concisely (development aid).
func TestRegDebug(t *testing.T) {
	want := os.Getenv("VERIF_MODEL")
	for _, m := range registry {
		if m.encode == nil || (want != "" && m.name != want) {
			continue
		}
		seen := map[string]bool{}
		for k := 0; k < envInt("VERIF_DBG_K", 30); k++ {
			v := m.mk()
			if !fill(reflect.ValueOf(v).Elem(), k, 0) {
				continue
			}
			func() {
				defer func() {
					if r := recover(); r != nil && !seen["panic"] {
						seen["panic"] = true
						buf := make([]byte, 2048)
						n := runtimeStack(buf)
						fmt.Printf("%s k=%d PANIC %v\n%s\n", m.name, k, r, firstFrames(string(buf[:n])))
					}
				}()
				ww := m.encode(v)
				if ww == nil {
					return
				}
				wire := ww.Join()
				back, err := m.parse(enc.NewBufferReader(wire), false)
				if err != nil {
					if !seen["err"] {
						seen["err"] = true
						fmt.Printf("%s k=%d ERR %v wire=%x\n  val=%s\n", m.name, k, err, trunc(wire, 48), js(v))
					}
					return
				}
				for _, cut := range []int{1, len(wire) / 2, len(wire) - 1} {
					if cut > 0 && cut < len(wire) {
						m.parse(enc.NewWireReader(enc.Wire{wire[:cut], wire[cut:]}), false)
					}
				}
				if !same(reflect.ValueOf(v), reflect.ValueOf(back)) && !seen["differ"] {
					seen["differ"] = true
					fmt.Printf("%s k=%d DIFFER wire=%x\n  val =%s\n  back=%s\n", m.name, k, trunc(wire, 48), js(v), js(back))
				}
			}()
		}
	}
}

func trunc(b []byte, n int) []byte {
	if len(b) > n {
		return b[:n]
	}
	return b
}
func js(v any) string {
	b, _ := json.Marshal(v)
	if len(b) > 400 {
		return string(b[:400]) + "..."
	}
	return string(b)
}

// ---------------------------------------------------------------------------------------------------------
// C04: structure-aware mutations of valid encodings, fed to every decoder through both readers.

type mutant struct {
	class string // descriptor class (spec/tlv/RecvPath.tla MutClasses)
	b     []byte
	cut   int // where to split for the segmented reader
}

var hugeLens = []uint64{0, 1, 252, 253, 65535, 65536, 1 << 31, 1 << 32, 1 << 47, 1 << 62, 1 << 63, ^uint64(0), ^uint64(0) - 1, ^uint64(0) - 3, ^uint64(0) - 11, ^uint64(0) - 12, ^uint64(0) - 15}

// all TLV headers found by walking b recursively (an element is descended into when its value tiles as TLVs)
func allSpans(b []byte, base int, depth int, out *[]span) {
	sp, ok := tlvSpans(b)
	if !ok {
		return
	}
	for _, s := range sp {
		*out = append(*out, span{base + s.start, s.hdr, base + s.end, s.typ})
		if depth < 4 && s.end-s.start-s.hdr >= 2 {
			var inner []span
			allSpans(b[s.start+s.hdr:s.end], base+s.start+s.hdr, depth+1, &inner)
			*out = append(*out, inner...)
		}
	}
}

func mutants(wire []byte, maxTrunc int) []mutant {
	var out []mutant
	var sp []span
	allSpans(wire, 0, 0, &sp)
	if len(sp) > 40 {
		sp = sp[:40]
	}
	for _, s := range sp {
		_, n1 := readVar(wire[s.start:])
		vlen := uint64(s.end - s.start - s.hdr)
		// every length field replaced by boundary and huge values
		for _, l := range append(append([]uint64{}, hugeLens...), vlen-1, vlen+1, vlen+2) {
			if l == vlen {
				continue
			}
			h := tlvHdr(s.typ, l)
			m := append(append(append([]byte{}, wire[:s.start]...), h...), wire[s.start+s.hdr:]...)
			out = append(out, mutant{"len", m, s.start + len(h)})
		}
		// type confusion: the element's type replaced by another type seen in this encoding, and by 0 / a huge one
		for _, t := range []uint64{0, 7, 8, 36, 80, 100, 253, 65535, 1 << 32} {
			if t == s.typ {
				continue
			}
			tb := tlvHdr(t, 0)
			tb = tb[:len(tb)-1]
			m := append(append(append([]byte{}, wire[:s.start]...), tb...), wire[s.start+n1:]...)
			out = append(out, mutant{"type", m, s.start + len(tb)})
		}
	}
	// an unrecognised non-critical element announcing a boundary / huge length, inserted before each element
	for _, sp1 := range sp {
		for _, l := range hugeLens {
			h := tlvHdr(900, l)
			m := append(append(append([]byte{}, wire[:sp1.start]...), h...), wire[sp1.start:]...)
			out = append(out, mutant{"unknown", m, sp1.start + 1})
		}
	}
	// nested-length disagreement: an inner element announcing more than its parent holds
	for i, s := range sp {
		for _, c := range sp[i+1:] {
			if c.start >= s.start+s.hdr && c.end <= s.end && c.start > s.start {
				parentLen := uint64(s.end - s.start - s.hdr)
				h := tlvHdr(c.typ, parentLen+5)
				m := append(append(append([]byte{}, wire[:c.start]...), h...), wire[c.start+c.hdr:]...)
				out = append(out, mutant{"nested", m, c.start + 1})
				break
			}
		}
	}
	// truncation at every offset (bounded number of offsets, always including header interiors)
	step := 1
	if len(wire) > maxTrunc {
		step = len(wire)/maxTrunc + 1
	}
	for cut := 0; cut < len(wire); cut += step {
		out = append(out, mutant{"trunc", append([]byte{}, wire[:cut]...), cut / 2})
	}
	return out
}

type c04Outcome struct {
	outcome string
	alloc   uint64
}

// guard runs f under recover(), an allocation budget and a watchdog. A call that does not return within the
// watchdog period cannot be stopped from inside the process: onSpin is called (it records the case) and the
// process exits; the driver attributes the exit to the case and resumes after it.
var onSpin func()

func guard(inputLen int, f func()) (out string, alloc uint64, detail string) {
	var m0, m1 runtimeMem
	readMem(&m0)
	out = "ok"
	done := make(chan struct{})
	go func() {
		defer close(done)
		defer func() {
			if r := recover(); r != nil {
				out = "PANIC"
				buf := make([]byte, 4096)
				detail = fmt.Sprint(r) + " @ " + firstFrames(string(buf[:runtimeStack(buf)]))
			}
		}()
		f()
	}()
	select {
	case <-done:
	case <-time.After(4 * time.Second):
		if onSpin != nil {
			onSpin()
		}
		os.Exit(7)
	}
	readMem(&m1)
	alloc = m1.total - m0.total
	if out == "ok" && alloc > uint64(64*inputLen)+(1<<20) {
		out = "OVERALLOC"
		detail = fmt.Sprint(alloc, " bytes for ", inputLen, " input bytes")
	}
	return
}

// TestC04Dec: every decoder of the registry x valid seeds x mutants x {contiguous, segmented}.
// Cases are numbered; the index of the case about to run is written to $VERIF_OUT/c04dec.progress so that the
// driver can attribute an abnormal exit (runtime fatal error) to it and resume after it ($VERIF_FROM).
func TestC04Dec(t *testing.T) {
	from := envInt("VERIF_FROM", 0)
	nVar := envInt("VERIF_VARIANTS", 6)
	maxTrunc := envInt("VERIF_TRUNC", 40)
	dir := os.Getenv("VERIF_OUT")
	fo, err := os.OpenFile(filepath.Join(dir, "c04dec.ndjson"), os.O_APPEND|os.O_CREATE|os.O_WRONLY, 0o644)
	if err != nil {
		panic(err)
	}
	defer fo.Close()
	w := bufio.NewWriter(fo)
	defer w.Flush()
	prog, _ := os.Create(filepath.Join(dir, "c04dec.progress"))
	defer prog.Close()
	if from == 0 {
		emit(w, map[string]any{"ev": "Reset", "models": len(registry)})
	}
	idx := 0
	classes := map[string]int{}
	for _, sd := range buildSeeds(nVar, true) {
		m := registry[sd.model]
		for _, mu := range mutants(sd.wire, maxTrunc) {
			for _, seg := range []bool{false, true} {
				idx++
				if idx <= from {
					continue
				}
				prog.Truncate(0)
				prog.Seek(0, 0)
				fmt.Fprintf(prog, "%d %s %d %s %v %x\n", idx, m.name, sd.k, mu.class, seg, trunc(mu.b, 64))
				var rd enc.ParseReader
				if seg && mu.cut > 0 && mu.cut < len(mu.b) {
					rd = enc.NewWireReader(enc.Wire{mu.b[:mu.cut], mu.b[mu.cut:]})
				} else {
					rd = enc.NewBufferReader(mu.b)
				}
				decoded := false
				onSpin = func() {
					emit(w, map[string]any{"ev": "dec", "i": idx, "model": m.name, "k": sd.k, "class": mu.class, "seg": seg, "outcome": "SPIN", "decoded": false, "alloc": 0, "len": len(mu.b), "input": fmt.Sprintf("%x", trunc(mu.b, 96))})
					w.Flush()
				}
				out, alloc, detail := guard(len(mu.b), func() {
					v, err := m.parse(rd, false)
					decoded = err == nil && v != nil
				})
				classes[mu.class]++
				row := map[string]any{"ev": "dec", "i": idx, "model": m.name, "k": sd.k, "class": mu.class, "seg": seg, "outcome": out, "decoded": decoded, "alloc": alloc, "len": len(mu.b)}
				if out != "ok" {
					row["detail"] = detail
					row["input"] = fmt.Sprintf("%x", trunc(mu.b, 96))
				}
				emit(w, row)
				if idx%2000 == 0 {
					w.Flush()
				}
			}
		}
	}
	emit(w, map[string]any{"ev": "done", "cases": idx, "classes": classes})
}

// decoders that are not generated models with a public Parse function: the packet reader (private Interest / Data /
// LpPacket models), the standalone name and component decoders
type extraDec struct {
	name  string
	parse func(r enc.ParseReader) (any, error)
	seeds [][]byte
}

func extraDecoders() []extraDec {
	var pk [][]byte
	n1, _ := enc.NameFromStr("/a/bb/ccc")
	h1, _ := enc.NameFromStr("/h")
	kn, _ := enc.NameFromStr("/k/KEY/1")
	tm := dummy.NewTimer()
	add := func(w enc.Wire, err error) {
		if err == nil {
			pk = append(pk, w.Join())
		}
	}
	i1, e := spec.Spec{}.MakeInterest(n1, &ndn.InterestConfig{CanBePrefix: true, MustBeFresh: true, ForwardingHint: []enc.Name{h1}, Nonce: utils.IdPtr(uint64(5)),
		Lifetime: utils.IdPtr(time.Second), HopLimit: utils.IdPtr(uint(3))}, enc.Wire{[]byte("pp")}, sec.NewSha256IntSigner(tm))
	if e == nil {
		add(i1.Wire, nil)
	}
	i2, e := spec.Spec{}.MakeInterest(n1, &ndn.InterestConfig{}, nil, nil)
	if e == nil {
		add(i2.Wire, nil)
	}
	d1, e := spec.Spec{}.MakeData(n1, &ndn.DataConfig{Freshness: utils.IdPtr(time.Second), ContentType: utils.IdPtr(ndn.ContentTypeBlob)}, enc.Wire{make([]byte, 300)}, sec.NewHmacSigner(kn, []byte("k"), false, 0))
	if e == nil {
		add(d1.Wire, nil)
		lp := &spec.Packet{LpPacket: &spec.LpPacket{Sequence: utils.IdPtr(uint64(7)), FragIndex: utils.IdPtr(uint64(0)), FragCount: utils.IdPtr(uint64(2)),
			PitToken: []byte{0, 0, 1, 2, 3, 4}, CongestionMark: utils.IdPtr(uint64(1)), Fragment: d1.Wire}}
		encd := spec.PacketEncoder{}
		encd.Init(lp)
		add(encd.Encode(lp), nil)
	}
	if i2 != nil {
		lp := &spec.Packet{LpPacket: &spec.LpPacket{Nack: &spec.NetworkNack{Reason: 150}, NextHopFaceId: utils.IdPtr(uint64(9)), Fragment: i2.Wire}}
		encd := spec.PacketEncoder{}
		encd.Init(lp)
		add(encd.Encode(lp), nil)
	}
	// near-valid packets the packet API itself refuses to build
	pk = append(pk, []byte{0x05, 0x04, 0x07, 0x00, 0x24, 0x00}, // Interest: empty name + ApplicationParameters
		[]byte{0x05, 0x02, 0x07, 0x00},             // Interest: empty name
		[]byte{0x06, 0x02, 0x07, 0x00},             // Data: empty name
		[]byte{0x05, 0x00}, []byte{0x06, 0x00}, []byte{0x64, 0x00}, // empty Interest / Data / LpPacket
		[]byte{0x05, 0x08, 0x07, 0x02, 0x08, 0x00, 0x2e, 0x00, 0x2c, 0x00}) // signature fields without parameters
	return []extraDec{
		{"spec.ReadPacket", func(r enc.ParseReader) (any, error) { p, _, err := spec.ReadPacket(r); return p, err }, pk},
		{"enc.NameFromBytes", func(r enc.ParseReader) (any, error) { n, err := enc.NameFromBytes(r.Range(0, r.Length()).Join()); return n, err }, [][]byte{n1.Bytes(), kn.Bytes()}},
		{"enc.ReadName", func(r enc.ParseReader) (any, error) { n, err := enc.ReadName(r); return n, err }, [][]byte{n1.Bytes()[2:], kn.Bytes()[2:]}},
		{"enc.ReadComponent", func(r enc.ParseReader) (any, error) { c, err := enc.ReadComponent(r); return c, err }, [][]byte{n1[2].Bytes()}},
	}
}

// TestC04Extra: same mutation classes for the packet reader and the standalone name decoders.
func TestC04Extra(t *testing.T) {
	dir := os.Getenv("VERIF_OUT")
	from := envInt("VERIF_FROM", 0)
	fo, err := os.OpenFile(filepath.Join(dir, "c04extra.ndjson"), os.O_APPEND|os.O_CREATE|os.O_WRONLY, 0o644)
	if err != nil {
		panic(err)
	}
	defer fo.Close()
	w := bufio.NewWriter(fo)
	defer w.Flush()
	if from == 0 {
		emit(w, map[string]any{"ev": "Reset", "models": 4})
	}
	idx := 0
	for _, d := range extraDecoders() {
		for si, seed := range d.seeds {
			for _, mu := range mutants(seed, envInt("VERIF_TRUNC", 400)) {
				for _, seg := range []bool{false, true} {
					idx++
					if idx <= from {
						continue
					}
					os.WriteFile(filepath.Join(dir, "c04extra.progress"), []byte(fmt.Sprintf("%d %s %d %s %v %x\n", idx, d.name, si, mu.class, seg, trunc(mu.b, 64))), 0o644)
					var rd enc.ParseReader
					if seg && mu.cut > 0 && mu.cut < len(mu.b) {
						rd = enc.NewWireReader(enc.Wire{mu.b[:mu.cut], mu.b[mu.cut:]})
					} else {
						rd = enc.NewBufferReader(mu.b)
					}
					decoded := false
					onSpin = func() {
						emit(w, map[string]any{"ev": "dec", "i": idx, "model": d.name, "k": si, "class": mu.class, "seg": seg, "outcome": "SPIN", "decoded": false, "alloc": 0, "len": len(mu.b), "input": fmt.Sprintf("%x", trunc(mu.b, 96))})
						w.Flush()
					}
					out, alloc, detail := guard(len(mu.b), func() {
						v, err := d.parse(rd)
						decoded = err == nil && v != nil
					})
					row := map[string]any{"ev": "dec", "i": idx, "model": d.name, "k": si, "class": mu.class, "seg": seg, "outcome": out, "decoded": decoded, "alloc": alloc, "len": len(mu.b)}
					if out != "ok" {
						row["detail"] = detail
						row["input"] = fmt.Sprintf("%x", trunc(mu.b, 96))
					}
					emit(w, row)
				}
			}
		}
	}
	emit(w, map[string]any{"ev": "done", "cases": idx})
}
