package reg

import (
	"runtime"
	"strings"
)

func runtimeStack(b []byte) int { return runtime.Stack(b, false) }
func firstFrames(s string) string {
	lines := strings.Split(s, "\n")
	out := []string{}
	for _, l := range lines {
		if strings.Contains(l, "/repo/") {
			out = append(out, strings.TrimSpace(l))
		}
		if len(out) >= 3 {
			break
		}
	}
	return strings.Join(out, " | ")
}

type runtimeMem struct{ total uint64 }

func readMem(m *runtimeMem) {
	var ms runtime.MemStats
	runtime.ReadMemStats(&ms)
	m.total = ms.TotalAlloc
}
