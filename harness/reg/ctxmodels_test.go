package reg

// The packet-level models of spec_2022 (Data, Interest, LpPacket) have no public Parse<Model> function: they are
// encoded and parsed through their Encoder / ParsingContext types (signature and digest markers). The generated
// registry lists only models with a public Parse function, so these are added by hand and take part in the same
// round-trip and unknown-element experiments.

import (
	enc "github.com/named-data/ndnd/std/encoding"
	spec "github.com/named-data/ndnd/std/ndn/spec_2022"
)

func init() {
	registry = append(registry,
		regModel{"spec_2022.Data", func() any { return &spec.Data{} },
			func(r enc.ParseReader, ic bool) (any, error) {
				c := spec.DataParsingContext{}
				c.Init()
				x, err := c.Parse(r, ic)
				if x == nil {
					return nil, err
				}
				return x, err
			},
			func(v any) enc.Wire {
				// the encoder reserves a slot of an announced length for the signature and a signer fills it afterwards
				// (spec.MakeData); here the value's own SignatureValue plays the signer
				d := v.(*spec.Data)
				if d.NameV == nil && d.MetaInfo == nil && d.ContentV == nil && d.SignatureInfo == nil {
					// the zero Data has an empty wire plan, on which the generated EncodeInto indexes wire[0]; no API hands such a
					// value to the encoder (MakeData always has a name): recorded in DESIGN as an observation, not driven
					return nil
				}
				sv := d.SignatureValue.Join()
				if len(sv) == 0 || len(sv) >= 253 {
					d.SignatureValue, sv = nil, nil
				} else {
					d.SignatureValue = enc.Wire{sv}
				}
				e := spec.DataEncoder{SignatureValue_estLen: uint(len(sv))}
				e.Init(d)
				wire := e.Encode(d)
				if wire != nil && len(sv) > 0 && e.SignatureValue_wireIdx >= 0 && e.SignatureValue_wireIdx < len(wire) {
					wire[e.SignatureValue_wireIdx] = sv
				}
				return wire
			}},
		regModel{"spec_2022.LpPacket", func() any { return &spec.LpPacket{} },
			func(r enc.ParseReader, ic bool) (any, error) {
				c := spec.LpPacketParsingContext{}
				c.Init()
				x, err := c.Parse(r, ic)
				if x == nil {
					return nil, err
				}
				return x, err
			},
			func(v any) enc.Wire {
				e := spec.LpPacketEncoder{}
				e.Init(v.(*spec.LpPacket))
				return e.Encode(v.(*spec.LpPacket))
			}},
	)
}
