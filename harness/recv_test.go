package h

// Receive-path driver for C04 (spec/tlv/RecvPath.tla): frames -> real handleIncomingFrame (decode, reassembly, dispatch
// to recording forwarding threads) and byte streams -> real readTlvStream -> handleIncomingFrame.
// Frames: valid packets, structure-aware mutants of them (every length field -> boundary/huge values, type confusion,
// nested-length disagreement, truncation), fragment index/count/sequence combinations, token lengths and thread ids.
// The case about to run is written to a progress file so that an abnormal exit is attributed to it by the driver.

import (
	"bytes"
	"encoding/binary"
	"fmt"
	"io"
	"net"
	"os"
	"path/filepath"
	"runtime"
	"testing"
	"time"

	"github.com/named-data/ndnd/fw/defn"
	"github.com/named-data/ndnd/fw/dispatch"
	"github.com/named-data/ndnd/fw/face"
	"github.com/named-data/ndnd/fw/fw"
	enc "github.com/named-data/ndnd/std/encoding"
	appface "github.com/named-data/ndnd/std/engine/face"
	"github.com/named-data/ndnd/std/ndn"
	spec "github.com/named-data/ndnd/std/ndn/spec_2022"
	"github.com/named-data/ndnd/std/utils"
)

type idThread struct {
	id  int
	got *[]int
}

func (r *idThread) String() string            { return fmt.Sprint("rec", r.id) }
func (r *idThread) QueueData(p *defn.Pkt)     { *r.got = append(*r.got, r.id) }
func (r *idThread) QueueInterest(p *defn.Pkt) { *r.got = append(*r.got, r.id) }
func (r *idThread) GetNumPitEntries() int     { return 0 }
func (r *idThread) GetNumCsEntries() int      { return 0 }

func varnum(v uint64) []byte {
	switch {
	case v <= 0xfc:
		return []byte{byte(v)}
	case v <= 0xffff:
		return []byte{0xfd, byte(v >> 8), byte(v)}
	case v <= 0xffffffff:
		return []byte{0xfe, byte(v >> 24), byte(v >> 16), byte(v >> 8), byte(v)}
	}
	o := []byte{0xff}
	for i := 7; i >= 0; i-- {
		o = append(o, byte(v>>(8*uint(i))))
	}
	return o
}
func tlvOf(t uint64, val []byte) []byte {
	return append(append(varnum(t), varnum(uint64(len(val)))...), val...)
}
func natOf(v uint64) []byte {
	switch {
	case v <= 0xff:
		return []byte{byte(v)}
	case v <= 0xffff:
		return []byte{byte(v >> 8), byte(v)}
	case v <= 0xffffffff:
		return []byte{byte(v >> 24), byte(v >> 16), byte(v >> 8), byte(v)}
	}
	b := make([]byte, 8)
	binary.BigEndian.PutUint64(b, v)
	return b
}

type recvCase struct {
	class string
	frame []byte
}

// headers of a frame found by a recursive independent walk
type hspan struct{ start, hdr, end int; typ uint64 }

func walkAll(b []byte, base, depth int, out *[]hspan) {
	p := 0
	var level []hspan
	for p < len(b) {
		t, q, ok := rdNum(b, p)
		if !ok {
			return
		}
		l, r, ok := rdNum(b, q)
		if !ok || r+int(l) > len(b) {
			return
		}
		level = append(level, hspan{base + p, r - p, base + r + int(l), t})
		p = r + int(l)
	}
	for _, s := range level {
		*out = append(*out, s)
		if depth < 3 && s.end-s.start-s.hdr >= 2 {
			walkAll(b[s.start-base+s.hdr:s.end-base], s.start+s.hdr, depth+1, out)
		}
	}
}

func recvCases() []recvCase {
	var out []recvCase
	n1 := nm("/a/bb")
	i1, _ := spec.Spec{}.MakeInterest(n1, &ndn.InterestConfig{Nonce: utils.IdPtr(uint64(5)), Lifetime: utils.IdPtr(time.Second)}, nil, nil)
	d1, _ := spec.Spec{}.MakeData(n1, &ndn.DataConfig{}, enc.Wire{make([]byte, 40)}, nil)
	iw, dw := i1.Wire.Join(), d1.Wire.Join()
	lp := func(fields []byte, frag []byte) []byte { return tlvOf(100, append(fields, tlvOf(80, frag)...)) }
	valid := [][]byte{iw, dw, lp(nil, iw), lp(tlvOf(98, []byte{0, 0, 1, 2, 3, 4}), dw), lp(tlvOf(832, natOf(1)), dw)}
	for _, v := range valid {
		out = append(out, recvCase{"valid", v})
	}
	// a frame whose fragment is itself a link-layer packet (with and without an inner fragment), and one nested twice
	for _, inner := range [][]byte{lp(nil, iw), lp(nil, dw), lp(tlvOf(98, []byte{0, 0, 1, 2, 3, 4}), dw), tlvOf(100, nil), lp(nil, lp(nil, dw))} {
		out = append(out, recvCase{"nested", lp(nil, inner)})
	}
	// thread ids and token lengths on Data
	for _, tid := range []uint16{0, 1, 2, 3, 255, 65535} {
		tok := []byte{byte(tid >> 8), byte(tid), 9, 9, 9, 9}
		out = append(out, recvCase{"token", lp(tlvOf(98, tok), dw)})
	}
	for _, tl := range []int{0, 1, 5, 7, 32, 300} {
		out = append(out, recvCase{"token", lp(tlvOf(98, make([]byte, tl)), dw)})
	}
	// fragment index / count / sequence combinations (with half of the Data as payload)
	half := dw[:len(dw)/2]
	big := []uint64{0, 1, 2, 3, 1 << 16, 1 << 32, 1 << 40, 1 << 63, ^uint64(0)}
	for _, seq := range []uint64{0, 7, ^uint64(0)} {
		for _, idx := range big {
			for _, cnt := range big {
				f := append(append(tlvOf(81, natOf8(seq)), tlvOf(82, natOf(idx))...), tlvOf(83, natOf(cnt))...)
				out = append(out, recvCase{"frag", lp(f, half)})
			}
		}
	}
	// sequences of fragments that share a base sequence number but disagree on FragCount / carry an index beyond it
	fr := func(seq, idx, cnt uint64) []byte {
		return lp(append(append(tlvOf(81, natOf8(seq)), tlvOf(82, natOf(idx))...), tlvOf(83, natOf(cnt))...), half)
	}
	for _, b := range []uint64{100, 200, 300} {
		for _, c1 := range []uint64{2, 3} {
			for _, c2 := range []uint64{1, 2, 4, 9} {
				for _, idx := range []uint64{1, c1, c1 + 1, c2 - 1} {
					out = append(out, recvCase{"frag", fr(b, 0, c1)}, recvCase{"frag", fr(b+idx, idx, c2)})
				}
			}
		}
	}
	// structure-aware mutants of every valid frame
	for _, v := range valid {
		var sp []hspan
		walkAll(v, 0, 0, &sp)
		for _, s := range sp {
			vlen := uint64(s.end - s.start - s.hdr)
			for _, l := range []uint64{0, 1, 252, 253, 8800, 8801, 65535, 65536, 1 << 31, 1 << 32, 1 << 47, 1 << 63, ^uint64(0), ^uint64(0) - 1, ^uint64(0) - 3, ^uint64(0) - 11, ^uint64(0) - 12, ^uint64(0) - 15, vlen - 1, vlen + 1} {
				if l == vlen {
					continue
				}
				h := append(varnum(s.typ), varnum(l)...)
				out = append(out, recvCase{"len", append(append(append([]byte{}, v[:s.start]...), h...), v[s.start+s.hdr:]...)})
			}
			_, n1, _ := rdNum(v, s.start)
			for _, t := range []uint64{0, 5, 6, 7, 80, 81, 82, 83, 98, 100, 65535} {
				if t != s.typ {
					out = append(out, recvCase{"type", append(append(append([]byte{}, v[:s.start]...), varnum(t)...), v[n1:]...)})
				}
			}
		}
		for _, s := range sp {
			for _, l := range []uint64{0, 1, 8801, 1 << 32, 1 << 63, ^uint64(0), ^uint64(0) - 1, ^uint64(0) - 11, ^uint64(0) - 12} {
				h := append(varnum(900), varnum(l)...)
				out = append(out, recvCase{"unknown", append(append(append([]byte{}, v[:s.start]...), h...), v[s.start:]...)})
			}
		}
		for i, s := range sp {
			for _, c := range sp[i+1:] {
				if c.start >= s.start+s.hdr && c.end <= s.end {
					h := append(varnum(c.typ), varnum(uint64(s.end-s.start-s.hdr)+9)...)
					out = append(out, recvCase{"nested", append(append(append([]byte{}, v[:c.start]...), h...), v[c.start+c.hdr:]...)})
					break
				}
			}
		}
		for cut := 0; cut < len(v); cut++ {
			out = append(out, recvCase{"trunc", append([]byte{}, v[:cut]...)})
		}
	}
	return out
}

func natOf8(v uint64) []byte {
	b := make([]byte, 8)
	binary.BigEndian.PutUint64(b, v)
	return b
}

func memTotal() uint64 {
	var ms runtime.MemStats
	runtime.ReadMemStats(&ms)
	return ms.TotalAlloc
}

const recvThreads = 2

func TestC04Recv(t *testing.T) {
	lpSetup()
	var got []int
	dispatch.InitializeFWThreads([]dispatch.FWThread{&idThread{0, &got}, &idThread{1, &got}})
	fw.Threads = make([]*fw.Thread, recvThreads)
	dir := outDir()
	from := envInt("VERIF_FROM", 0)
	fo, err := os.OpenFile(filepath.Join(dir, "c04recv.ndjson"), os.O_APPEND|os.O_CREATE|os.O_WRONLY, 0o644)
	if err != nil {
		panic(err)
	}
	defer fo.Close()
	w := &traceWriter{f: fo, w: newBuf(fo)}
	defer w.w.Flush()
	if from == 0 {
		w.Emit(map[string]any{"ev": "Reset", "threads": recvThreads})
	}
	rx := face.VerifMakeLinkService(face.NewVerifMemTransport(defn.NonLocal, 8800), face.MakeNDNLPLinkServiceOptions())
	cases := recvCases()
	idx := 0
	streamMode := false
	run := func(class string, input []byte, call func()) {
		idx++
		if idx <= from {
			return
		}
		os.WriteFile(filepath.Join(dir, "c04recv.progress"), []byte(fmt.Sprintf("%d %s %x\n", idx, class, input[:min(len(input), 64)])), 0o644)
		got = nil
		m0, s0, _ := face.VerifStoreSize(rx)
		decodable := false
		if streamMode { // a stream is a sequence of frames: the "undecodable frame changes nothing" rule is per frame
			decodable = true
		}
		a0 := memTotal()
		t0 := time.Now()
		outcome, detail := "ok", ""
		fin := make(chan struct{})
		go func() {
			defer close(fin)
			defer func() {
				if r := recover(); r != nil {
					outcome, detail = "PANIC", fmt.Sprint(r)
				}
			}()
			call()
		}()
		select {
		case <-fin:
		case <-time.After(6 * time.Second): // the call cannot be stopped from inside: record it and let the driver resume after it
			w.Emit(map[string]any{"ev": "frame", "i": idx, "class": class, "outcome": "SPIN", "decodable": true, "threads": []int{}, "store0": m0, "store1": m0,
				"slots0": s0, "slots1": s0, "alloc": 0, "len": len(input), "input": fmt.Sprintf("%x", input[:min(len(input), 96)])})
			w.w.Flush()
			os.Exit(7)
		}
		alloc := memTotal() - a0
		if outcome == "ok" && !streamMode { // classify the input with the packet reader (it returned above, so this returns too)
		func() {
			defer func() { recover() }()
			p, _, err := spec.ReadPacket(enc.NewBufferReader(append([]byte(nil), input...)))
			if err == nil && p.LpPacket != nil && len(p.LpPacket.Fragment) > 0 {
				if p.LpPacket.FragCount == nil && p.LpPacket.FragIndex == nil {
					_, _, err = spec.ReadPacket(enc.NewWireReader(p.LpPacket.Fragment))
				}
			}
			decodable = err == nil
		}()
		}
		if outcome == "ok" && alloc > uint64(64*len(input))+(1<<20) {
			outcome, detail = "OVERALLOC", fmt.Sprint(alloc)
		}
		if outcome == "ok" && time.Since(t0) > 2*time.Second {
			outcome = "SPIN"
		}
		m1, s1, _ := face.VerifStoreSize(rx)
		th := append([]int{}, got...)
		row := map[string]any{"ev": "frame", "i": idx, "class": class, "outcome": outcome, "decodable": decodable, "threads": th,
			"store0": m0, "store1": m1, "slots0": s0, "slots1": s1, "alloc": alloc, "len": len(input)}
		if outcome != "ok" {
			row["detail"], row["input"] = detail, fmt.Sprintf("%x", input[:min(len(input), 96)])
		}
		w.Emit(row)
	}
	for _, c := range cases {
		f := c.frame
		run(c.class, f, func() { face.VerifHandleFrame(rx, f) })
	}
	// the same frames as byte streams (a mutated frame desynchronises the stream: that must be survived too)
	for k := 0; k+3 <= len(cases); k += 3 {
		var stream []byte
		for _, c := range cases[k : k+3] {
			stream = append(stream, c.frame...)
		}
		stream = append(stream, cases[0].frame...)
		streamMode = true
		run("stream", stream, func() {
			face.VerifReadTlvStream(&chunkReader{b: stream, n: 1 + k%977}, func(fr []byte) { face.VerifHandleFrame(rx, fr) })
		})
	}
	// the application-side stream face (std/engine/face): block headers announcing boundary and huge lengths
	streamMode = true
	for _, l := range []uint64{0, 1, 8800, 8801, 65536, 1 << 31, 1 << 32, 1 << 40, 1 << 63, ^uint64(0), ^uint64(0) - 12} {
		input := append(append(varnum(6), varnum(l)...), 1, 2, 3, 4)
		run("stream", input, func() {
			a, b := net.Pipe()
			f := appface.NewVerifStreamFace(b)
			f.SetCallback(func(r enc.ParseReader) error { return nil }, func(err error) error { return err })
			done := make(chan any, 1)
			go func() {
				defer func() { done <- recover() }()
				f.Run()
			}()
			go func() { a.Write(input); a.Close() }()
			select {
			case r := <-done:
				if r != nil {
					panic(r)
				}
			case <-time.After(3 * time.Second):
				panic("reader did not return")
			}
		})
	}
	w.Emit(map[string]any{"ev": "done", "cases": idx})
}

type chunkReader struct {
	b []byte
	n int
}

func (c *chunkReader) Read(p []byte) (int, error) {
	if len(c.b) == 0 {
		return 0, io.EOF
	}
	n := min(c.n, len(p), len(c.b))
	copy(p, c.b[:n])
	c.b = c.b[n:]
	return n, nil
}

var _ = bytes.Equal
