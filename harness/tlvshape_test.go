package h

// Packet-layout conformance driver (spec/tlv/Tlv.tla; C03 and C12).
// Reads the shapes TLC enumerated ($VERIF_SHAPES), builds each through the packet API (spec.Spec{}.MakeData /
// MakeInterest) with the shipped signers, walks the produced bytes with an independent TLV reader, decodes them
// contiguous and segmented, compares, and logs the observation; then flips single bits inside the signed portion,
// the signature value and the parameters and logs whether the tampered packet is still accepted.

import (
	"bytes"
	"crypto/ecdsa"
	"crypto/elliptic"
	"crypto/rand"
	"crypto/rsa"
	"crypto/sha256"
	"encoding/json"
	"fmt"
	"os"
	"runtime"
	"testing"
	"time"

	enc "github.com/named-data/ndnd/std/encoding"
	"github.com/named-data/ndnd/std/engine/dummy"
	"github.com/named-data/ndnd/std/ndn"
	spec "github.com/named-data/ndnd/std/ndn/spec_2022"
	sec "github.com/named-data/ndnd/std/security"
	"github.com/named-data/ndnd/std/utils"
)

type shComp struct {
	T    int `json:"t"`
	Vlen int `json:"vlen"`
}
type shape struct {
	Kind string `json:"kind"`
	S    struct {
		Id      int        `json:"id"`
		Comps   []shComp   `json:"comps"`
		Ct      int        `json:"ct"`
		Fresh   int        `json:"fresh"`
		Fbid    int        `json:"fbid"`
		Content int        `json:"content"`
		Signer  string     `json:"signer"`
		Split   int        `json:"split"`
		Cbp     bool       `json:"cbp"`
		Mbf     bool       `json:"mbf"`
		Hints   [][]shComp `json:"hints"`
		Nonce   bool       `json:"nonce"`
		Life    int        `json:"life"`
		Hop     int        `json:"hop"`
		Params  int        `json:"params"`
	} `json:"s"`
}

// ---- independent minimal TLV reader
func rdNum(b []byte, p int) (uint64, int, bool) {
	if p >= len(b) {
		return 0, 0, false
	}
	switch x := b[p]; {
	case x <= 252:
		return uint64(x), p + 1, true
	case x == 253:
		if p+3 > len(b) {
			return 0, 0, false
		}
		return uint64(b[p+1])<<8 | uint64(b[p+2]), p + 3, true
	case x == 254:
		if p+5 > len(b) {
			return 0, 0, false
		}
		return uint64(b[p+1])<<24 | uint64(b[p+2])<<16 | uint64(b[p+3])<<8 | uint64(b[p+4]), p + 5, true
	}
	return 0, 0, false
}

type elem struct {
	t          uint64
	start, val int // offsets in the whole packet
	l          int
}

// children of the TLV whose value is b[from:to]
func children(b []byte, from, to int) ([]elem, bool) {
	var out []elem
	p := from
	for p < to {
		t, q, ok := rdNum(b, p)
		if !ok {
			return out, false
		}
		l, r, ok := rdNum(b, q)
		if !ok || r+int(l) > to {
			return out, false
		}
		out = append(out, elem{t, p, r, int(l)})
		p = r + int(l)
	}
	return out, p == to
}

func tiles(b []byte, from, to int, nested map[uint64]bool) bool {
	ch, ok := children(b, from, to)
	if !ok {
		return false
	}
	for _, e := range ch {
		if nested[e.t] && !tiles(b, e.val, e.val+e.l, nested) {
			return false
		}
	}
	return true
}

func mkName(cs []shComp, salt int) enc.Name {
	n := enc.Name{}
	for i, c := range cs {
		v := make([]byte, c.Vlen)
		for j := range v {
			v[j] = byte(j*7 + c.T + i + salt)
		}
		n = append(n, enc.Component{Typ: enc.TLNum(c.T), Val: v})
	}
	return n
}

func mkBuf(n, split, salt int) enc.Wire {
	b := make([]byte, n)
	for i := range b {
		b[i] = byte(i*3 + salt)
	}
	if split <= 1 || n < split {
		return enc.Wire{b}
	}
	var w enc.Wire
	step := n / split
	for k := 0; k < split; k++ {
		if k == split-1 {
			w = append(w, b[k*step:])
		} else {
			w = append(w, b[k*step:(k+1)*step])
		}
		if salt%3 == 0 && k == 0 { // "any number of buffers": some of them empty, also two in a row
			w = append(w, []byte{}, []byte{})
		}
	}
	return w
}

type capSigner struct {
	inner ndn.Signer
	saw   []byte
}

func (c *capSigner) SigInfo() (*ndn.SigConfig, error) { return c.inner.SigInfo() }
func (c *capSigner) EstimateSize() uint               { return c.inner.EstimateSize() }
func (c *capSigner) ComputeSigValue(w enc.Wire) ([]byte, error) {
	c.saw = append([]byte(nil), w.Join()...)
	return c.inner.ComputeSigValue(w)
}

type sigKit struct {
	ek    *ecdsa.PrivateKey
	rk    *rsa.PrivateKey
	hk    []byte
	kn    enc.Name
	tm    *dummy.Timer
	cache map[string]ndn.Signer
}

func newSigKit() *sigKit {
	ek, _ := ecdsa.GenerateKey(elliptic.P256(), rand.Reader)
	rk, _ := rsa.GenerateKey(rand.Reader, 2048)
	return &sigKit{ek: ek, rk: rk, hk: []byte("0123456789abcdef"), kn: nm("/key/KEY/1"), tm: dummy.NewTimer()}
}

// signer instances are reused across packets (a signer must not carry state from one packet to the next)
func (k *sigKit) signer(name string) ndn.Signer {
	if k.cache == nil {
		k.cache = map[string]ndn.Signer{}
	}
	if s, ok := k.cache[name]; ok {
		return s
	}
	s := k.newSigner(name)
	if s != nil {
		k.cache[name] = s
	}
	return s
}

func (k *sigKit) newSigner(name string) ndn.Signer {
	switch name {
	case "sha256":
		return sec.NewSha256Signer()
	case "hmac":
		return sec.NewHmacSigner(k.kn, k.hk, false, 0)
	case "ecdsa":
		return sec.NewEccSigner(false, false, 0, k.ek, k.kn)
	case "rsa":
		return sec.NewRsaSigner(false, false, 0, k.rk, k.kn)
	case "sha256int":
		return sec.NewSha256IntSigner(k.tm)
	case "hmacint":
		return sec.NewHmacIntSigner(k.hk, k.tm)
	case "ecdsaint":
		return sec.NewEccSigner(false, true, 0, k.ek, k.kn)
	}
	return nil
}

func (k *sigKit) verify(name string, cov enc.Wire, s ndn.Signature) bool {
	switch name {
	case "sha256", "sha256int":
		return sec.Sha256Validate(cov, s)
	case "hmac", "hmacint":
		return sec.HmacValidate(cov, s, k.hk)
	case "ecdsa", "ecdsaint":
		return sec.EcdsaValidate(cov, s, &k.ek.PublicKey)
	case "rsa":
		return sec.RsaValidate(cov, s, &k.rk.PublicKey)
	}
	return false
}

func cutsOf(n int) []int {
	out := []int{}
	for _, c := range []int{1, 2, 3, 4, 5, 6, n / 3, n / 2, n - 2, n - 1} {
		if c > 0 && c < n {
			out = append(out, c)
		}
	}
	return out
}

func rangesBytes(raw []byte, rs [][2]int) []byte {
	var b []byte
	for _, r := range rs {
		if r[0] < 0 || r[0]+r[1] > len(raw) {
			return nil
		}
		b = append(b, raw[r[0]:r[0]+r[1]]...)
	}
	return b
}

func debugStack() []byte {
	b := make([]byte, 4096)
	return b[:runtime.Stack(b, false)]
}

func TestTlvShapes(t *testing.T) {
	defer watchDriver("TestTlvShapes")()
	w := newTrace("tlv.ndjson")
	defer w.Close()
	kit := newSigKit()
	nTamper := envInt("VERIF_TAMPER", 24)
	w.Emit(map[string]any{"ev": "Reset"})
	n := 0
	readNdjson(os.Getenv("VERIF_SHAPES"), func(line []byte) {
		var sh shape
		if err := json.Unmarshal(line, &sh); err != nil {
			panic(err)
		}
		s := sh.S
		ev := map[string]any{"ev": sh.Kind, "err": "", "wireLen": -1, "outerL": -1, "nameL": -1, "walkOk": false, "rtContig": false, "rtSegmented": false,
			"nameBytesSame": false, "digestOk": false, "covRanges": [][2]int{}, "digRanges": [][2]int{}, "signerSawCovered": true, "parserCovered": true, "accepted": true}
		sm := map[string]any{}
		json.Unmarshal(line, &struct {
			S *map[string]any `json:"s"`
		}{&sm})
		sm["siL"], sm["sigL"] = -1, -1
		ev["s"] = sm
		var raw []byte
		var covRanges, digRanges [][2]int
		var sigRange [2]int
		var sgn *capSigner
		decodeOK := func(b enc.ParseReader) (enc.Wire, ndn.Signature, bool) { return nil, nil, false }
		func() {
			defer func() {
				if r := recover(); r != nil {
					ev["err"] = fmt.Sprint("panic: ", r)
				}
			}()
			name := mkName(s.Comps, s.Id)
			if inner := kit.signer(s.Signer); inner != nil {
				sgn = &capSigner{inner: inner}
			}
			var signer ndn.Signer
			if sgn != nil {
				signer = sgn
			}
			if sh.Kind == "data" {
				cfg := &ndn.DataConfig{}
				if s.Ct >= 0 {
					cfg.ContentType = utils.IdPtr(ndn.ContentType(s.Ct))
				}
				if s.Fresh >= 0 {
					cfg.Freshness = utils.IdPtr(time.Duration(s.Fresh) * time.Millisecond)
				}
				if s.Fbid >= 0 {
					fb := enc.Component{Typ: enc.TypeSegmentNameComponent, Val: make([]byte, s.Fbid)}
					cfg.FinalBlockID = &fb
				}
				var cont enc.Wire
				if s.Content >= 0 {
					cont = mkBuf(s.Content, s.Split, s.Id)
				}
				d, err := spec.Spec{}.MakeData(name.Clone(), cfg, cont, signer)
				if err != nil {
					ev["err"] = err.Error()
					return
				}
				raw = d.Wire.Join()
				same := func(pd ndn.Data, err error) bool {
					if err != nil || pd == nil || !pd.Name().Equal(name) || !bytes.Equal(pd.Content().Join(), cont.Join()) {
						return false
					}
					if (s.Fresh >= 0) != (pd.Freshness() != nil) || (s.Fresh >= 0 && *pd.Freshness() != time.Duration(s.Fresh)*time.Millisecond) {
						return false
					}
					if (s.Ct >= 0) != (pd.ContentType() != nil) || (s.Ct >= 0 && uint64(*pd.ContentType()) != uint64(s.Ct)) {
						return false
					}
					if (s.Fbid >= 0) != (pd.FinalBlockID() != nil) || (s.Fbid >= 0 && len(pd.FinalBlockID().Val) != s.Fbid) {
						return false
					}
					return true
				}
				decodeOK = func(r enc.ParseReader) (enc.Wire, ndn.Signature, bool) {
					pd, cov, err := spec.Spec{}.ReadData(r)
					if !same(pd, err) {
						return nil, nil, false
					}
					return cov, pd.Signature(), true
				}
			} else {
				cfg := &ndn.InterestConfig{CanBePrefix: s.Cbp, MustBeFresh: s.Mbf}
				for hi, h := range s.Hints {
					cfg.ForwardingHint = append(cfg.ForwardingHint, mkName(h, 100+hi))
				}
				if s.Nonce {
					cfg.Nonce = utils.IdPtr(uint64(0xA1B2C3D4))
				}
				if s.Life >= 0 {
					cfg.Lifetime = utils.IdPtr(time.Duration(s.Life) * time.Millisecond)
				}
				if s.Hop >= 0 {
					cfg.HopLimit = utils.IdPtr(uint(s.Hop))
				}
				var params enc.Wire
				if s.Params >= 0 {
					params = mkBuf(s.Params, s.Split, s.Id)
					if s.Params == 0 {
						params = enc.Wire{[]byte{}}
					}
				}
				i, err := spec.Spec{}.MakeInterest(name.Clone(), cfg, params, signer)
				if err != nil {
					ev["err"] = err.Error()
					return
				}
				raw = i.Wire.Join()
				same := func(pi ndn.Interest, err error) bool {
					if err != nil || pi == nil || !pi.Name().Equal(i.FinalName) || pi.CanBePrefix() != s.Cbp || pi.MustBeFresh() != s.Mbf {
						return false
					}
					if len(pi.ForwardingHint()) != len(s.Hints) {
						return false
					}
					for hi := range s.Hints {
						if !pi.ForwardingHint()[hi].Equal(mkName(s.Hints[hi], 100+hi)) {
							return false
						}
					}
					if s.Nonce != (pi.Nonce() != nil) || (s.Nonce && *pi.Nonce() != 0xA1B2C3D4) {
						return false
					}
					if (s.Life >= 0) != (pi.Lifetime() != nil) || (s.Life >= 0 && *pi.Lifetime() != time.Duration(s.Life)*time.Millisecond) {
						return false
					}
					if (s.Hop >= 0) != (pi.HopLimit() != nil) || (s.Hop >= 0 && int(*pi.HopLimit()) != s.Hop) {
						return false
					}
					if s.Params >= 0 && !bytes.Equal(pi.AppParam().Join(), params.Join()) {
						return false
					}
					return true
				}
				decodeOK = func(r enc.ParseReader) (enc.Wire, ndn.Signature, bool) {
					pi, cov, err := spec.Spec{}.ReadInterest(r)
					if !same(pi, err) {
						return nil, nil, false
					}
					return cov, pi.Signature(), true
				}
			}
			ev["wireLen"] = len(raw)
			top, ok := children(raw, 0, len(raw))
			if !ok || len(top) != 1 {
				return
			}
			ev["outerL"] = top[0].l
			kids, ok := children(raw, top[0].val, top[0].val+top[0].l)
			if !ok || len(kids) == 0 || kids[0].t != 7 {
				return
			}
			nameEl := kids[0]
			ev["nameL"] = nameEl.l
			ev["walkOk"] = tiles(raw, 0, len(raw), map[uint64]bool{5: true, 6: true, 7: true, 20: true, 22: true, 44: true, 30: true, 28: true})
			// Name.Bytes() of the decoded name = the Name element of the packet; standalone name decoding returns it
			var full enc.Name
			if sh.Kind == "data" {
				full = name
			} else {
				pi, _, err := spec.Spec{}.ReadInterest(enc.NewBufferReader(raw))
				if err == nil {
					full = pi.Name()
				}
			}
			nb := full.Bytes()
			back, berr := enc.NameFromBytes(nb)
			same := bytes.Equal(nb, raw[nameEl.start:nameEl.val+nameEl.l]) && berr == nil && back.Equal(full)
			// the standalone component encoder / decoders agree with the packet encoder component by component
			off := nameEl.val
			for _, c := range full {
				cb := c.Bytes()
				same = same && off+len(cb) <= len(raw) && bytes.Equal(cb, raw[off:off+len(cb)]) && c.EncodingLength() == len(cb)
				c1, used := enc.ParseComponent(cb)
				c2, err2 := enc.ComponentFromBytes(cb)
				c3, err3 := enc.ReadComponent(enc.NewBufferReader(cb))
				same = same && used == len(cb) && c1.Equal(c) && err2 == nil && c2.Equal(c) && err3 == nil && c3.Equal(c)
				off += len(cb)
			}
			ev["nameBytesSame"] = same && off == nameEl.val+nameEl.l
			// ranges found in the produced bytes
			find := func(t uint64) *elem {
				for i := range kids {
					if kids[i].t == t {
						return &kids[i]
					}
				}
				return nil
			}
			if sh.Kind == "data" {
				if si, sv := find(22), find(23); si != nil && sv != nil {
					covRanges = [][2]int{{nameEl.start, si.val + si.l - nameEl.start}}
					sigRange = [2]int{sv.val, sv.l}
					sm["siL"], sm["sigL"] = si.l, sv.l
				}
			} else {
				ap := find(36)
				if ap != nil {
					digRanges = [][2]int{{ap.start, len(raw) - ap.start}}
					comps, _ := children(raw, nameEl.val, nameEl.val+nameEl.l)
					if len(comps) > 0 && comps[len(comps)-1].t == 2 && comps[len(comps)-1].l == 32 {
						dg := sha256.Sum256(raw[ap.start:])
						last := comps[len(comps)-1]
						ev["digestOk"] = bytes.Equal(dg[:], raw[last.val:last.val+32])
						if si, sv := find(44), find(46); si != nil && sv != nil {
							covRanges = [][2]int{{nameEl.val, last.start - nameEl.val}, {ap.start, si.val + si.l - ap.start}}
							sigRange = [2]int{sv.val, sv.l}
							sm["siL"], sm["sigL"] = si.l, sv.l
						}
					}
				}
			}
			if covRanges == nil {
				covRanges = [][2]int{}
			}
			if digRanges == nil {
				digRanges = [][2]int{}
			}
			ev["covRanges"], ev["digRanges"] = covRanges, digRanges
			cov, sig, ok := decodeOK(enc.NewBufferReader(raw))
			ev["rtContig"] = ok
			seg := true
			for _, c := range cutsOf(len(raw)) {
				if _, _, ok := decodeOK(enc.NewWireReader(enc.Wire{raw[:c], raw[c:]})); !ok {
					seg = false
				}
			}
			if len(raw) > 6 { // three segments
				if _, _, ok := decodeOK(enc.NewWireReader(enc.Wire{raw[:2], raw[2 : len(raw)/2], raw[len(raw)/2:]})); !ok {
					seg = false
				}
			}
			// many small segments: elements and single values span three and more segments
			for _, sz := range []int{1, 3, 7} {
				if sz == 1 && len(raw) > 400 {
					continue
				}
				var ww enc.Wire
				for p := 0; p < len(raw); p += sz {
					ww = append(ww, raw[p:min(p+sz, len(raw))])
				}
				if _, _, ok := decodeOK(enc.NewWireReader(ww)); !ok {
					seg = false
				}
			}
			// segment boundaries may coincide: empty segments, also several in a row, anywhere in the presentation
			for _, c := range cutsOf(len(raw)) {
				for _, ww := range []enc.Wire{{raw[:c], {}, raw[c:]}, {raw[:c], {}, {}, raw[c:]}, {{}, {}, raw[:c], raw[c:], {}, {}}} {
					func() {
						defer func() {
							if r := recover(); r != nil {
								seg = false
								ev["err"] = fmt.Sprint("panic with empty segments: ", r)
							}
						}()
						if _, _, ok := decodeOK(enc.NewWireReader(ww)); !ok {
							seg = false
						}
					}()
				}
			}
			ev["rtSegmented"] = seg
			if sgn != nil && ok {
				want := rangesBytes(raw, covRanges)
				ev["signerSawCovered"] = want != nil && bytes.Equal(sgn.saw, want)
				pc := want != nil && bytes.Equal(cov.Join(), want)
				// the covered bytes must be the same when the packet is presented in four segments
				if q := len(raw) / 4; q > 0 {
					cov4, sig4, ok4 := decodeOK(enc.NewWireReader(enc.Wire{raw[:q], raw[q : 2*q], raw[2*q : 3*q], raw[3*q:]}))
					pc = pc && ok4 && bytes.Equal(cov4.Join(), want) && sig4 != nil && kit.verify(s.Signer, cov4, sig4)
				}
				ev["parserCovered"] = pc
				ev["accepted"] = sig != nil && kit.verify(s.Signer, cov, sig)
			} else if sgn != nil { // a signed packet that does not even decode is accepted by no validator
				ev["parserCovered"], ev["accepted"] = false, false
			}
		}()
		w.Emit(ev)
		n++
		if raw == nil || ev["err"] != "" || !ev["rtContig"].(bool) {
			return
		}
		// ---- tampering (C12): single-bit flips inside the signed portion, the signature value, the parameters
		type region struct {
			name string
			r    [2]int
		}
		var regs []region
		if sgn != nil {
			for _, r := range covRanges {
				regs = append(regs, region{"signed", r})
			}
			regs = append(regs, region{"sigvalue", sigRange})
		}
		for _, r := range digRanges {
			regs = append(regs, region{"params", r})
		}
		// the digest component itself (the last name component of an Interest with parameters, also zero-length ones)
		if sh.Kind == "interest" && len(digRanges) == 1 {
			h := sha256.Sum256(raw[digRanges[0][0] : digRanges[0][0]+digRanges[0][1]])
			if at := bytes.Index(raw[:digRanges[0][0]], h[:]); at >= 0 {
				regs = append(regs, region{"digest", [2]int{at, 32}})
			}
		}
		for _, rg := range regs {
			if rg.r[1] <= 0 {
				continue
			}
			pos := map[int]bool{rg.r[0] * 8: true, (rg.r[0]+rg.r[1])*8 - 1: true}
			for k := 0; k < nTamper; k++ {
				pos[rg.r[0]*8+(k*2654435761+s.Id*97)%(rg.r[1]*8)] = true
			}
			for bit := range pos {
				m := append([]byte{}, raw...)
				m[bit/8] ^= 1 << uint(bit%8)
				outcome := "decode-error"
				func() {
					defer func() {
						if r := recover(); r != nil {
							outcome = "panic"
							if os.Getenv("VERIF_DEBUG") != "" {
								fmt.Println("TAMPER PANIC", sh.Kind, s.Id, bit, r, string(debugStack()))
							}
						}
					}()
					if sh.Kind == "data" {
						pd, cov, err := spec.Spec{}.ReadData(enc.NewBufferReader(m))
						if err == nil {
							outcome = "rejected"
							if pd.Signature() != nil && kit.verify(s.Signer, cov, pd.Signature()) {
								outcome = "accepted"
							}
						}
					} else {
						pi, cov, err := spec.Spec{}.ReadInterest(enc.NewBufferReader(m))
						if err == nil {
							outcome = "rejected"
							sigOK := sgn == nil || (pi.Signature() != nil && kit.verify(s.Signer, cov, pi.Signature()))
							if sigOK { // the digest check happens on decode; a packet that decodes and verifies is accepted
								outcome = "accepted"
							}
						}
					}
				}()
				w.Emit(map[string]any{"ev": "tamper", "kind": sh.Kind, "id": s.Id, "signer": s.Signer, "region": rg.name, "bit": bit, "off": bit/8 - rg.r[0], "outcome": outcome})
				n++
				// the same bytes presented in three segments (the path management and the engines decode through)
				if sh.Kind == "interest" && (rg.name == "params" || rg.name == "digest") && len(m) > 8 {
					out3 := "decode-error"
					func() {
						defer func() {
							if r := recover(); r != nil {
								out3 = "panic"
							}
						}()
						c1, c2 := len(m)/3, 2*len(m)/3
						pi, cov, err := spec.Spec{}.ReadInterest(enc.NewWireReader(enc.Wire{m[:c1], m[c1:c2], m[c2:]}))
						if err == nil {
							out3 = "rejected"
							if sgn == nil || (pi.Signature() != nil && kit.verify(s.Signer, cov, pi.Signature())) {
								out3 = "accepted"
							}
						}
					}()
					w.Emit(map[string]any{"ev": "tamper", "kind": sh.Kind, "id": s.Id, "signer": s.Signer, "region": rg.name + "/segmented", "bit": bit, "off": bit/8 - rg.r[0], "outcome": out3})
					n++
				}
				// the decoder the forwarder and the engines use (ReadPacket) must refuse a parameters-digest mismatch as well
				if sh.Kind == "interest" && (rg.name == "params" || rg.name == "digest") {
					out2 := "decode-error"
					func() {
						defer func() {
							if r := recover(); r != nil {
								out2 = "panic"
							}
						}()
						if pk, _, err := spec.ReadPacket(enc.NewBufferReader(m)); err == nil && pk.Interest != nil {
							out2 = "accepted"
						}
					}()
					w.Emit(map[string]any{"ev": "tamper", "kind": sh.Kind, "id": s.Id, "signer": s.Signer, "region": rg.name + "/ReadPacket", "bit": bit, "off": bit/8 - rg.r[0], "outcome": out2})
					n++
					// ... and when the tampered Interest shares its buffer with a Data packet (nothing stops a link-layer fragment from
					// carrying two blocks): whichever decoder is asked must not hand out that Interest
					if bit%8 == 0 {
						for _, order := range []string{"data-first", "interest-first"} {
							both := append(append([]byte{}, c12Companion...), m...)
							if order == "interest-first" {
								both = append(append([]byte{}, m...), c12Companion...)
							}
							out4 := "decode-error"
							func() {
								defer func() {
									if r := recover(); r != nil {
										out4 = "panic"
									}
								}()
								if pk, _, err := spec.ReadPacket(enc.NewBufferReader(both)); err == nil && pk.Interest != nil {
									out4 = "accepted"
								}
								if pi, _, err := (spec.Spec{}).ReadInterest(enc.NewBufferReader(both)); err == nil && pi != nil && out4 != "accepted" {
									out4 = "accepted"
								}
							}()
							w.Emit(map[string]any{"ev": "tamper", "kind": sh.Kind, "id": s.Id, "signer": s.Signer, "region": rg.name + "/with-data/" + order, "bit": bit, "off": bit/8 - rg.r[0], "outcome": out4})
							n++
						}
					}
				}
			}
		}
	})
	writeMeta("tlv.meta.json", map[string]any{"events": n})
}

// c12Companion is a well-formed Data packet placed next to tampered Interests
var c12Companion = func() []byte {
	d, err := spec.Spec{}.MakeData(nm("/companion"), &ndn.DataConfig{}, enc.Wire{[]byte("x")}, sec.NewSha256Signer())
	if err != nil {
		panic(err)
	}
	return d.Wire.Join()
}()
