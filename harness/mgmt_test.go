package h

// Management conformance driver (spec/mgmt/Mgmt.tla, C17): a whole node in one synctest bubble -- the real
// mgmt.Thread on its internal transport and link service, a real forwarding thread in loop mode (so that the
// /localhost scope rule in front of management is exercised), recording requester faces (one local, one non-local)
// and real link-service faces over in-memory transports as command targets. Every command is one event with the
// status returned and the tables / datasets observed afterwards.

import (
	"bytes"
	"encoding/json"
	"fmt"
	"math/rand"
	"os"
	"sort"
	"strconv"
	"strings"
	"testing"
	"testing/synctest"
	"time"

	"github.com/named-data/ndnd/fw/core"
	"github.com/named-data/ndnd/fw/defn"
	"github.com/named-data/ndnd/fw/dispatch"
	"github.com/named-data/ndnd/fw/face"
	"github.com/named-data/ndnd/fw/fw"
	"github.com/named-data/ndnd/fw/mgmt"
	"github.com/named-data/ndnd/fw/table"
	enc "github.com/named-data/ndnd/std/encoding"
	"github.com/named-data/ndnd/std/ndn"
	mgmtdef "github.com/named-data/ndnd/std/ndn/mgmt_2022"
	spec "github.com/named-data/ndnd/std/ndn/spec_2022"
	"github.com/named-data/ndnd/std/utils"
)

type reqFace struct {
	id    uint64
	tx    *face.VerifMemTransport
	datas []*spec.Data
}

// collect decodes the Data packets the node sent to this requester since the last call (reassembling LP fragments,
// which arrive in order on the in-memory transport)
func (f *reqFace) collect() {
	var partial []byte
	for _, fr := range f.tx.Frames {
		p, _, err := spec.ReadPacket(enc.NewBufferReader(fr))
		if err != nil {
			continue
		}
		if p.LpPacket != nil {
			partial = append(partial, p.LpPacket.Fragment.Join()...)
			if p.LpPacket.FragCount != nil && p.LpPacket.FragIndex != nil && *p.LpPacket.FragIndex+1 < *p.LpPacket.FragCount {
				continue
			}
			q, _, err := spec.ReadPacket(enc.NewBufferReader(partial))
			partial = nil
			if err != nil {
				continue
			}
			p = q
		}
		if p.Data != nil {
			f.datas = append(f.datas, p.Data)
		}
	}
	f.tx.Frames = nil
}

// mgCmd is one generated command (logged with the event so that a recorded history can be replayed)
type mgCmd struct {
	Mod, Verb, Pfx                  string
	Local, HasParams, HasName, Junk bool
	Name, FaceRole                  string
	Cost, Origin, Flags             int
	Strat, StratName, StratSuffix   string
	StratBase                       string // badver: existing strategy with a version it does not have
	Cap, Mtu                        string
	FlagsMask                       string // faces/update: "", "both", "flags", "mask"
	Short                           int    // 1: the name ends after /nfd, 2: after the module (no verb)
	Create                          string // faces/create: class of the request (Mgmt.tla)
	Exp                             int    // rib/register: ExpirationPeriod in ms (0: absent)
	Pers                            int    // faces/update: FacePersistency + 1 (0: absent)
	Fl, Mk                          int    // faces/update with FlagsMask "both": Flags and Mask (0, 0: the historical 1, 1)
}
type mgConf struct {
	Algo string
	Lh   bool
}

func mgmtExec(t *testing.T, w *traceWriter, conf mgConf, next func(e int) *mgCmd) (total int) {
	{
		synctest.Test(t, func(t *testing.T) {
			cfg := core.DefaultConfig()
			cfg.Core.LogLevel = "FATAL"
			cfg.Tables.Rib.ReadvertiseNlsr = false
			cfg.Fw.Threads = 1
			cfg.Mgmt.AllowLocalhop = conf.Lh
			core.LoadConfig(cfg, "")
			core.InitializeLogger("")
			core.ShouldQuit = false
			face.Configure()
			table.Configure()
			fw.Configure()
			mgmt.Configure()
			table.CreateFIBTable(conf.Algo)
			table.VerifResetRib()
			crashed := ""
			guard := func(what string, f func()) {
				defer func() {
					if r := recover(); r != nil {
						crashed = what + ": " + fmt.Sprint(r)
					}
				}()
				f()
			}
			go guard("mgmt", func() { mgmt.MakeMgmtThread().Run() })
			th := fw.NewThread(0)
			fw.Threads = []*fw.Thread{th}
			dispatch.InitializeFWThreads([]dispatch.FWThread{th})
			go guard("fw", func() { th.Run() })
			synctest.Wait()
			var allFaces []face.LinkService // also those a faces/destroy command takes out of the face table
			mkReq := func(scope defn.Scope, l, r *defn.URI) *reqFace {
				tx := face.NewVerifMemTransportURI(l, r, scope, 8800)
				ls := face.VerifMakeLinkService(tx, face.MakeNDNLPLinkServiceOptions())
				ls.Run(nil)
				allFaces = append(allFaces, ls)
				return &reqFace{id: ls.FaceID(), tx: tx}
			}
			fL := mkReq(defn.Local, defn.MakeUnixFaceURI("/run/nfd.sock"), defn.MakeFDFaceURI(7))
			fN := mkReq(defn.NonLocal, defn.MakeUDPFaceURI(4, "10.0.0.1", 6363), defn.MakeUDPFaceURI(4, "10.0.0.9", 6363))
			var real []uint64
			var realTx []*face.VerifMemTransport
			for i := 0; i < 2; i++ {
				tx := face.NewVerifMemTransportURI(defn.MakeUDPFaceURI(4, "10.0.0.1", 6363), defn.MakeUDPFaceURI(4, "10.0.0.2", uint16(6363+i)), defn.NonLocal, 1500)
				ls := face.VerifMakeLinkService(tx, face.MakeNDNLPLinkServiceOptions())
				ls.Run(nil)
				allFaces = append(allFaces, ls)
				real = append(real, ls.FaceID())
				realTx = append(realTx, tx)
			}
			synctest.Wait()
			faceMtu := func() []map[string]any {
				out := []map[string]any{}
				for _, f := range face.FaceTable.GetAll() {
					schemes := []string{f.RemoteURI().Scheme()}
					if f.LocalURI().Scheme() != schemes[0] {
						schemes = append(schemes, f.LocalURI().Scheme())
					}
					row := map[string]any{"id": f.FaceID(), "mtu": f.MTU(), "scope": int(f.Scope()), "schemes": schemes,
						"uri": f.RemoteURI().String(), "luri": f.LocalURI().String(), "pers": int(f.Persistency()), "lf": false, "cm": false}
					if nl, ok := f.(*face.NDNLPLinkService); ok {
						op := nl.Options()
						row["lf"], row["cm"] = op.IsConsumerControlledForwardingEnabled, op.IsCongestionMarkingEnabled
					}
					out = append(out, row)
				}
				sort.Slice(out, func(i, j int) bool { return out[i]["id"].(uint64) < out[j]["id"].(uint64) })
				return out
			}
			rootS := "?"
			if rs := table.FibStrategyTable.FindStrategyEnc(enc.Name{}); len(rs) >= 4 {
				rootS = string(rs[3].Val)
			}
			ribRoutes := func() []map[string]any {
				rs := []map[string]any{}
				for _, e := range table.Rib.GetAllEntries() {
					for _, r := range e.GetRoutes() {
						x := -1
						if r.ExpirationPeriod != nil {
							x = int(*r.ExpirationPeriod / time.Millisecond)
						}
						rs = append(rs, map[string]any{"p": nameStrs(e.Name), "face": r.FaceID, "origin": r.Origin, "cost": r.Cost, "flags": r.Flags, "exp": x})
					}
				}
				return rs
			}
			// (routes0: what the daemon registered for itself at start, e.g. its own management prefixes)
			w.Emit(map[string]any{"ev": "Reset", "faces": faceMtu(), "req": []uint64{fL.id, fN.id}, "lh": cfg.Mgmt.AllowLocalhop,
				"cap": table.CsCapacity(), "rootStrategy": rootS, "routes0": ribRoutes(), "g": conf})

			ask := func(src *reqFace, name enc.Name, nonce int) []*spec.Data {
				i, err := spec.Spec{}.MakeInterest(name, &ndn.InterestConfig{Nonce: utils.IdPtr(uint64(nonce)), MustBeFresh: true, CanBePrefix: true}, nil, nil)
				if err != nil {
					panic(err)
				}
				raw := i.Wire.Join()
				p, _, _ := spec.ReadPacket(enc.NewBufferReader(raw))
				src.datas, src.tx.Frames = nil, nil
				th.QueueInterest(&defn.Pkt{Name: p.Interest.NameV, L3: p, Raw: raw, IncomingFaceID: utils.IdPtr(src.id)})
				synctest.Wait()
				time.Sleep(10 * time.Millisecond)
				synctest.Wait()
				src.collect()
				return src.datas
			}
			observe := func(nonce int) map[string]any {
				// a dataset the command itself may have asked for a moment ago (verbs list / info / general are drawn as commands too)
				// would be answered from the cache: let it go stale before the tables are read
				time.Sleep(2 * time.Second)
				synctest.Wait()
				rs := ribRoutes()
				ss := []map[string]any{}
				for _, e := range table.FibStrategyTable.GetAllForwardingStrategies() {
					s := e.GetStrategy()
					sn := "?"
					if len(s) >= 4 {
						sn = string(s[3].Val)
					}
					ss = append(ss, map[string]any{"p": nameStrs(e.Name()), "s": sn})
				}
				fib := []map[string]any{}
				for _, e := range table.FibStrategyTable.GetAllFIBEntries() {
					hops := [][]uint64{}
					for _, h := range e.GetNextHops() {
						hops = append(hops, []uint64{h.Nexthop, h.Cost})
					}
					sort.Slice(hops, func(i, j int) bool { return hops[i][0] < hops[j][0] })
					fib = append(fib, map[string]any{"p": nameStrs(e.Name()), "hops": hops})
				}
				o := map[string]any{"routes": rs, "strats": ss, "cap": table.CsCapacity(), "fib": fib, "faces": faceMtu()}
				// status datasets as a local application sees them
				dsRoutes := []map[string]any{}
				dsOK := true
				if ds := ask(fL, nm("/localhost/nfd/rib/list"), nonce*7+1); len(ds) > 0 {
					st, err := mgmtdef.ParseRibStatus(enc.NewWireReader(ds[0].ContentV), true)
					if err != nil {
						dsOK = false
					} else {
						for _, e := range st.Entries {
							for _, r := range e.Routes {
								x := -1
								if r.ExpirationPeriod != nil {
									x = int(*r.ExpirationPeriod)
								}
								dsRoutes = append(dsRoutes, map[string]any{"p": nameStrs(e.Name), "face": r.FaceId, "origin": r.Origin, "cost": r.Cost, "flags": r.Flags, "exp": x})
							}
						}
					}
				} else {
					dsOK = false
				}
				dsStrats := []map[string]any{}
				if ds := ask(fL, nm("/localhost/nfd/strategy-choice/list"), nonce*7+2); len(ds) > 0 {
					st, err := mgmtdef.ParseStrategyChoiceMsg(enc.NewWireReader(ds[0].ContentV), true)
					if err != nil {
						dsOK = false
					} else {
						for _, e := range st.StrategyChoices {
							sn := "?"
							if e.Strategy != nil && len(e.Strategy.Name) >= 4 {
								sn = string(e.Strategy.Name[3].Val)
							}
							dsStrats = append(dsStrats, map[string]any{"p": nameStrs(e.Name), "s": sn})
						}
					}
				} else {
					dsOK = false
				}
				dsFib := []map[string]any{}
				if ds := ask(fL, nm("/localhost/nfd/fib/list"), nonce*7+3); len(ds) > 0 {
					if st, err := mgmtdef.ParseFibStatus(enc.NewWireReader(ds[0].ContentV), true); err == nil {
						for _, e := range st.Entries {
							hops := [][]uint64{}
							for _, h := range e.NextHopRecords {
								hops = append(hops, []uint64{h.FaceId, h.Cost})
							}
							sort.Slice(hops, func(i, j int) bool { return hops[i][0] < hops[j][0] })
							dsFib = append(dsFib, map[string]any{"p": nameStrs(e.Name), "hops": hops})
						}
					} else {
						dsOK = false
					}
				} else {
					dsOK = false
				}
				dsFaces := []map[string]any{}
				ctr := []map[string]any{}
				if ds := ask(fL, nm("/localhost/nfd/faces/list"), nonce*7+4); len(ds) > 0 {
					if st, err := mgmtdef.ParseFaceStatusMsg(enc.NewWireReader(ds[0].ContentV), true); err == nil {
						for _, e := range st.Vals {
							mtu := -1
							if e.Mtu != nil {
								mtu = int(*e.Mtu)
							}
							dsFaces = append(dsFaces, map[string]any{"id": e.FaceId, "mtu": mtu, "pers": int(e.FacePersistency), "lf": e.Flags&1 != 0, "cm": e.Flags&4 != 0})
							for _, id := range real {
								if lsf := face.FaceTable.Get(id); lsf != nil && id == e.FaceId {
									ctr = append(ctr, map[string]any{"id": id, "inb": lsf.NInBytes(), "outb": lsf.NOutBytes(), "dsIn": e.NInBytes, "dsOut": e.NOutBytes})
								}
							}
						}
					} else {
						dsOK = false
					}
				} else {
					dsOK = false
				}
				dsCap := -1
				if ds := ask(fL, nm("/localhost/nfd/cs/info"), nonce*7+5); len(ds) > 0 {
					if st, err := mgmtdef.ParseCsInfoMsg(enc.NewWireReader(ds[0].ContentV), true); err == nil && st.CsInfo != nil {
						dsCap = int(st.CsInfo.Capacity)
					} else {
						dsOK = false
					}
				} else {
					dsOK = false
				}
				o["dsRoutes"], o["dsStrats"], o["dsOK"], o["dsFib"], o["dsFaces"], o["dsCap"] = dsRoutes, dsStrats, dsOK, dsFib, dsFaces, dsCap
				o["ctr"] = ctr
				// faces/query with a handful of filters (by id, scheme, scope, remote and local URI, combinations, nothing)
				queries := []map[string]any{}
				type qf struct {
					faceId, scope     int
					scheme, uri, luri string
				}
				for k, q := range []qf{{int(real[0]), -1, "", "", ""}, {int(real[1]), -1, "", "", ""}, {9999, -1, "", "", ""}, {-1, -1, "udp4", "", ""}, {-1, -1, "unix", "", ""}, {-1, -1, "fd", "", ""},
					{-1, 1, "", "", ""}, {-1, 0, "", "", ""}, {-1, -1, "", "udp4://10.0.0.2:6364", ""}, {-1, -1, "", "", "udp4://10.0.0.1:6363"}, {int(real[1]), 1, "", "", ""},
					{-1, 0, "udp4", "", "udp4://10.0.0.1:6363"}, {-1, -1, "", "", ""}, {-1, -1, "internal", "", ""}} {
					fv := &mgmtdef.FaceQueryFilterValue{}
					if q.faceId >= 0 {
						fv.FaceId = utils.IdPtr(uint64(q.faceId))
					}
					if q.scope >= 0 {
						fv.FaceScope = utils.IdPtr(uint64(q.scope))
					}
					if q.scheme != "" {
						fv.UriScheme = utils.IdPtr(q.scheme)
					}
					if q.uri != "" {
						fv.Uri = utils.IdPtr(q.uri)
					}
					if q.luri != "" {
						fv.LocalUri = utils.IdPtr(q.luri)
					}
					qn := append(nm("/localhost/nfd/faces/query"), enc.NewBytesComponent(enc.TypeGenericNameComponent, (&mgmtdef.FaceQueryFilter{Val: fv}).Encode().Join()))
					ids := []uint64{}
					if ds := ask(fL, qn, nonce*7+20+k); len(ds) > 0 {
						if st, err := mgmtdef.ParseFaceStatusMsg(enc.NewWireReader(ds[0].ContentV), true); err == nil {
							for _, e := range st.Vals {
								ids = append(ids, e.FaceId)
							}
						} else {
							ids = append(ids, 0) // an undecodable answer is not the answer
						}
					} else {
						ids = append(ids, 0)
					}
					queries = append(queries, map[string]any{"f": map[string]any{"faceId": q.faceId, "scope": q.scope, "scheme": q.scheme, "uri": q.uri, "luri": q.luri}, "ids": ids})
				}
				o["queries"] = queries
				// status/general: table sizes at the instant the dataset is generated
				time.Sleep(2 * time.Second) // a status dataset cached a moment ago (the command may have asked for it) goes stale
				synctest.Wait()
				gen := map[string]any{"ok": false, "nfib": -1, "npit": -1, "ncs": -1, "npitBefore": th.GetNumPitEntries(), "ncsBefore": th.GetNumCsEntries()}
				if ds := ask(fL, nm("/localhost/nfd/status/general"), nonce*7+6); len(ds) > 0 {
					if st, err := mgmtdef.ParseGeneralStatus(enc.NewWireReader(ds[0].ContentV), true); err == nil {
						gen["ok"], gen["nfib"], gen["npit"], gen["ncs"] = true, st.NFibEntries, st.NPitEntries, st.NCsEntries
					}
				}
				o["gen"] = gen
				return o
			}
			for e := 0; crashed == ""; e++ {
				g := next(e)
				if g == nil {
					break
				}
				c := map[string]any{"hasParams": g.HasParams, "hasName": g.HasName, "faceId": -1, "cost": g.Cost, "origin": g.Origin, "flags": g.Flags,
					"strat": g.Strat, "stratName": g.StratName, "capacity": -1, "mtu": -1, "name": []string{}, "flagsMask": "none", "exp": -1, "create": g.Create, "pers": g.Pers - 1, "fl": 1, "mk": 1}
				args := &mgmtdef.ControlArgs{}
				mod, verb := g.Mod, g.Verb
				if g.HasName {
					args.Name = nm(g.Name)
					c["name"] = strs(g.Name)
				}
				switch g.FaceRole {
				case "real0", "real1":
					args.FaceId = utils.IdPtr(real[int(g.FaceRole[4]-'0')])
				case "missing":
					args.FaceId = utils.IdPtr(uint64(9999))
				case "zero":
					args.FaceId = utils.IdPtr(uint64(0))
				case "mgmt": // the internal face management itself listens on (the lowest face id of this node)
					lo := uint64(1 << 62)
					for _, f := range face.FaceTable.GetAll() {
						lo = min(lo, f.FaceID())
					}
					args.FaceId = utils.IdPtr(lo)
				}
				if args.FaceId != nil {
					c["faceId"] = *args.FaceId
				}
				if g.Cost >= 0 {
					args.Cost = utils.IdPtr(uint64(g.Cost))
				}
				if g.Origin >= 0 {
					args.Origin = utils.IdPtr(uint64(g.Origin))
				}
				if g.Flags >= 0 {
					args.Flags = utils.IdPtr(uint64(g.Flags))
				}
				if g.Pers > 0 {
					args.FacePersistency = utils.IdPtr(uint64(g.Pers - 1))
				}
				if g.Exp > 0 {
					args.ExpirationPeriod = utils.IdPtr(uint64(g.Exp))
					c["exp"] = g.Exp
				}
				if g.Create != "" { // faces/create: every class is one the daemon must refuse without opening a socket
					uri := "udp4://10.9.9.9:6363"
					switch g.Create {
					case "nouri":
						uri = ""
					case "smallmtu":
						args.Mtu = utils.IdPtr(uint64(10))
					case "baduri":
						uri = []string{"garbage", "internal://", "null://", "://"}[e%4]
					case "flagsonly":
						if e%2 == 0 {
							args.Flags = utils.IdPtr(uint64(1))
						} else {
							args.Mask = utils.IdPtr(uint64(1))
						}
					case "conflict":
						uri = "udp4://10.0.0.2:6363"
					case "multicast":
						uri = []string{"udp4://224.0.0.23:56363", "tcp4://224.0.0.23:6363", "udp6://[ff02::1234]:56363", "udp4://0.0.0.0:6363"}[e%4]
					case "ondemand":
						args.FacePersistency = utils.IdPtr(uint64([]int{1, 3, 77}[e%3]))
						if e%2 == 0 {
							uri = "tcp4://10.9.9.9:6363"
						}
					case "scheme":
						uri = []string{"dev://eth0", "fd://5", "unix:///run/verif-none.sock"}[e%3]
					}
					if uri != "" {
						args.Uri = utils.IdPtr(uri)
					}
				}
				if g.Cap != "" {
					cv, _ := strconv.ParseUint(g.Cap, 10, 64)
					args.Capacity = utils.IdPtr(cv)
					if cv <= 65536 {
						c["capacity"] = int(cv)
					} else {
						c["capacity"] = -2 // not representable as a cache size
					}
				}
				if g.Mtu != "" {
					mv, _ := strconv.ParseUint(g.Mtu, 10, 64)
					args.Mtu = utils.IdPtr(mv)
					c["mtu"] = int(min(mv, 100000))
				}
				switch g.FlagsMask {
				case "both":
					fl, mk := 1, 1
					if g.Mk != 0 {
						fl, mk = g.Fl, g.Mk
					}
					c["fl"], c["mk"] = fl, mk
					args.Flags, args.Mask = utils.IdPtr(uint64(fl)), utils.IdPtr(uint64(mk))
				case "flags":
					args.Flags = utils.IdPtr(uint64(1))
				case "mask":
					args.Mask = utils.IdPtr(uint64(1))
				}
				if g.FlagsMask != "" {
					c["flagsMask"] = g.FlagsMask
				}
				switch g.Strat {
				case "ok":
					args.Strategy = &mgmtdef.Strategy{Name: nm("/localhost/nfd/strategy/" + g.StratName + g.StratSuffix)}
				case "bare":
					args.Strategy = &mgmtdef.Strategy{Name: nm("/localhost/nfd/strategy")}
				case "unknown":
					args.Strategy = &mgmtdef.Strategy{Name: nm("/localhost/nfd/strategy/foo")}
				case "badver": // an existing strategy in a version it does not have
					base := g.StratBase
					if base == "" {
						base = "multicast/v=9"
					}
					args.Strategy = &mgmtdef.Strategy{Name: nm("/localhost/nfd/strategy/" + base)}
				case "trailing": // an existing strategy and version followed by one component too many
					args.Strategy = &mgmtdef.Strategy{Name: nm("/localhost/nfd/strategy/" + map[bool]string{true: "multicast", false: "best-route"}[e%2 == 0] + "/v=1/extra")}
				case "alien":
					args.Strategy = &mgmtdef.Strategy{Name: nm("/example/strategy/" + g.StratName)}
				case "empty":
					args.Strategy = &mgmtdef.Strategy{Name: enc.Name{}}
				}
				pfx, local := g.Pfx, g.Local
				src := fL
				if !local {
					src = fN
				}
				c["pfx"], c["local"], c["inface"], c["mod"], c["verb"] = pfx, local, src.id, mod, verb
				name := nm("/" + pfx + "/nfd/" + mod + "/" + verb)
				if g.Short == 1 {
					name = nm("/" + pfx + "/nfd")
					c["mod"], c["verb"] = "", ""
				} else if g.Short == 2 {
					name = nm("/" + pfx + "/nfd/" + mod)
					c["verb"] = ""
				}
				if g.Short > 0 {
				} else if g.HasParams {
					p := &mgmtdef.ControlParameters{Val: args}
					name = append(name, enc.NewBytesComponent(enc.TypeGenericNameComponent, p.Encode().Join()))
				} else if g.Junk {
					name = append(name, enc.NewBytesComponent(enc.TypeGenericNameComponent, []byte{0x68, 0x05, 0x07, 0x09, 0x08}))
				}
				ds := ask(src, name, 1000+e)
				status := "none"
				if crashed != "" {
					status = "CRASH"
				} else if len(ds) > 0 {
					r, err := mgmtdef.ParseControlResponse(enc.NewWireReader(ds[0].ContentV), true)
					if err == nil && r.Val != nil {
						status = fmt.Sprint(r.Val.StatusCode)
					} else {
						status = "garbled"
					}
				}
				// follow-up traffic on the target faces: a face must stay usable after any command
				probes := []map[string]any{}
				if crashed == "" {
					for i, id := range real {
						if lsf := dispatch.GetFace(id); lsf != nil {
							d, _ := spec.Spec{}.MakeData(nm("/probe"), &ndn.DataConfig{}, enc.Wire{make([]byte, 300)}, nil)
							raw := d.Wire.Join()
							pp, _, _ := spec.ReadPacket(enc.NewBufferReader(raw))
							realTx[i].Frames = nil
							guard(fmt.Sprint("face", id), func() {
								face.VerifSendPacket(lsf.(*face.NDNLPLinkService), dispatch.OutPkt{Pkt: &defn.Pkt{Name: pp.Data.NameV, L3: pp, Raw: raw}})
							})
							var concat []byte
							fits := true
							for _, fr := range realTx[i].Frames {
								if len(fr) > lsf.MTU() {
									fits = false
								}
								lp, _, err := spec.ReadPacket(enc.NewBufferReader(fr))
								if err == nil && lp.LpPacket != nil {
									concat = append(concat, lp.LpPacket.Fragment.Join()...)
								}
							}
							probes = append(probes, map[string]any{"id": id, "frames": len(realTx[i].Frames), "whole": bytes.Equal(concat, raw), "fits": fits})
						}
					}
					synctest.Wait()
				}
				o := map[string]any{}
				if crashed == "" {
					o = observe(1000 + e)
				}
				if crashed != "" {
					status = "CRASH"
					o = map[string]any{"routes": []any{}, "strats": []any{}, "cap": 0, "fib": []any{}, "faces": []any{}, "dsRoutes": []any{}, "dsStrats": []any{}, "dsOK": false, "dsFib": []any{}, "dsFaces": []any{}, "dsCap": 0, "crash": crashed}
				}
				o["status"], o["probes"] = status, probes
				w.Emit(map[string]any{"ev": "cmd", "c": c, "o": o, "g": g})
				w.w.Flush()
				total++
				if crashed == "" {
					time.Sleep(5 * time.Second) // let cached responses go stale and PIT entries expire
					synctest.Wait()
				}
			}
			// shutdown
			core.ShouldQuit = true
			if !strings.HasPrefix(crashed, "fw") { // the forwarding thread is still running unless it is what crashed
				th.TellToQuit()
				<-th.HasQuit
			}
			for _, f := range face.FaceTable.GetAll() { // one at a time
				f.Close()
				synctest.Wait()
			}
			for id := uint64(max(1, int(fL.id)-4)); id <= fL.id+8; id++ { // (not relying on the listing alone: the management face precedes the requesters)
				if f := face.FaceTable.Get(id); f != nil {
					f.Close()
					synctest.Wait()
				}
			}
			for _, f := range allFaces { // faces destroyed by command are out of the table but their goroutines still run
				f.Close()
				synctest.Wait()
			}
			drained := make(chan struct{})
			go func() {
				for {
					select {
					case <-th.VerifPitCS().UpdateTimer():
					case <-drained:
						return
					}
				}
			}()
			time.Sleep(time.Second)
			synctest.Wait()
			close(drained)
			th.VerifDNL().Ticker.Stop()
		})
	}
	return
}

var mgRib = []string{"/app/x", "/app/x/y", "/app/z"}
var mgFib = []string{"/fib/a", "/fib/a/b"}
var mgSt = []string{"/", "/app", "/st/q"}

func mgRandom(rng *rand.Rand) *mgCmd {
	g := &mgCmd{HasParams: true, HasName: true, Cost: -1, Origin: -1, Flags: -1, Pfx: "localhost", Local: true}
	pickS := func(x ...string) string { return x[rng.Intn(len(x))] }
	switch pick := rng.Intn(10); pick {
	case 9:
		g.Mod, g.Verb = "faces", "create"
		g.Create = pickS("nouri", "smallmtu", "baduri", "flagsonly", "conflict", "multicast", "ondemand", "scheme")
	case 0, 1:
		g.Mod, g.Verb, g.Name = "rib", pickS("register", "register", "unregister"), pickS(mgRib...)
		if g.Verb == "register" && rng.Intn(3) == 0 {
			g.Exp = []int{1, 3000, 86400000}[rng.Intn(3)]
		}
	case 2, 3:
		g.Mod, g.Verb, g.Name = "fib", pickS("add-nexthop", "add-nexthop", "remove-nexthop"), pickS(mgFib...)
	case 4, 5:
		g.Mod, g.Verb, g.Name = "strategy-choice", pickS("set", "set", "unset"), pickS(mgSt...)
	case 6:
		g.Mod, g.Verb = "cs", "config"
	case 7:
		g.Mod, g.Verb = "faces", pickS("update", "update", "update", "destroy")
	default:
		g.Mod, g.Verb = pickS("rib", "fib", "cs", "strategy-choice", "faces", "status"), pickS("bogus", "bogus", "announce", "general", "query", "list")
	}
	switch g.Mod {
	case "cs":
		g.HasName = false
		g.Cap = pickS("0", "5", "100", "65535", "65536", "2147483648", "9223372036854775808", "18446744073709551615")
		g.FlagsMask = pickS("", "", "", "both", "flags", "mask")
	case "faces":
		g.HasName = false
		g.FaceRole = pickS("real0", "real1", "real0", "missing", "none")
		if g.Verb == "create" {
			g.FaceRole = "none"
			break
		}
		if g.Verb == "destroy" { // the second target face, one that does not exist, or none named; never the faces the harness talks through
			g.FaceRole = pickS("real1", "real1", "missing", "none")
		}
		g.FlagsMask = pickS("", "", "", "both", "flags", "mask")
		if g.Verb == "update" && rng.Intn(2) == 0 {
			g.Pers = 1 + rng.Intn(4) // persistent, on-demand, permanent, 3 (no such persistency)
		}
		if rng.Intn(2) == 0 {
			fm := [][2]int{{1, 1}, {0, 1}, {4, 4}, {0, 4}, {5, 5}, {0, 5}, {1, 5}, {4, 5}, {7, 7}}[rng.Intn(9)]
			g.Fl, g.Mk = fm[0], fm[1]
		}
		g.Mtu = pickS("0", "1", "50", "63", "64", "127", "128", "1500", "8800", "8801", "4294967296", "9223372036854775808", "18446744073709551615")
		if g.Pers > 0 && rng.Intn(2) == 0 {
			g.Mtu = ""
		}
	default:
		if rng.Intn(8) == 0 {
			g.HasName = false
		}
		g.FaceRole = pickS("real0", "real1", "missing", "zero", "none", "none")
		if rng.Intn(2) == 0 {
			g.Cost = rng.Intn(20)
		}
		if g.Mod == "rib" && rng.Intn(3) == 0 {
			g.Origin = 128
		}
		if g.Mod == "rib" && rng.Intn(3) == 0 {
			g.Flags = rng.Intn(4)
		}
		if g.Mod == "strategy-choice" && g.Verb == "set" {
			g.StratName = pickS("multicast", "best-route")
			g.Strat = pickS("ok", "ok", "ok", "ok", "bare", "unknown", "badver", "alien", "empty", "", "trailing")
			if g.Strat == "ok" {
				g.StratSuffix = pickS("", "", "/v=1")
			} else {
				g.StratBase = g.StratName + pickS("/v=9", "/v=0", "/v=99", "/v=2")
				g.StratName = ""
			}
		}
	}
	if rng.Intn(10) == 0 {
		g.HasParams = false
		g.Junk = rng.Intn(2) == 0
	}
	if rng.Intn(25) == 0 {
		g.Short, g.HasParams, g.HasName = 1+rng.Intn(2), false, false
	}
	switch rng.Intn(8) {
	case 0:
		g.Pfx = "localhop"
	case 1:
		g.Pfx = "other"
	case 2:
		g.Local = false
	case 3:
		g.Pfx, g.Local = "localhop", false
	}
	return g
}

// mgMatrix is the systematic part: every module/verb once valid and once with each kind of missing or malformed
// parameters, names too short to carry a module or a verb in between, every command followed later by valid ones
func mgMatrix() []*mgCmd {
	base := func(mod, verb string) *mgCmd {
		g := &mgCmd{Mod: mod, Verb: verb, HasParams: true, HasName: true, Cost: -1, Origin: -1, Flags: -1, Pfx: "localhost", Local: true, FaceRole: "real0"}
		switch mod {
		case "rib":
			g.Name = "/app/x"
		case "fib":
			g.Name = "/fib/a"
		case "strategy-choice":
			g.Name, g.FaceRole = "/st/q", "none"
			if verb == "set" {
				g.Strat, g.StratName = "ok", "multicast"
			}
		case "cs":
			g.HasName, g.Cap, g.FaceRole = false, "100", "none"
		case "faces":
			g.HasName, g.Mtu = false, "1400"
			if verb == "destroy" {
				g.FaceRole, g.Mtu = "real1", ""
			}
			if verb == "create" {
				g.FaceRole, g.Mtu, g.Create = "none", "", "conflict"
			}
		}
		return g
	}
	var out []*mgCmd
	verbs := [][2]string{{"rib", "register"}, {"fib", "add-nexthop"}, {"strategy-choice", "set"}, {"cs", "config"}, {"faces", "update"},
		{"rib", "unregister"}, {"fib", "remove-nexthop"}, {"strategy-choice", "unset"}, {"faces", "destroy"}, {"rib", "bogus"}, {"faces", "bogus"}, {"bogus", "bogus"},
		{"rib", "announce"}, {"status", "general"}, {"status", "bogus"}, {"faces", "create"}}
	for _, mv := range verbs {
		for kind := 0; kind < 8; kind++ {
			g := base(mv[0], mv[1])
			switch kind {
			case 1:
				g.HasParams = false
			case 2:
				g.HasParams, g.Junk = false, true
			case 3:
				if !g.HasName {
					continue
				}
				g.HasName = false
			case 4:
				g.FaceRole = "missing"
			case 5:
				g.Short, g.HasParams, g.HasName = 2, false, false
			case 6:
				g.Local = false
			case 7:
				g.Pfx = "localhop"
			}
			out = append(out, g)
			if kind == 5 {
				s1 := base(mv[0], mv[1])
				s1.Short, s1.HasParams, s1.HasName = 1, false, false
				out = append(out, s1)
			}
		}
		out = append(out, base("rib", "register")) // the node still serves a valid command
	}
	// a route that leads /localhop/nfd to the management face must not open link-local management when it is disabled
	r1 := base("rib", "register")
	r1.Name, r1.FaceRole = "/localhop/nfd", "mgmt"
	r2 := base("rib", "register")
	r2.Name, r2.Pfx, r2.Local = "/app/z", "localhop", false
	r3 := base("rib", "register")
	r3.Name, r3.Pfx = "/app/x/y", "localhop"
	r4 := base("rib", "unregister")
	r4.Name, r4.FaceRole = "/localhop/nfd", "mgmt"
	out = append(out, r1, r2, r3, r4, base("rib", "register"))
	// every refusal class of faces/create, twice (the variants of a class alternate with the position in the history)
	for rpt := 0; rpt < 4; rpt++ {
		for _, k := range []string{"nouri", "smallmtu", "baduri", "flagsonly", "conflict", "multicast", "ondemand", "scheme"} {
			g := base("faces", "create")
			g.Create = k
			out = append(out, g)
		}
		out = append(out, base("cs", "config"))
	}
	// the requesting face named explicitly, as 0 and not at all, on both verbs: a route made one way is removed the other way
	for _, pair := range [][2]string{{"none", "zero"}, {"zero", "none"}, {"zero", "zero"}, {"none", "none"}} {
		for _, mod := range []string{"rib", "fib"} {
			g1 := base(mod, map[string]string{"rib": "register", "fib": "add-nexthop"}[mod])
			g1.FaceRole = pair[0]
			g2 := base(mod, map[string]string{"rib": "unregister", "fib": "remove-nexthop"}[mod])
			g2.FaceRole = pair[1]
			out = append(out, g1, g2)
		}
	}
	// a strategy name with a component too many, for the root: were it stored, the next Interest anywhere would meet a strategy nobody has
	{
		g := base("strategy-choice", "set")
		g.Name, g.Strat, g.StratName, g.StratBase = "/", "trailing", "", "x"
		out = append(out, g, base("rib", "register"), base("cs", "config"))
	}
	// face properties: a persistency the face can have (alone: applied; next to a refused field: nothing applied), one it cannot have,
	// local fields / congestion marking switched on and off through Flags + Mask
	for _, v := range []struct {
		pers, fl, mk int
		mtu, fm      string
	}{{3, 0, 0, "", ""}, {1, 0, 0, "", ""}, {3, 0, 0, "10", ""}, {1, 0, 0, "1400", "flags"}, {2, 0, 0, "", ""}, {4, 0, 0, "", ""}, {3, 0, 0, "1300", ""},
		{0, 1, 1, "", "both"}, {0, 0, 1, "", "both"}, {0, 4, 4, "", "both"}, {0, 0, 4, "", "both"}, {0, 5, 5, "", "both"}, {0, 1, 5, "", "both"}, {3, 5, 5, "20", "both"}} {
		g := base("faces", "update")
		g.Pers, g.Fl, g.Mk, g.Mtu, g.FlagsMask = v.pers, v.fl, v.mk, v.mtu, v.fm
		out = append(out, g)
	}
	// a route with an expiration period, re-registered with another one and without one
	for _, x := range []int{3000, 86400000, 0, 1} {
		g := base("rib", "register")
		g.Exp = x
		out = append(out, g)
	}
	return out
}

func TestMgmtGen(t *testing.T) {
	defer watchDriver("TestMgmtGen")()
	w := newTrace("mgmt.ndjson")
	defer w.Close()
	nEx, nEv := envInt("VERIF_N", 40), envInt("VERIF_LEN", 25)
	total := 0
	for k, conf := range []mgConf{{"nametree", false}, {"hashtable", true}} {
		m := mgMatrix()
		if k == 1 { // the same matrix in another order
			rand.New(rand.NewSource(verifSeed())).Shuffle(len(m), func(i, j int) { m[i], m[j] = m[j], m[i] })
		}
		total += mgmtExec(t, w, conf, func(e int) *mgCmd {
			if e >= len(m) {
				return nil
			}
			return m[e]
		})
	}
	for tr := 0; tr < nEx; tr++ {
		rng := rand.New(rand.NewSource(verifSeed()*9176 + int64(tr)))
		total += mgmtExec(t, w, mgConf{Algo: []string{"nametree", "hashtable"}[tr%2], Lh: tr%4 >= 2}, func(e int) *mgCmd {
			if e >= nEv {
				return nil
			}
			return mgRandom(rng)
		})
	}
	writeMeta("mgmt.meta.json", map[string]any{"executions": nEx, "events": total})
}

// TestMgmtReplay re-executes recorded histories ($VERIF_REPLAY: NDJSON with the "g" fields of a recorded trace).
func TestMgmtReplay(t *testing.T) {
	defer watchDriver("TestMgmtReplay")()
	w := newTrace("mgmt.ndjson")
	defer w.Close()
	type row struct {
		Ev string
		G  json.RawMessage
	}
	var execs [][]row
	readNdjson(os.Getenv("VERIF_REPLAY"), func(line []byte) {
		var r row
		json.Unmarshal(line, &r)
		if r.Ev == "Reset" {
			execs = append(execs, []row{r})
		} else if len(execs) > 0 {
			execs[len(execs)-1] = append(execs[len(execs)-1], r)
		}
	})
	total := 0
	for _, ex := range execs {
		var conf mgConf
		json.Unmarshal(ex[0].G, &conf)
		total += mgmtExec(t, w, conf, func(e int) *mgCmd {
			if e+1 >= len(ex) {
				return nil
			}
			g := &mgCmd{}
			json.Unmarshal(ex[e+1].G, g)
			return g
		})
	}
	writeMeta("mgmt.meta.json", map[string]any{"executions": len(execs), "events": total})
}
