package h

// FIB / RIB conformance driver (spec/tables/Tables.tla).
// Applies operation histories (seeded generator, TLC-generated schedules, stored segments) to the real
// table.Rib and to both real FIB implementations, and after every operation logs the lookups for a
// universe of names, both listings with their values, and the shape of the structures.

import (
	"encoding/json"
	"fmt"
	"math/rand"
	"os"
	"path/filepath"
	"sort"
	"testing"

	"github.com/named-data/ndnd/fw/core"
	"github.com/named-data/ndnd/fw/table"
)

type tblAct struct {
	Ev     string   `json:"ev"`
	P      []string `json:"p"`
	Face   uint64   `json:"face"`
	Origin uint64   `json:"origin"`
	Cost   uint64   `json:"cost"`
	Flags  uint64   `json:"flags"`
	S      string   `json:"s"`
	Algo   string   `json:"algo"`
	M      int      `json:"m"`
}

var tblUniverse = []string{"/", "/a", "/a/b", "/a/b/c", "/a/b/c/d", "/a/b/c/d/e", "/a/b/c/d/e/f", "/a/b/c/d/e/f/g", "/a/d", "/a/x", "/e", "/e/f", "/zzz"}
var tblPrefixes = []string{"/", "/a", "/a/b", "/a/b/c", "/a/b/c/d/e", "/a/b/c/d/e/f", "/a/d", "/e"}
var stratFull = map[string]string{"best-route": "/localhost/nfd/strategy/best-route/v=1", "multicast": "/localhost/nfd/strategy/multicast/v=1"}

func stratShort(s []string) string { return "" }

func tblLook() []map[string]any {
	var r []map[string]any
	for _, u := range tblUniverse {
		hops := [][]uint64{}
		for _, h := range table.FibStrategyTable.FindNextHopsEnc(nm(u)) {
			hops = append(hops, []uint64{h.Nexthop, h.Cost})
		}
		sort.Slice(hops, func(i, j int) bool {
			if hops[i][0] != hops[j][0] {
				return hops[i][0] < hops[j][0]
			}
			return hops[i][1] < hops[j][1]
		})
		s := table.FibStrategyTable.FindStrategyEnc(nm(u))
		sn := "nil"
		if s != nil && len(s) >= 5 {
			sn = string(s[3].Val)
		} else if s != nil {
			sn = s.String()
		}
		r = append(r, map[string]any{"n": strs(u), "hops": hops, "strat": sn})
	}
	return r
}

func tblListing() ([]map[string]any, []map[string]any) {
	l, sl := []map[string]any{}, []map[string]any{}
	for _, e := range table.FibStrategyTable.GetAllFIBEntries() {
		hops := [][]uint64{}
		for _, h := range e.GetNextHops() {
			hops = append(hops, []uint64{h.Nexthop, h.Cost})
		}
		sort.Slice(hops, func(i, j int) bool { return hops[i][0] < hops[j][0] })
		l = append(l, map[string]any{"p": nameStrs(e.Name()), "hops": hops})
	}
	for _, e := range table.FibStrategyTable.GetAllForwardingStrategies() {
		s := e.GetStrategy()
		sn := "nil"
		if s != nil && len(s) >= 5 {
			sn = string(s[3].Val)
		}
		sl = append(sl, map[string]any{"p": nameStrs(e.Name()), "s": sn})
	}
	return l, sl
}

func tblApply(a tblAct) (row map[string]any) {
	defer func() {
		if r := recover(); r != nil {
			row = map[string]any{"ev": "P", "panic": fmt.Sprint(r), "act": a.Ev}
		}
	}()
	p := joinName(a.P)
	ev := map[string]any{"ev": a.Ev}
	switch a.Ev {
	case "reg":
		table.Rib.AddEncRoute(nm(p), &table.Route{FaceID: a.Face, Origin: a.Origin, Cost: a.Cost, Flags: a.Flags})
		ev["p"], ev["face"], ev["origin"], ev["cost"], ev["flags"] = a.P, a.Face, a.Origin, a.Cost, a.Flags
	case "unreg":
		table.Rib.RemoveRouteEnc(nm(p), a.Face, a.Origin)
		ev["p"], ev["face"], ev["origin"] = a.P, a.Face, a.Origin
	case "cleanup":
		table.Rib.CleanUpFace(a.Face)
		ev["face"] = a.Face
	case "ins":
		table.FibStrategyTable.InsertNextHopEnc(nm(p), a.Face, a.Cost)
		ev["p"], ev["face"], ev["cost"] = a.P, a.Face, a.Cost
	case "rem":
		table.FibStrategyTable.RemoveNextHopEnc(nm(p), a.Face)
		ev["p"], ev["face"] = a.P, a.Face
	case "clr":
		table.FibStrategyTable.ClearNextHopsEnc(nm(p))
		ev["p"] = a.P
	case "sets":
		table.FibStrategyTable.SetStrategyEnc(nm(p), nm(stratFull[a.S]))
		ev["p"], ev["s"] = a.P, a.S
	case "unsets":
		table.FibStrategyTable.UnSetStrategyEnc(nm(p))
		ev["p"] = a.P
	default:
		panic("unknown table action " + a.Ev)
	}
	ev["look"] = tblLook()
	ev["list"], ev["slist"] = tblListing()
	n, d := table.VerifRibNodes()
	fs := table.VerifFibShapeOf()
	// RIB entries as the RIB itself lists them
	routes := []map[string]any{}
	for _, e := range table.Rib.GetAllEntries() {
		for _, r := range e.GetRoutes() {
			routes = append(routes, map[string]any{"p": nameStrs(e.Name), "face": r.FaceID, "origin": r.Origin, "cost": r.Cost, "flags": r.Flags})
		}
	}
	ev["rib"] = routes
	ev["shape"] = map[string]int{"ribnodes": n, "ribdead": d, "fibnodes": fs.Nodes, "fibdead": fs.Dead, "virt": fs.Virt, "virtdead": fs.VirtDead, "virtstale": fs.VirtStale}
	return ev
}

func tblReset(w *traceWriter, algo string, m int) {
	cfg := core.DefaultConfig()
	cfg.Core.LogLevel = "FATAL"
	cfg.Tables.Fib.Hashtable.M = uint16(m)
	core.LoadConfig(cfg, "")
	table.CreateFIBTable(algo)
	table.VerifResetRib()
	w.Emit(map[string]any{"ev": "Reset", "algo": algo, "m": m})
}

func genTblAct(rng *rand.Rand, mode int, rootUnset bool) tblAct {
	p := strs(tblPrefixes[rng.Intn(len(tblPrefixes))])
	g := uint64(1 + rng.Intn(3))
	if mode == 0 {
		o := uint64([]int{0, 128, 65}[rng.Intn(3)])
		switch k := rng.Intn(10); {
		case k < 6:
			return tblAct{Ev: "reg", P: p, Face: g, Origin: o, Cost: uint64(1 + rng.Intn(3)), Flags: uint64(rng.Intn(4))}
		case k < 9:
			return tblAct{Ev: "unreg", P: p, Face: g, Origin: o}
		default:
			return tblAct{Ev: "cleanup", Face: g}
		}
	}
	switch k := rng.Intn(12); {
	case k < 5:
		return tblAct{Ev: "ins", P: p, Face: g, Cost: uint64(1 + rng.Intn(3))}
	case k < 8:
		return tblAct{Ev: "rem", P: p, Face: g}
	case k < 9:
		return tblAct{Ev: "clr", P: p}
	case k < 11:
		return tblAct{Ev: "sets", P: p, S: []string{"best-route", "multicast"}[rng.Intn(2)]}
	default:
		if len(p) == 0 && !rootUnset { // unsetting the root strategy is exercised in one execution out of ten
			p = strs("/a")
		}
		return tblAct{Ev: "unsets", P: p}
	}
}

// TestTblGen: seeded histories; mode rib (register/unregister/cleanup) or fib (direct FIB operations),
// alternating FIB implementation and m in 1..6.
func TestTblGen(t *testing.T) {
	defer watchDriver("TestTblGen")()
	w := newTrace("tbl_gen.ndjson")
	defer w.Close()
	n, ln := envInt("VERIF_N", 300), envInt("VERIF_LEN", 30)
	mode := map[string]int{"rib": 0, "fib": 1}[envStr("VERIF_MODE", "rib")]
	total := 0
	for tr := 0; tr < n; tr++ {
		rng := rand.New(rand.NewSource(verifSeed()*7919 + int64(tr)))
		tblReset(w, []string{"nametree", "hashtable"}[tr%2], 1+(tr/2)%6)
		for e := 0; e < ln; e++ {
			row := tblApply(genTblAct(rng, mode, tr%10 == 7))
			w.Emit(row)
			total++
			if row["ev"] == "P" {
				break
			}
		}
	}
	writeMeta("tbl_gen.meta.json", map[string]any{"executions": n, "events": total})
}

// TestTblSched: TLC-generated histories ($VERIF_SCHED/*.ndjson) / stored segment ($VERIF_REPLAY),
// each applied to both FIB implementations.
func TestTblSched(t *testing.T) {
	defer watchDriver("TestTblSched")()
	var files []string
	if r := os.Getenv("VERIF_REPLAY"); r != "" {
		files = []string{r}
	} else {
		files, _ = filepath.Glob(filepath.Join(envStr("VERIF_SCHED", "/nonexistent"), "*.ndjson"))
		sort.Strings(files)
	}
	w := newTrace("tbl_sched.ndjson")
	defer w.Close()
	total := 0
	for k, fn := range files {
		var sched []tblAct
		readNdjson(fn, func(line []byte) {
			var a tblAct
			if err := json.Unmarshal(line, &a); err != nil {
				panic(err)
			}
			sched = append(sched, a)
		})
		type cfgT struct {
			algo string
			m    int
		}
		cfgs := []cfgT{{"nametree", 2}, {"hashtable", 1 + k%3}}
		if len(sched) > 0 && sched[0].Ev == "Reset" {
			cfgs = []cfgT{{sched[0].Algo, sched[0].M}}
			sched = sched[1:]
		}
		for _, c := range cfgs {
			tblReset(w, c.algo, c.m)
			for _, a := range sched {
				row := tblApply(a)
				w.Emit(row)
				total++
				if row["ev"] == "P" {
					break
				}
			}
		}
	}
	writeMeta("tbl_sched.meta.json", map[string]any{"executions": len(files), "events": total})
}
