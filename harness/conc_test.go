package h

// Concurrency conformance drivers for the shared tables (spec/conc/TablesConc.tla, C16).
//
// TestConcSched  gated replay: every process of a TLC-generated schedule is a real goroutine that runs its operations
//                on the real RIB / FIB / strategy table; the gates in fw/table (before every RIB-mutex and FIB-lock
//                acquisition) park it, and the scheduler releases one goroutine at a time in the order TLC chose.
//                After every step the routes, the FIB and the strategy choices are logged. A goroutine released
//                into a held RIB mutex must not come back until the holder has returned ("blocked").
// TestConcFree   the same operation sets free-running on 2..16 goroutines (built with -race by the check): invocation
//                and return of every operation stamped by one atomic counter, results logged, final tables logged.

import (
	"bytes"
	"encoding/json"
	"fmt"
	"math/rand"
	"os"
	"path/filepath"
	"runtime"
	"sort"
	"strconv"
	"sync"
	"sync/atomic"
	"testing"
	"time"

	"github.com/named-data/ndnd/fw/core"
	"github.com/named-data/ndnd/fw/defn"
	"github.com/named-data/ndnd/fw/face"
	"github.com/named-data/ndnd/fw/table"
)

type cOp struct {
	K   string   `json:"k"`
	P   []string `json:"p,omitempty"`
	N   []string `json:"n,omitempty"`
	F   uint64   `json:"f,omitempty"`
	Inh bool     `json:"inh"`
	S   string   `json:"s,omitempty"`
}

type cRoute struct {
	P   []string `json:"p"`
	F   uint64   `json:"f"`
	Inh bool     `json:"inh"`
}

type cConf struct {
	Ev    string           `json:"ev"`
	Rib0  []cRoute         `json:"rib0"`
	Procs []string         `json:"procs"`
	Prog  map[string][]cOp `json:"prog"`
}

func goid() int {
	b := make([]byte, 64)
	b = b[:runtime.Stack(b, false)]
	b = bytes.TrimPrefix(b, []byte("goroutine "))
	i := bytes.IndexByte(b, ' ')
	n, _ := strconv.Atoi(string(b[:i]))
	return n
}

func flagsOf(inh bool) uint64 {
	if inh {
		return table.RouteFlagChildInherit
	}
	return 0
}

// runOp executes one operation on the real tables and returns a lookup's answer
func runOp(op cOp) (res []uint64, ress string) {
	switch op.K {
	case "reg":
		table.Rib.AddEncRoute(nm(joinName(op.P)), &table.Route{FaceID: op.F, Origin: 0, Cost: op.F, Flags: flagsOf(op.Inh)})
	case "unreg":
		table.Rib.RemoveRouteEnc(nm(joinName(op.P)), op.F, 0)
	case "down":
		table.Rib.CleanUpFace(op.F)
	case "fibadd":
		table.FibStrategyTable.InsertNextHopEnc(nm(joinName(op.P)), op.F, op.F)
	case "fibdel":
		table.FibStrategyTable.RemoveNextHopEnc(nm(joinName(op.P)), op.F)
	case "sset":
		table.FibStrategyTable.SetStrategyEnc(nm(joinName(op.P)), nm("/localhost/nfd/strategy/"+op.S+"/v=1"))
	case "sunset":
		table.FibStrategyTable.UnSetStrategyEnc(nm(joinName(op.P)))
	case "look":
		res = []uint64{}
		for _, h := range table.FibStrategyTable.FindNextHopsEnc(nm(joinName(op.N))) {
			res = append(res, h.Nexthop)
		}
	case "slook":
		ress = "?"
		if s := table.FibStrategyTable.FindStrategyEnc(nm(joinName(op.N))); len(s) >= 4 {
			ress = string(s[3].Val)
		}
	}
	return
}

func concSetup(algo string, rib0 []cRoute) {
	cfg := core.DefaultConfig()
	cfg.Core.LogLevel = "FATAL"
	cfg.Tables.Rib.ReadvertiseNlsr = false
	core.LoadConfig(cfg, "")
	core.InitializeLogger("")
	table.Configure()
	table.CreateFIBTable(algo)
	table.VerifResetRib()
	for _, r := range rib0 {
		table.Rib.AddEncRoute(nm(joinName(r.P)), &table.Route{FaceID: r.F, Origin: 0, Cost: r.F, Flags: flagsOf(r.Inh)})
	}
}

func concObserve() map[string]any {
	rs := []map[string]any{}
	for _, r := range table.VerifRibRoutes() {
		rs = append(rs, map[string]any{"p": nameStrs(r.Name), "f": r.Route.FaceID, "inh": r.Route.Flags&table.RouteFlagChildInherit != 0})
	}
	fib := []map[string]any{}
	for _, e := range table.FibStrategyTable.GetAllFIBEntries() {
		hops := []uint64{}
		for _, h := range e.GetNextHops() {
			hops = append(hops, h.Nexthop)
		}
		sort.Slice(hops, func(i, j int) bool { return hops[i] < hops[j] })
		fib = append(fib, map[string]any{"p": nameStrs(e.Name()), "hops": hops})
	}
	st := []map[string]any{}
	for _, e := range table.FibStrategyTable.GetAllForwardingStrategies() {
		s := "?"
		if len(e.GetStrategy()) >= 4 {
			s = string(e.GetStrategy()[3].Val)
		}
		st = append(st, map[string]any{"p": nameStrs(e.Name()), "s": s})
	}
	return map[string]any{"rib": rs, "fib": fib, "strat": st}
}

// ---- gated replay -------------------------------------------------------------------------------------------------

type gProc struct {
	name    string
	release chan struct{}
	report  chan gReport
	at      string // where it is parked: "start" | "rib" | "fib" | "ret"
	opi     int    // 1-based index of its current operation
	blocked bool
	done    bool
}

type gReport struct {
	site string
	opi  int
	res  []uint64
	ress string
}

type gSched struct {
	mu    sync.Mutex
	procs map[int]*gProc
}

func (s *gSched) hook(site string) {
	s.mu.Lock()
	p := s.procs[goid()]
	s.mu.Unlock()
	if p == nil {
		return // not a scheduled goroutine (the harness itself observing the tables)
	}
	p.report <- gReport{site: site, opi: p.opi}
	<-p.release
}

func concReplay(w *traceWriter, conf cConf, sched []string, algo string) (steps int, bad string) {
	concSetup(algo, conf.Rib0)
	s := &gSched{procs: map[int]*gProc{}}
	table.VerifGateHook = s.hook
	defer func() { table.VerifGateHook = nil }()
	row := map[string]any{"ev": "Reset", "algo": algo, "rib0": conf.Rib0, "prog": conf.Prog, "procs": conf.Procs, "mode": "gated"}
	w.Emit(row)
	procs := map[string]*gProc{}
	for _, name := range conf.Procs {
		p := &gProc{name: name, release: make(chan struct{}), report: make(chan gReport, 1), at: "start", opi: 1}
		procs[name] = p
		prog := conf.Prog[name]
		if len(prog) == 0 {
			p.done = true
			continue
		}
		started := make(chan struct{})
		go func() {
			s.mu.Lock()
			s.procs[goid()] = p
			s.mu.Unlock()
			close(started)
			<-p.release
			for i, op := range prog {
				p.opi = i + 1
				res, ress := runOp(op)
				p.report <- gReport{site: "ret", opi: i + 1, res: res, ress: ress}
				if i+1 < len(prog) {
					<-p.release
				}
			}
		}()
		<-started
	}
	holder := "" // the process inside a RIB section, as far as the harness can tell
	var waiter *gProc
	emit := func(p *gProc, from string, r gReport, extra map[string]any) {
		o := concObserve()
		row := map[string]any{"ev": "step", "p": p.name, "opi": r.opi, "from": from, "to": r.site, "unexpected": false, "granted": false,
			"rib": o["rib"], "fib": o["fib"], "strat": o["strat"], "res": r.res, "ress": r.ress}
		if r.res == nil {
			row["res"] = []uint64{}
		}
		for k, v := range extra {
			row[k] = v
		}
		w.Emit(row)
		steps++
	}
	arrived := func(p *gProc, from string, r gReport, extra map[string]any) {
		p.at = r.site
		if from == "rib" {
			holder = p.name
		}
		if r.site == "ret" {
			if holder == p.name {
				holder = ""
			}
			if r.opi >= len(conf.Prog[p.name]) {
				p.done = true
			}
		}
		emit(p, from, r, extra)
	}
	stepOne := func(p *gProc) bool {
		from := p.at
		expectBlock := from == "rib" && holder != "" && holder != p.name
		p.release <- struct{}{}
		if expectBlock {
			select {
			case r := <-p.report: // it got in although another goroutine is inside the RIB section
				arrived(p, from, r, map[string]any{"unexpected": true})
			case <-time.After(40 * time.Millisecond):
				p.blocked = true
				waiter = p
				o := concObserve()
				w.Emit(map[string]any{"ev": "step", "p": p.name, "opi": p.opi, "from": from, "to": "blocked", "unexpected": false, "granted": false,
					"rib": o["rib"], "fib": o["fib"], "strat": o["strat"], "res": []uint64{}, "ress": ""})
				steps++
			}
			return true
		}
		select {
		case r := <-p.report:
			arrived(p, from, r, nil)
		case <-time.After(10 * time.Second):
			bad = "DEADLOCK: " + p.name + " released from " + from + " never reached a gate"
			return false
		}
		// the RIB mutex was handed to the goroutine waiting for it
		if waiter != nil && holder == "" {
			q := waiter
			select {
			case r := <-q.report:
				q.blocked = false
				waiter = nil
				arrived(q, "rib", r, map[string]any{"granted": true})
			case <-time.After(10 * time.Second):
				bad = "DEADLOCK: " + q.name + " still blocked on the RIB mutex after it was released"
				return false
			}
		}
		return true
	}
	runnable := func(p *gProc) bool { return !p.done && !p.blocked }
	for _, name := range sched {
		p := procs[name]
		if p == nil || !runnable(p) {
			continue
		}
		if p.at == "rib" && holder != "" && waiter != nil {
			continue // one waiter at a time: which of two waiters gets the mutex is not ours to choose
		}
		if !stepOne(p) {
			break
		}
	}
	// run everything to the end (round robin)
	for bad == "" {
		progress := false
		for _, name := range conf.Procs {
			p := procs[name]
			if runnable(p) && !(p.at == "rib" && holder != "" && waiter != nil) {
				progress = true
				if !stepOne(p) {
					break
				}
			}
		}
		if !progress {
			break
		}
	}
	if bad == "" {
		for _, p := range procs {
			if !p.done {
				bad = "DEADLOCK: " + p.name + " never finished"
			}
		}
	}
	if bad != "" {
		w.Emit(map[string]any{"ev": "bad", "what": bad})
		return
	}
	o := concObserve()
	w.Emit(map[string]any{"ev": "final", "rib": o["rib"], "fib": o["fib"], "strat": o["strat"]})
	return
}

func readSchedule(path string) (conf cConf, sched []string) {
	first := true
	readNdjson(path, func(line []byte) {
		if first {
			json.Unmarshal(line, &conf)
			first = false
			return
		}
		var g struct{ P string }
		json.Unmarshal(line, &g)
		if g.P != "" {
			sched = append(sched, g.P)
		}
	})
	return
}

func TestConcSched(t *testing.T) {
	defer watchDriver("TestConcSched")() // a deadlock of the tables (a lock that is never released) stops all progress: reported as a hang
	w := newTrace("conc_sched.ndjson")
	defer w.Close()
	var files []string
	if r := os.Getenv("VERIF_REPLAY"); r != "" {
		files = []string{r}
	} else {
		files, _ = filepath.Glob(filepath.Join(envStr("VERIF_SCHED", "/verif/out/manual/sched"), "*.ndjson"))
		sort.Strings(files)
	}
	total := 0
	for i, f := range files {
		conf, sched := readSchedule(f)
		if conf.Ev == "Reset" { // a recorded trace is replayed: the order of the steps it took is the schedule
			sched = nil
			readNdjson(f, func(line []byte) {
				var g struct{ Ev, P string }
				json.Unmarshal(line, &g)
				if g.Ev == "step" {
					sched = append(sched, g.P)
				}
			})
		}
		for a, algo := range []string{"nametree", "hashtable"} {
			if os.Getenv("VERIF_REPLAY") == "" && (i+a)%2 == 1 && envInt("VERIF_BOTH", 0) == 0 {
				continue // alternate the implementations over the schedules
			}
			n, bad := concReplay(w, conf, sched, algo)
			total += n
			if bad != "" {
				t.Log(bad)
			}
		}
		w.w.Flush()
	}
	writeMeta("conc_sched.meta.json", map[string]any{"executions": len(files), "events": total})
}

// ---- free-running stress ---------------------------------------------------------------------------------------------

var concPrefixes = [][]string{{"a"}, {"a"}, {"a", "b"}, {"a", "b"}, {"a", "c"}}
var concNames = [][]string{{"a", "x"}, {"a", "b", "x"}, {"a", "b", "x"}, {"a", "c", "x"}, {"d", "x"}}

func randConcOp(rng *rand.Rand, lookOnly bool) cOp {
	ks := []string{"reg", "reg", "reg", "unreg", "unreg", "down", "down", "fibadd", "fibdel", "sset", "sunset", "look"}
	if lookOnly {
		ks = []string{"look", "look", "look", "slook"}
	}
	op := cOp{K: ks[rng.Intn(len(ks))]}
	f := uint64(1 + rng.Intn(3))
	switch op.K {
	case "reg":
		op.P, op.F, op.Inh = concPrefixes[rng.Intn(5)], f, rng.Intn(3) > 0
	case "unreg":
		op.P, op.F = concPrefixes[rng.Intn(5)], f
	case "down":
		op.F = f
	case "fibadd", "fibdel":
		op.P, op.F = []string{"d"}, f
	case "sset":
		op.P, op.S = concPrefixes[rng.Intn(4)], []string{"multicast", "best-route"}[rng.Intn(2)]
	case "sunset":
		op.P = concPrefixes[rng.Intn(4)]
	case "look":
		op.N = concNames[rng.Intn(5)]
	case "slook":
		op.N = concNames[rng.Intn(3)]
	}
	return op
}

func TestConcFree(t *testing.T) {
	defer watchDriver("TestConcFree")() // a deadlock of the tables (a lock that is never released) stops all progress: reported as a hang
	w := newTrace("conc_free.ndjson")
	defer w.Close()
	nEx := envInt("VERIF_N", 60)
	total := 0
	writers := []string{"w1", "w2", "w3", "w4", "w5", "w6"}
	readers := []string{"r1", "r2", "r3", "r4", "r5", "r6", "r7", "r8", "r9", "r10"}
	for tr := 0; tr < nEx; tr++ {
		rng := rand.New(rand.NewSource(verifSeed()*5171 + int64(tr)))
		nw, nr := 1+rng.Intn(len(writers)), 1+rng.Intn(len(readers)) // 2..16 goroutines
		conf := cConf{Prog: map[string][]cOp{}}
		for _, r := range []cRoute{{[]string{"a"}, 1, true}, {[]string{"a"}, 2, false}, {[]string{"a", "b"}, 2, true}, {[]string{"a", "c"}, 3, true}, {[]string{"a"}, 3, true}} {
			if rng.Intn(2) == 0 {
				conf.Rib0 = append(conf.Rib0, r)
			}
		}
		if conf.Rib0 == nil {
			conf.Rib0 = []cRoute{}
		}
		for _, p := range writers[:nw] {
			conf.Procs = append(conf.Procs, p)
			for i, n := 0, 1+rng.Intn(3); i < n; i++ {
				conf.Prog[p] = append(conf.Prog[p], randConcOp(rng, false))
			}
		}
		for _, p := range readers[:nr] {
			conf.Procs = append(conf.Procs, p)
			for i, n := 0, 1+rng.Intn(4); i < n; i++ {
				conf.Prog[p] = append(conf.Prog[p], randConcOp(rng, true))
			}
		}
		algo := []string{"nametree", "hashtable"}[tr%2]
		concSetup(algo, conf.Rib0)
		w.Emit(map[string]any{"ev": "Reset", "algo": algo, "rib0": conf.Rib0, "prog": conf.Prog, "procs": conf.Procs, "mode": "free"})
		type stamped struct {
			at  int64
			row map[string]any
		}
		var clock atomic.Int64
		logs := make([][]stamped, len(conf.Procs))
		var wg sync.WaitGroup
		start := make(chan struct{})
		for pi, name := range conf.Procs {
			wg.Add(1)
			go func() {
				defer wg.Done()
				<-start
				for i, op := range conf.Prog[name] {
					logs[pi] = append(logs[pi], stamped{clock.Add(1), map[string]any{"ev": "inv", "p": name, "opi": i + 1}})
					res, ress := runOp(op)
					if res == nil {
						res = []uint64{}
					}
					logs[pi] = append(logs[pi], stamped{clock.Add(1), map[string]any{"ev": "ret", "p": name, "opi": i + 1, "res": res, "ress": ress}})
					if i%2 == 1 {
						runtime.Gosched()
					}
				}
			}()
		}
		finished := make(chan struct{})
		go func() { wg.Wait(); close(finished) }()
		close(start)
		select {
		case <-finished:
		case <-time.After(20 * time.Second):
			w.Emit(map[string]any{"ev": "bad", "what": "DEADLOCK: operations did not return within 20 s"})
			w.w.Flush()
			t.Fatal("deadlock")
		}
		var all []stamped
		for _, lg := range logs {
			all = append(all, lg...)
		}
		sort.Slice(all, func(i, j int) bool { return all[i].at < all[j].at })
		for _, s := range all {
			w.Emit(s.row)
			total++
		}
		o := concObserve()
		w.Emit(map[string]any{"ev": "final", "rib": o["rib"], "fib": o["fib"], "strat": o["strat"]})
		w.w.Flush()
	}
	writeMeta("conc_free.meta.json", map[string]any{"executions": nEx, "events": total})
}

// TestConcHammer: contention without bookkeeping -- 16 goroutines hammer the same few prefixes (registrations, teardowns,
// direct FIB updates, strategy changes, lookups whose results are read, listings) for the race detector and the runtime
// to judge: a data-race report, "concurrent map" fatal error, panic or deadlock is the observation.
func TestConcHammer(t *testing.T) {
	defer watchDriver("TestConcHammer")() // a deadlock of the tables (a lock that is never released) stops all progress: reported as a hang
	w := newTrace("conc_hammer.ndjson")
	defer w.Close()
	nEx, nOps := envInt("VERIF_N", 6), envInt("VERIF_LEN", 1500)
	lsetup := false
	for tr := 0; tr < nEx; tr++ {
		algo := []string{"nametree", "hashtable"}[tr%2]
		rib0 := []cRoute{{[]string{"a"}, 1, true}, {[]string{"a", "b"}, 2, true}}
		concSetup(algo, rib0)
		if !lsetup {
			face.Configure()
			lsetup = true
			for i := 0; i < 100; i++ { // face ids of the table start at 1: keep them apart from the faces 1..3 the writers register routes on
				ls := face.VerifMakeLinkService(face.NewVerifMemTransport(defn.NonLocal, 1500), face.MakeNDNLPLinkServiceOptions())
				face.FaceTable.Add(ls)
				face.FaceTable.Remove(ls.FaceID())
			}
		}
		w.Emit(map[string]any{"ev": "Reset", "algo": algo, "rib0": rib0, "prog": map[string][]cOp{}, "procs": []string{}, "mode": "hammer"})
		var wg sync.WaitGroup
		sum := atomic.Uint64{}
		var rmu sync.Mutex
		removed := []uint64{}
		bads := []string{}
		for g := 0; g < 16; g++ {
			wg.Add(1)
			go func() {
				defer wg.Done()
				rng := rand.New(rand.NewSource(verifSeed()*77 + int64(tr*100+g)))
				for i := 0; i < nOps; i++ {
					switch {
					case g < 5:
						runOp(randConcOp(rng, false))
					case g == 5 || g == 6:
						// a face comes up, gets routes, is looked up, and goes down through the face table (teardown path of the daemon)
						if i%40 != 0 {
							continue
						}
						ls := face.VerifMakeLinkService(face.NewVerifMemTransport(defn.NonLocal, 1500), face.MakeNDNLPLinkServiceOptions())
						face.FaceTable.Add(ls)
						id := ls.FaceID()
						table.Rib.AddEncRoute(nm(joinName(concPrefixes[rng.Intn(5)])), &table.Route{FaceID: id, Cost: 1, Flags: flagsOf(rng.Intn(2) == 0)})
						if face.FaceTable.Get(id) == nil {
							rmu.Lock()
							bads = append(bads, fmt.Sprint("face ", id, " was added and is not in the face table (somebody else's Remove took it: the id was handed out twice)"))
							rmu.Unlock()
						}
						sum.Add(uint64(len(face.FaceTable.GetAll())))
						face.FaceTable.Remove(id)
						if rng.Intn(3) == 0 {
							// management destroyed the face (first Remove, the transport keeps running), a registration that
							// was under way lands, then the face's own goroutine winds down and removes it again
							table.Rib.AddEncRoute(nm(joinName(concPrefixes[rng.Intn(5)])), &table.Route{FaceID: id, Cost: 2, Flags: flagsOf(true)})
							face.FaceTable.Remove(id)
						}
						rmu.Lock()
						removed = append(removed, id)
						rmu.Unlock()
					case g < 14:
						res, _ := runOp(randConcOp(rng, true))
						for _, h := range res {
							sum.Add(h)
						}
					case g == 14:
						for _, e := range table.FibStrategyTable.GetAllFIBEntries() {
							for _, h := range e.GetNextHops() {
								sum.Add(h.Nexthop + h.Cost)
							}
						}
						for _, e := range table.FibStrategyTable.GetAllForwardingStrategies() {
							sum.Add(uint64(len(e.GetStrategy()) + len(e.Name())))
						}
					default:
						for _, e := range table.Rib.GetAllEntries() {
							for _, r := range e.GetRoutes() {
								sum.Add(r.FaceID + r.Cost + r.Flags)
							}
						}
					}
				}
			}()
		}
		finished := make(chan struct{})
		go func() { wg.Wait(); close(finished) }()
		select {
		case <-finished:
		case <-time.After(120 * time.Second):
			t.Fatal("DEADLOCK: hammer goroutines did not finish within 120 s")
		}
		for _, b := range bads {
			w.Emit(map[string]any{"ev": "bad", "what": b})
		}
		// quiescence: the FIB is what the routes prescribe, and nothing of a removed face is left
		o := concObserve()
		w.Emit(map[string]any{"ev": "hfinal", "rib": o["rib"], "fib": o["fib"], "strat": o["strat"], "removed": removed})
		w.w.Flush()
	}
}

var _ = fmt.Sprint
