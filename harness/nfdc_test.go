package h

// Driver for spec/dv/NfdcQueue.tla (C19, stage nfdc): the real nfdc.NfdMgmtThread worker loop executes register /
// unregister commands against a stub forwarder whose answers fail according to a seeded plan; commands are handed
// to Exec at seeded instants while the worker is retrying. Rows: issue (as handed to Exec), attempt (as the worker
// calls the engine, with the answer), final (routes the stub forwarder holds once the queue has drained).

import (
	"encoding/json"
	"errors"
	"fmt"
	"math/rand"
	"sort"
	"sync"
	"testing"
	"testing/synctest"
	"time"

	"github.com/named-data/ndnd/dv/nfdc"
	"github.com/named-data/ndnd/std/ndn"
	mgmt "github.com/named-data/ndnd/std/ndn/mgmt_2022"
	"github.com/named-data/ndnd/std/utils"
)

type nfdcStub struct {
	ndn.Engine // nil: the worker only calls ExecMgmtCmd
	mu         sync.Mutex
	w          *traceWriter
	ids        map[*mgmt.ControlArgs]int
	failLeft   map[int]int // id -> how many more attempts of it fail
	fwd        map[string]int
	events     int
}

func nfdcKey(a *mgmt.ControlArgs) string {
	f := uint64(0)
	if a.FaceId != nil {
		f = *a.FaceId
	}
	return fmt.Sprint(a.Name.String(), "@", f)
}

func (s *nfdcStub) ExecMgmtCmd(module string, cmd string, args any) error {
	s.mu.Lock()
	defer s.mu.Unlock()
	a := args.(*mgmt.ControlArgs)
	id := s.ids[a]
	ok := true
	if s.failLeft[id] > 0 {
		s.failLeft[id]--
		ok = false
	}
	cost := 0
	if a.Cost != nil {
		cost = int(*a.Cost)
	}
	if ok {
		if cmd == "register" {
			s.fwd[nfdcKey(a)] = cost
		} else {
			delete(s.fwd, nfdcKey(a))
		}
	}
	s.w.Emit(map[string]any{"ev": "attempt", "id": id, "ok": ok, "verb": cmd, "key": nfdcKey(a), "cost": cost, "module": module})
	s.events++
	if !ok {
		return errors.New("stub forwarder: command failed")
	}
	return nil
}

type nfdcPlan struct {
	Verb    string `json:"verb"`
	Name    string `json:"name"`
	Face    uint64 `json:"face"`
	Cost    int    `json:"cost"`
	Retries int    `json:"retries"`
	Fails   int    `json:"fails"`
	Gap     int    `json:"gap"`
}

func nfdcRun(t *testing.T, w *traceWriter, plan []nfdcPlan) (total int) {
	synctest.Test(t, func(t *testing.T) {
		stub := &nfdcStub{w: w, ids: map[*mgmt.ControlArgs]int{}, failLeft: map[int]int{}, fwd: map[string]int{}}
		th := nfdc.NewNfdMgmtThread(stub)
		go th.Start()
		w.Emit(map[string]any{"ev": "Reset"})
		for i, p := range plan {
			id := i + 1
			args := &mgmt.ControlArgs{Name: nm(p.Name), FaceId: utils.IdPtr(p.Face)}
			if p.Verb == "register" {
				args.Cost = utils.IdPtr(uint64(p.Cost))
			}
			stub.mu.Lock()
			stub.ids[args] = id
			stub.failLeft[id] = p.Fails
			w.Emit(map[string]any{"ev": "issue", "id": id, "verb": p.Verb, "key": nfdcKey(args), "cost": p.Cost, "retries": p.Retries, "plan": p})
			total++
			stub.mu.Unlock()
			th.Exec(nfdc.NfdMgmtCmd{Module: "rib", Cmd: p.Verb, Args: args, Retries: p.Retries})
			time.Sleep(time.Duration(p.Gap) * time.Millisecond)
		}
		time.Sleep(5 * time.Second) // every budget is spent long before
		synctest.Wait()
		stub.mu.Lock()
		fwd := []map[string]any{}
		keys := []string{}
		for k := range stub.fwd {
			keys = append(keys, k)
		}
		sort.Strings(keys)
		for _, k := range keys {
			fwd = append(fwd, map[string]any{"key": k, "cost": stub.fwd[k]})
		}
		w.Emit(map[string]any{"ev": "final", "fwd": fwd})
		total += stub.events + 1
		stub.mu.Unlock()
		th.Stop()
		synctest.Wait()
	})
	return
}

// TestNfdcReplay re-executes the plan recorded in the issue rows of a saved segment ($VERIF_REPLAY)
func TestNfdcReplay(t *testing.T) {
	defer watchDriver("TestNfdcReplay")()
	w := newTrace("nfdc_replay.ndjson")
	defer w.Close()
	var plan []nfdcPlan
	readNdjson(envStr("VERIF_REPLAY", ""), func(line []byte) {
		var r struct {
			Ev   string   `json:"ev"`
			Plan nfdcPlan `json:"plan"`
		}
		if json.Unmarshal(line, &r) == nil && r.Ev == "issue" {
			plan = append(plan, r.Plan)
		}
	})
	nfdcRun(t, w, plan)
}

func TestNfdcGen(t *testing.T) {
	defer watchDriver("TestNfdcGen")()
	w := newTrace("nfdc.ndjson")
	defer w.Close()
	n := envInt("VERIF_N", 200)
	rng := rand.New(rand.NewSource(verifSeed()*31337 + 5))
	total := 0
	for e := 0; e < n; e++ {
		var plan []nfdcPlan
		k := 2 + rng.Intn(7)
		for id := 1; id <= k; id++ {
			p := nfdcPlan{Verb: []string{"register", "register", "unregister"}[rng.Intn(3)], Name: []string{"/net/b/32=DV", "/p/a", "/q"}[rng.Intn(3)],
				Face: uint64(100 + rng.Intn(2)), Cost: 1 + rng.Intn(4), Retries: []int{3, 3, -1, 1}[rng.Intn(4)],
				Gap: []int{0, 0, 1, 30, 99, 100, 101, 150, 250}[rng.Intn(9)]}
			if p.Verb != "register" {
				p.Cost = 0
			}
			// most commands fail fewer times than their budget allows; a few exhaust it (give-up)
			switch r := rng.Intn(10); {
			case r < 4:
			case r < 9:
				p.Fails = 1 + rng.Intn(2)
				if p.Retries == 1 {
					p.Fails = 0
				}
			default:
				p.Fails = 3
			}
			plan = append(plan, p)
		}
		total += nfdcRun(t, w, plan)
	}
	writeMeta("nfdc.meta.json", map[string]any{"executions": n, "events": total})
}
