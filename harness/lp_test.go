package h

// Link-service conformance driver (spec/link/LpLink.tla): real NDNLPLinkService over an in-memory transport.
// Sender: sweep of (packet size, MTU, PIT token, congestion mark, incoming-face indication, fragmentation on/off);
// every emitted frame is decoded and logged.  Receiver: frames of up to three concurrent messages delivered in
// enumerated / shuffled orders (with duplicates) to a second link service; what reaches the forwarding thread is logged.

import (
	"bytes"
	"crypto/sha256"
	"encoding/hex"
	"fmt"
	"math/rand"
	"testing"

	"github.com/named-data/ndnd/fw/core"
	"github.com/named-data/ndnd/fw/defn"
	"github.com/named-data/ndnd/fw/dispatch"
	"github.com/named-data/ndnd/fw/face"
	"github.com/named-data/ndnd/fw/fw"
	enc "github.com/named-data/ndnd/std/encoding"
	"github.com/named-data/ndnd/std/ndn"
	spec "github.com/named-data/ndnd/std/ndn/spec_2022"
	"github.com/named-data/ndnd/std/utils"
)

func hsh(b []byte) string { x := sha256.Sum256(b); return hex.EncodeToString(x[:8]) }

type recThread struct{ got []*defn.Pkt }

func (r *recThread) String() string            { return "rec" }
func (r *recThread) QueueData(p *defn.Pkt)     { r.got = append(r.got, p) }
func (r *recThread) QueueInterest(p *defn.Pkt) { r.got = append(r.got, p) }
func (r *recThread) GetNumPitEntries() int     { return 0 }
func (r *recThread) GetNumCsEntries() int      { return 0 }

// makePkt builds a Data packet whose wire is exactly n bytes when possible (n >= 40), else the largest below
func makePkt(n int, tag byte) *defn.Pkt {
	for c := n; c >= 0; c-- {
		content := make([]byte, c)
		for i := range content {
			content[i] = tag + byte(i*13)
		}
		d, err := spec.Spec{}.MakeData(nm("/p"), &ndn.DataConfig{}, enc.Wire{content}, nil)
		if err != nil {
			panic(err)
		}
		raw := d.Wire.Join()
		if len(raw) <= n {
			p, _, err := spec.ReadPacket(enc.NewBufferReader(raw))
			if err != nil {
				panic(err)
			}
			return &defn.Pkt{Name: p.Data.NameV, L3: p, Raw: raw}
		}
	}
	panic("size")
}

func lpSetup() *recThread {
	cfg := core.DefaultConfig()
	cfg.Core.LogLevel = "FATAL"
	cfg.Faces.CongestionMarking = false
	core.LoadConfig(cfg, "")
	core.InitializeLogger("")
	face.Configure()
	fw.Threads = make([]*fw.Thread, 1) // one forwarding thread (its number decides the dispatch by name hash); packets go to `rec`
	rec := &recThread{}
	dispatch.InitializeFWThreads([]dispatch.FWThread{rec})
	return rec
}

func lpDecode(fr []byte) map[string]any {
	lp, _, err := spec.ReadPacket(enc.NewBufferReader(fr))
	if err != nil || lp.LpPacket == nil {
		return map[string]any{"size": len(fr), "seq": -1, "idx": -1, "cnt": -1, "flen": -1, "tok": -1, "mark": false, "inface": false}
	}
	L := lp.LpPacket
	g := func(p *uint64) int {
		if p == nil {
			return -1
		}
		return int(*p)
	}
	return map[string]any{"size": len(fr), "seq": g(L.Sequence), "idx": g(L.FragIndex), "cnt": g(L.FragCount), "flen": int(L.Fragment.Length()),
		"tok": len(L.PitToken), "mark": L.CongestionMark != nil, "inface": L.IncomingFaceId != nil}
}

func lpSend(w *traceWriter, sz, mtu, variant int, fragOn bool) {
	tok := []int{0, 6, 6, 0}[variant]
	mark := variant == 2
	inface := variant == 3
	opt := face.MakeNDNLPLinkServiceOptions()
	opt.IsIncomingFaceIndicationEnabled = inface
	opt.IsFragmentationEnabled = fragOn
	tx := face.NewVerifMemTransport(defn.NonLocal, mtu)
	ls := face.VerifMakeLinkService(tx, opt)
	pkt := makePkt(sz, byte(variant))
	if mark {
		pkt.CongestionMark = utils.IdPtr(uint64(1))
	}
	if variant == 0 { // the packet as received carried a token of its own: it must not influence the outgoing frames
		pkt.PitToken = []byte{9, 9, 9, 9, 9, 9}
	}
	out := dispatch.OutPkt{Pkt: pkt}
	if tok > 0 {
		out.PitToken = []byte{0, 0, 1, 2, 3, 4}
	}
	if inface {
		out.InFace = utils.IdPtr(uint64(7))
	}
	row := map[string]any{"ev": "send", "len": len(pkt.Raw), "mtu": mtu, "tok": tok, "mark": mark, "inface": inface, "frag": fragOn}
	func() {
		defer func() {
			if r := recover(); r != nil {
				row["panic"] = fmt.Sprint(r)
			}
		}()
		face.VerifSendPacket(ls, out)
	}()
	frames := []map[string]any{}
	var concat []byte
	for _, fr := range tx.Frames {
		frames = append(frames, lpDecode(fr))
		lp, _, err := spec.ReadPacket(enc.NewBufferReader(fr))
		if err == nil && lp.LpPacket != nil {
			concat = append(concat, lp.LpPacket.Fragment.Join()...)
		}
	}
	row["frames"], row["orig"], row["concat"] = frames, hsh(pkt.Raw), hsh(concat)
	w.Emit(row)
}

// TestLpSend: sender sweep.
func TestLpSend(t *testing.T) {
	defer watchDriver("TestLpSend")()
	lpSetup()
	w := newTrace("lp_send.ndjson")
	defer w.Close()
	w.Emit(map[string]any{"ev": "Reset"})
	full := envInt("VERIF_FULL", 0) == 1
	mtus := []int{128, 129, 150, 200, 253, 256, 300, 512, 1280, 1500, 4000, 8800}
	if full {
		for m := 130; m <= 8800; m += 37 {
			mtus = append(mtus, m)
		}
	}
	rng := rand.New(rand.NewSource(verifSeed()))
	n := 0
	for _, mtu := range mtus {
		sizes := map[int]bool{40: true, 41: true, 8800: true, 8799: true, 8000: true}
		step := 1
		if !full {
			step = 3
		}
		for d := -70; d <= 70; d += step {
			sizes[mtu+d+rng.Intn(step)] = true
		}
		for _, k := range []int{2, 3, 5} {
			for d := -90; d <= 10; d += 5 {
				sizes[k*mtu+d] = true
			}
		}
		for i := 0; i < 20; i++ {
			sizes[40+rng.Intn(8761)] = true
		}
		for sz := range sizes {
			if sz < 40 || sz > 8800 {
				continue
			}
			for variant := 0; variant < 4; variant++ {
				lpSend(w, sz, mtu, variant, !(variant == 1 && sz%7 == 0) && !(variant == 0 && sz%11 == 0))
				n++
			}
		}
	}
	writeMeta("lp_send.meta.json", map[string]any{"executions": 1, "events": n})
}

type lpFrame struct {
	m   int // message number (1..)
	b   []byte
	dup bool
}

func permutations(n int) [][]int {
	if n == 0 {
		return [][]int{{}}
	}
	var out [][]int
	for _, p := range permutations(n - 1) {
		for i := 0; i <= len(p); i++ {
			q := append(append(append([]int{}, p[:i]...), n-1), p[i:]...)
			out = append(out, q)
		}
	}
	return out
}

// one receiver execution: deliver `order` of `all` to a fresh receiver
func lpRxExec(w *traceWriter, rec *recThread, mtu int, all []lpFrame, order []int, msgs map[int]*defn.Pkt, toks map[int][]byte, marks map[int]bool) int {
	w.Emit(map[string]any{"ev": "Reset"})
	rx := face.VerifMakeLinkService(face.NewVerifMemTransport(defn.NonLocal, mtu), face.MakeNDNLPLinkServiceOptions())
	n := 0
	for _, k := range order {
		f := all[k]
		d := lpDecode(f.b)
		rec.got = nil
		row := map[string]any{"ev": "rx", "m": f.m, "f": map[string]any{"seq": d["seq"], "idx": d["idx"], "cnt": d["cnt"]}}
		func() {
			defer func() {
				if r := recover(); r != nil {
					row["panic"] = fmt.Sprint(r)
				}
			}()
			face.VerifHandleFrame(rx, append([]byte(nil), f.b...))
		}()
		del := []int{}
		okAll := true
		for _, p := range rec.got {
			base := -1
			for m, orig := range msgs {
				if bytes.Equal(orig.Raw, p.Raw) {
					base = m
					if !bytes.Equal(toks[m], p.PitToken) || marks[m] != (p.CongestionMark != nil) {
						okAll = false
					}
				}
			}
			if base == -1 {
				okAll = false
			}
			del = append(del, base)
		}
		row["delivered"], row["intact"] = del, okAll
		w.Emit(row)
		n++
	}
	return n
}

// TestLpRx: receiver interleavings. Messages are identified by the base sequence number of their first fragment.
func TestLpRx(t *testing.T) {
	defer watchDriver("TestLpRx")()
	rec := lpSetup()
	w := newTrace("lp_rx.ndjson")
	defer w.Close()
	rng := rand.New(rand.NewSource(verifSeed() + 17))
	nRand := envInt("VERIF_N", 200)
	total, execs := 0, 0
	build := func(mtu int, sizes []int) ([]lpFrame, map[int]*defn.Pkt, map[int][]byte, map[int]bool) {
		tx := face.NewVerifMemTransport(defn.NonLocal, mtu)
		ls := face.VerifMakeLinkService(tx, face.MakeNDNLPLinkServiceOptions())
		var all []lpFrame
		msgs, toks, marks := map[int]*defn.Pkt{}, map[int][]byte{}, map[int]bool{}
		for i, sz := range sizes {
			pkt := makePkt(sz, byte(i+1))
			if i%2 == 1 {
				pkt.CongestionMark = utils.IdPtr(uint64(1))
			}
			n0 := len(tx.Frames)
			tok := []byte{0, 0, 9, 9, 9, byte(i + 1)}
			face.VerifSendPacket(ls, dispatch.OutPkt{Pkt: pkt, PitToken: tok})
			fs := tx.Frames[n0:]
			if len(fs) == 0 {
				continue
			}
			base := lpDecode(fs[0])["seq"].(int)
			if base < 0 { // unfragmented: give it an id of its own
				base = 100000 + i
			}
			msgs[base], toks[base], marks[base] = pkt, tok, i%2 == 1
			for _, b := range fs {
				all = append(all, lpFrame{m: base, b: b})
			}
		}
		return all, msgs, toks, marks
	}
	// (a) every delivery order of two messages with 2..3 fragments each
	for _, mtu := range []int{128, 200} {
		all, msgs, toks, marks := build(mtu, []int{mtu + 30, 2*mtu - 40})
		if len(all) <= 6 {
			for _, order := range permutations(len(all)) {
				total += lpRxExec(w, rec, mtu, all, order, msgs, toks, marks)
				execs++
			}
		}
	}
	// (b) shuffled interleavings of up to three messages, with duplicated fragments
	for tr := 0; tr < nRand; tr++ {
		mtu := []int{128, 200, 300, 1500}[rng.Intn(4)]
		k := 1 + rng.Intn(3)
		sizes := []int{}
		for i := 0; i < k; i++ {
			sizes = append(sizes, 40+rng.Intn(min(8760, 4*mtu)))
		}
		all, msgs, toks, marks := build(mtu, sizes)
		for i := 0; i < len(all) && rng.Intn(3) == 0; i++ {
			all = append(all, lpFrame{m: all[i].m, b: all[i].b, dup: true})
		}
		order := rng.Perm(len(all))
		total += lpRxExec(w, rec, mtu, all, order, msgs, toks, marks)
		execs++
	}
	// (c) packets up to the maximum NDN packet size over the smallest MTUs (many fragments), in order and shuffled
	for _, mtu := range []int{128, 129, 160, 200, 300, 576} {
		for _, sz := range []int{8800, 8799, 7500, 6000, 5000, 3000 + rng.Intn(5000)} {
			all, msgs, toks, marks := build(mtu, []int{sz})
			inorder := make([]int, len(all))
			for i := range inorder {
				inorder[i] = i
			}
			total += lpRxExec(w, rec, mtu, all, inorder, msgs, toks, marks)
			total += lpRxExec(w, rec, mtu, all, rng.Perm(len(all)), msgs, toks, marks)
			execs += 2
		}
	}
	writeMeta("lp_rx.meta.json", map[string]any{"executions": execs, "events": total})
}

// TestLpLocal: local header fields on reception, for every combination of options and fields present.
func TestLpLocal(t *testing.T) {
	defer watchDriver("TestLpLocal")()
	rec := lpSetup()
	w := newTrace("lp_local.ndjson")
	defer w.Close()
	w.Emit(map[string]any{"ev": "Reset"})
	n := 0
	pkt := makePkt(200, 7)
	for mask := 0; mask < 64; mask++ {
		optNH, optCP := mask&1 != 0, mask&2 != 0
		hasNH, hasCP, hasMark, hasTok := mask&4 != 0, mask&8 != 0, mask&16 != 0, mask&32 != 0
		opt := face.MakeNDNLPLinkServiceOptions()
		opt.IsConsumerControlledForwardingEnabled, opt.IsLocalCachePolicyEnabled = optNH, optCP
		rx := face.VerifMakeLinkService(face.NewVerifMemTransport(defn.Local, 1500), opt)
		lp := &spec.LpPacket{Fragment: enc.Wire{pkt.Raw}}
		if hasNH {
			lp.NextHopFaceId = utils.IdPtr(uint64(42))
		}
		if hasCP {
			lp.CachePolicy = &spec.CachePolicy{CachePolicyType: 1}
		}
		if hasMark {
			lp.CongestionMark = utils.IdPtr(uint64(1))
		}
		if hasTok {
			lp.PitToken = []byte{0, 0, 1, 2, 3, 4}
		}
		p := &spec.Packet{LpPacket: lp}
		pe := spec.PacketEncoder{}
		pe.Init(p)
		frame := pe.Encode(p).Join()
		rec.got = nil
		row := map[string]any{"ev": "local", "optNextHop": optNH, "optCachePolicy": optCP, "hasNextHop": hasNH, "hasCachePolicy": hasCP, "hasMark": hasMark, "hasToken": hasTok,
			"gotNextHop": false, "gotCachePolicy": false, "gotMark": false, "gotToken": false, "delivered": 0}
		func() {
			defer func() {
				if r := recover(); r != nil {
					row["panic"] = fmt.Sprint(r)
				}
			}()
			face.VerifHandleFrame(rx, frame)
		}()
		row["delivered"] = len(rec.got)
		if len(rec.got) == 1 {
			g := rec.got[0]
			row["gotNextHop"] = g.NextHopFaceID != nil && *g.NextHopFaceID == 42
			row["gotCachePolicy"] = g.CachePolicy != nil && *g.CachePolicy == 1
			row["gotMark"] = g.CongestionMark != nil
			row["gotToken"] = bytes.Equal(g.PitToken, []byte{0, 0, 1, 2, 3, 4})
		}
		w.Emit(row)
		n++
	}
	writeMeta("lp_local.meta.json", map[string]any{"executions": 1, "events": n})
}

// TestLpCong: congestion marking by queue length.  One packet object is sent on a congested face (socket queue over the threshold) and
// then on an uncongested one, as a forwarding thread does with a packet that has several next hops.  Rule I_C10cong (LpTrace): a frame
// carries a congestion mark only if the packet came with one or this face is congested; sending does
// not change the packet it was given.
func TestLpCong(t *testing.T) {
	defer watchDriver("TestLpCong")()
	lpSetup()
	cfg := core.DefaultConfig()
	cfg.Core.LogLevel = "FATAL"
	cfg.Faces.CongestionMarking = true
	core.LoadConfig(cfg, "")
	face.Configure()
	defer func() {
		cfg.Faces.CongestionMarking = false
		core.LoadConfig(cfg, "")
		face.Configure()
	}()
	w := newTrace("lp_cong.ndjson")
	defer w.Close()
	w.Emit(map[string]any{"ev": "Reset"})
	rng := rand.New(rand.NewSource(verifSeed()*53 + 1))
	n := 0
	for round := 0; round < 6; round++ {
		opt := face.MakeNDNLPLinkServiceOptions()
		opt.BaseCongestionMarkingInterval = 0
		txA, txB := face.NewVerifMemTransport(defn.NonLocal, []int{8800, 1500, 8800}[round%3]), face.NewVerifMemTransport(defn.NonLocal, []int{8800, 8800, 1200}[round%3])
		txA.Queue = 1 << 22
		lsA, lsB := face.VerifMakeLinkService(txA, opt), face.VerifMakeLinkService(txB, opt)
		for i := 0; i < 40; i++ {
			pkt := makePkt(1000+rng.Intn(7000), byte(i))
			up := rng.Intn(4) == 0
			if up {
				pkt.CongestionMark = utils.IdPtr(uint64(1))
			}
			for k, ls := range []*face.NDNLPLinkService{lsA, lsB} {
				tx := []*face.VerifMemTransport{txA, txB}[k]
				tx.Frames = nil
				before := pkt.CongestionMark
				row := map[string]any{"ev": "cong", "congested": tx.Queue > 0, "up": up}
				func() {
					defer func() {
						if r := recover(); r != nil {
							row["panic"] = fmt.Sprint(r)
						}
					}()
					face.VerifSendPacket(ls, dispatch.OutPkt{Pkt: pkt, PitToken: []byte{0, 0, 1, 2, 3, 4}})
				}()
				marks := []bool{}
				for _, fr := range tx.Frames {
					marks = append(marks, lpDecode(fr)["mark"].(bool))
				}
				row["marks"], row["mutated"] = marks, pkt.CongestionMark != before
				w.Emit(row)
				n++
			}
		}
	}
	writeMeta("lp_cong.meta.json", map[string]any{"executions": 1, "events": n})
}
