package h

// Forwarder conformance driver (spec/forwarder/Forwarder.tla).
// Drives the REAL fw.Thread (direct mode: one call per specification action)
// inside a testing/synctest bubble, and records one NDJSON event per action with
// its inputs, its observable outputs and cheap observable state.
// Sources of input schedules: seeded generator, TLC-generated schedules
// ($VERIF_SCHED/*.ndjson), or a stored trace segment ($VERIF_REPLAY).

import (
	"bytes"
	"encoding/binary"
	"encoding/json"
	"fmt"
	"hash/fnv"
	"math/rand"
	"os"
	"path/filepath"
	"sort"
	"testing"
	"testing/synctest"
	"time"

	"github.com/named-data/ndnd/fw/core"
	"github.com/named-data/ndnd/fw/defn"
	"github.com/named-data/ndnd/fw/dispatch"
	"github.com/named-data/ndnd/fw/fw"
	"github.com/named-data/ndnd/fw/table"
	enc "github.com/named-data/ndnd/std/encoding"
	"github.com/named-data/ndnd/std/ndn"
	spec "github.com/named-data/ndnd/std/ndn/spec_2022"
	sec "github.com/named-data/ndnd/std/security"
	"github.com/named-data/ndnd/std/utils"
)

const tick = 500 * time.Millisecond

// ---- schedule / trace row -------------------------------------------------------
type fwdIn struct {
	F     int        `json:"f"`
	N     []string   `json:"n"`
	Cbp   bool       `json:"cbp"`
	Mbf   bool       `json:"mbf"`
	Nonce int        `json:"nonce"`
	Life  int        `json:"life"`
	Hop   int        `json:"hop"`
	Hints [][]string `json:"hints"`
	Nh    int        `json:"nh"`
	Dtok  int        `json:"dtok"`
	Fresh int        `json:"fresh"`
	Tk    int        `json:"tk"`
}
type fwdAct struct {
	Ev   string   `json:"ev"`
	I    fwdIn    `json:"i"`
	E    string   `json:"e"`
	P    []string `json:"p"`
	G    int      `json:"g"`
	C    int      `json:"c"`
	S    string   `json:"s"`
	Cap  int      `json:"cap"`
	Algo string   `json:"algo"`
}

type outI struct {
	Face int `json:"face"`
	Tok  int `json:"tok"`
	Hop  int `json:"hop"`
}
type outD struct {
	Face int      `json:"face"`
	Tok  int      `json:"tok"`
	Name []string `json:"name"`
	Wire int      `json:"wire"`
	Same bool     `json:"same"`
}

// ---- recording faces --------------------------------------------------------------
type capFace struct {
	id    uint64
	scope defn.Scope
	link  defn.LinkType
	x     *fwdExec
}

func (f *capFace) String() string          { return fmt.Sprint("cap", f.id) }
func (f *capFace) SetFaceID(id uint64)     { f.id = id }
func (f *capFace) FaceID() uint64          { return f.id }
func (f *capFace) LocalURI() *defn.URI     { return nil }
func (f *capFace) RemoteURI() *defn.URI    { return nil }
func (f *capFace) Scope() defn.Scope       { return f.scope }
func (f *capFace) LinkType() defn.LinkType { return f.link }
func (f *capFace) MTU() int                { return 8800 }
func (f *capFace) State() defn.State       { return defn.Up }
func (f *capFace) SendPacket(out dispatch.OutPkt) {
	x := f.x
	p, _, err := spec.ReadPacket(enc.NewBufferReader(out.Pkt.Raw))
	if err != nil {
		panic(err)
	}
	if p.Data != nil {
		t := 0 // no token
		if len(out.PitToken) == 1 {
			t = int(out.PitToken[0])
		} else if len(out.PitToken) > 1 {
			t = 999
		}
		w := 0
		fmt.Sscanf(string(p.Data.Content().Join()), "payload%d", &w)
		same := bytes.Equal(x.wires[w], out.Pkt.Raw)
		x.ds = append(x.ds, outD{Face: int(f.id), Tok: t, Name: nameStrs(p.Data.NameV), Wire: w, Same: same})
		return
	}
	hop := -1
	if p.Interest.HopLimitV != nil {
		hop = int(*p.Interest.HopLimitV)
	}
	tok := 0
	switch len(out.PitToken) {
	case 6: // issued by this forwarder: canonical id = creation order of the entry
		tok = x.regTok(binary.BigEndian.Uint32(out.PitToken[2:]))
	case 1: // consumer-chosen next hop path passes the downstream token through
		tok = -int(out.PitToken[0])
	case 0:
		tok = 0
	default:
		tok = -999
	}
	x.is = append(x.is, outI{Face: int(f.id), Tok: tok, Hop: hop})
}

// ---- one execution ---------------------------------------------------------------
type fwdExec struct {
	seenI   []fwdIn // Interests generated so far in this execution (generator state only)
	follow *fwdIn // set by a FIB change made for a pending Interest: the next action repeats that Interest with another nonce
	th      *fw.Thread
	pcs     *table.PitCsTree
	t0      time.Time
	is      []outI
	ds      []outD
	realTok map[uint32]int
	byTok   map[int][]byte
	wireSeq int
	wires   map[int][]byte
	faces   map[int]*capFace
	scanNm  []string
	dead    bool
}

var fwdFaces = []int{1, 2, 3, 4, 5}

func faceScope(id int) defn.Scope {
	if id <= 2 {
		return defn.Local
	}
	return defn.NonLocal
}
func faceLink(id int) defn.LinkType {
	if id == 5 {
		return defn.AdHoc
	}
	return defn.PointToPoint
}

func (x *fwdExec) regTok(tok uint32) int {
	if _, ok := x.realTok[tok]; !ok {
		x.realTok[tok] = len(x.realTok) + 1
		tb := make([]byte, 6)
		binary.BigEndian.PutUint32(tb[2:], tok)
		x.byTok[x.realTok[tok]] = tb
	}
	return x.realTok[tok]
}

// register tokens of newly created entries in creation order (at most one per step)
func (x *fwdExec) regNew(sh table.VerifPitCsShape) {
	for _, e := range sh.Entries {
		x.regTok(e.Token)
	}
}

type keyJ struct {
	Name []string `json:"name"`
	Cbp  bool     `json:"cbp"`
	Mbf  bool     `json:"mbf"`
	Hint []string `json:"hint"`
}

func hintOf(h enc.Name) []string {
	if h == nil {
		return []string{"$nohint"}
	}
	return nameStrs(h)
}

func keysOf(sh table.VerifPitCsShape) map[string]keyJ {
	m := map[string]keyJ{}
	for _, e := range sh.Entries {
		k := keyJ{Name: nameStrs(e.Name), Cbp: e.CanBePrefix, Mbf: e.MustBeFresh, Hint: hintOf(e.Hint)}
		b, _ := json.Marshal(k)
		m[string(b)] = k
	}
	return m
}

type dnlKey struct {
	n string
	c int
}

func (x *fwdExec) scan() map[dnlKey]bool {
	m := map[dnlKey]bool{}
	for _, dn := range x.scanNm {
		for c := 7; c <= 9; c++ {
			if x.th.VerifDNL().Find(nm(dn), uint32(c)) {
				m[dnlKey{dn, c}] = true
			}
		}
	}
	return m
}

func dnlList(m map[dnlKey]bool) []map[string]any {
	out := []map[string]any{}
	keys := []dnlKey{}
	for k := range m {
		keys = append(keys, k)
	}
	sort.Slice(keys, func(i, j int) bool {
		if keys[i].n != keys[j].n {
			return keys[i].n < keys[j].n
		}
		return keys[i].c < keys[j].c
	})
	for _, k := range keys {
		out = append(out, map[string]any{"name": strs(k.n), "nonce": k.c})
	}
	return out
}

var fwdScanNames = []string{"/", "/a", "/a/b", "/a/b/c", "/a/b/c/e", "/d", "/d/f", "/localhost/x", "/localhost/x/y", "/h", "/r/x", fwdCollide, fwdTyped}

func (x *fwdExec) ticksOf(ns int64) int {
	d := time.Unix(0, ns).Sub(x.t0)
	if d%tick != 0 {
		return -7
	}
	return int(d / tick)
}

// step performs one specification action; a panic inside the code under test is an observable outcome.
func (x *fwdExec) step(a fwdAct) (row map[string]any) {
	defer func() {
		if r := recover(); r != nil {
			row = map[string]any{"ev": "P", "panic": fmt.Sprint(r), "act": a.Ev}
			x.dead = true
		}
	}()
	return x.step1(a)
}

func (x *fwdExec) step1(a fwdAct) map[string]any {
	x.is, x.ds = nil, nil
	before := x.pcs.VerifShape()
	dnlBefore := x.scan()
	th := x.th
	ev := map[string]any{"ev": a.Ev}
	switch a.Ev {
	case "I":
		in := a.I
		name := joinName(in.N)
		var hints []enc.Name
		for _, h := range in.Hints {
			hints = append(hints, nm(joinName(h)))
		}
		cfgI := &ndn.InterestConfig{CanBePrefix: in.Cbp, MustBeFresh: in.Mbf,
			Lifetime: utils.IdPtr(time.Duration(in.Life) * tick), ForwardingHint: hints}
		if in.Nonce >= 0 {
			cfgI.Nonce = utils.IdPtr(uint64(in.Nonce))
		}
		if in.Hop >= 0 {
			cfgI.HopLimit = utils.IdPtr(uint(in.Hop))
		}
		iw, err := spec.Spec{}.MakeInterest(nm(name), cfgI, nil, nil)
		if err != nil {
			panic(err)
		}
		raw := iw.Wire.Join()
		p, _, err := spec.ReadPacket(enc.NewBufferReader(raw))
		if err != nil {
			panic(err)
		}
		pkt := &defn.Pkt{Name: p.Interest.NameV, L3: p, Raw: raw, IncomingFaceID: utils.IdPtr(uint64(in.F)), PitToken: []byte{byte(in.Dtok)}}
		if in.Nh >= 0 {
			pkt.NextHopFaceID = utils.IdPtr(uint64(in.Nh))
		}
		known := in.Nonce >= 0 && th.VerifDNL().Find(p.Interest.NameV, uint32(in.Nonce))
		th.VerifIncomingInterest(pkt)
		after := x.pcs.VerifShape()
		x.regNew(after)
		wantHint := []string{"$nohint"}
		// the hint the entry is keyed by: first hint, unless some hint is in the producer region
		if len(in.Hints) > 0 {
			reaching := false
			for _, h := range in.Hints {
				if table.NetworkRegion.IsProducer(nm(joinName(h))) {
					reaching = true
				}
			}
			if !reaching {
				wantHint = in.Hints[0]
			}
		}
		ex := -1
		inrec := false
		for _, en := range after.Entries {
			if en.Name.Equal(nm(name)) && en.CanBePrefix == in.Cbp && en.MustBeFresh == in.Mbf &&
				fmt.Sprint(hintOf(en.Hint)) == fmt.Sprint(wantHint) {
				if en.Scheduled {
					ex = x.ticksOf(en.SchedAt)
				}
				for _, g := range en.InFaces {
					if g == uint64(in.F) {
						inrec = true
					}
				}
			}
		}
		Sset := map[int]bool{}
		for _, o := range x.is {
			Sset[o.Face] = true
		}
		csn := []string{"$none"}
		csw := 0
		if len(x.ds) > 0 {
			csn = x.ds[0].Name
			csw = x.ds[0].Wire
		}
		hintsJ := in.Hints
		if hintsJ == nil {
			hintsJ = [][]string{}
		}
		ev["i"] = map[string]any{"f": in.F, "n": in.N, "cbp": in.Cbp, "mbf": in.Mbf, "nonce": in.Nonce, "life": in.Life,
			"hop": in.Hop, "hints": hintsJ, "nh": in.Nh, "dtok": in.Dtok, "dnl": known}
		ev["o"] = map[string]any{"S": sortedInts(Sset), "csn": csn, "csw": csw, "ex": ex, "inrec": inrec}
		ev["oi"] = append([]outI{}, x.is...)
		ev["od"] = append([]outD{}, x.ds...)
	case "D":
		in := a.I
		name := joinName(in.N)
		dcfg := &ndn.DataConfig{}
		if in.Fresh >= 0 {
			dcfg.Freshness = utils.IdPtr(time.Duration(in.Fresh) * tick)
		}
		x.wireSeq++
		dw, err := spec.Spec{}.MakeData(nm(name), dcfg, enc.Wire{[]byte(fmt.Sprint("payload", x.wireSeq))}, sec.NewSha256Signer())
		if err != nil {
			panic(err)
		}
		raw := dw.Wire.Join()
		x.wires[x.wireSeq] = append([]byte(nil), raw...)
		p, _, err := spec.ReadPacket(enc.NewBufferReader(raw))
		if err != nil {
			panic(err)
		}
		pkt := &defn.Pkt{Name: p.Data.NameV, L3: p, Raw: raw, IncomingFaceID: utils.IdPtr(uint64(in.F))}
		tk := in.Tk
		switch {
		case tk > 0:
			if tb, ok := x.byTok[tk]; ok {
				pkt.PitToken = tb
			} else { // well-formed token this forwarder never issued
				tk = -2
				pkt.PitToken = []byte{0, 0, 9, 9, 9, 9}
			}
		case tk == -2:
			pkt.PitToken = []byte{0, 0, 9, 9, 9, 9}
		case tk == -3: // token not in this forwarder's format: matched by name
			pkt.PitToken = []byte{9}
			tk = -1
		}
		th.VerifIncomingData(pkt)
		// the buffer belongs to the caller again: its payload is overwritten (what the tables keep must be their own copy;
		// the name region is left alone - the packet's parsed name, which the thread may keep, points into it)
		if k := bytes.Index(raw, []byte("payload")); k >= 0 {
			copy(raw[k:], "PAYLOAD")
		}
		after := x.pcs.VerifShape()
		csNames := [][]string{}
		for _, n := range after.CsNames {
			csNames = append(csNames, nameStrs(n))
		}
		D := []map[string]any{}
		for _, o := range x.ds {
			D = append(D, map[string]any{"face": o.Face, "tok": o.Tok, "wire": o.Wire, "same": o.Same})
		}
		ev["i"] = map[string]any{"f": in.F, "n": in.N, "fresh": in.Fresh, "tk": tk, "wire": x.wireSeq}
		ev["o"] = map[string]any{"D": D, "csNames": csNames}
		ev["oi"] = len(x.is)
	case "T":
		time.Sleep(tick)
	case "Q":
	case "U":
		x.pcs.Update()
		after := x.pcs.VerifShape()
		bk, ak := keysOf(before), keysOf(after)
		R := []keyJ{}
		ks := []string{}
		for s := range bk {
			if _, ok := ak[s]; !ok {
				ks = append(ks, s)
			}
		}
		sort.Strings(ks)
		for _, s := range ks {
			R = append(R, bk[s])
		}
		ev["R"] = R
	case "X":
		n0 := th.VerifDNL().VerifLen()
		th.VerifDNL().RemoveExpiredEntries()
		gone := map[dnlKey]bool{}
		nowScan := x.scan()
		for k := range dnlBefore {
			if !nowScan[k] {
				gone[k] = true
			}
		}
		ev["X"] = dnlList(gone)
		ev["cnt"] = n0 - th.VerifDNL().VerifLen()
	case "E":
		ev["e"] = a.E
		switch a.E {
		case "fib+":
			table.FibStrategyTable.InsertNextHopEnc(nm(joinName(a.P)), uint64(a.G), uint64(a.C))
			ev["p"], ev["g"], ev["c"] = a.P, a.G, a.C
		case "fib-":
			table.FibStrategyTable.RemoveNextHopEnc(nm(joinName(a.P)), uint64(a.G))
			ev["p"], ev["g"] = a.P, a.G
		case "strat+":
			table.FibStrategyTable.SetStrategyEnc(nm(joinName(a.P)), nm("/localhost/nfd/strategy/"+a.S+"/v=1"))
			ev["p"], ev["s"] = a.P, a.S
		case "strat-":
			if len(a.P) > 0 { // the root strategy is never unset here (C05 owns that)
				table.FibStrategyTable.UnSetStrategyEnc(nm(joinName(a.P)))
			}
			ev["p"] = a.P
		case "cap":
			table.SetCsCapacity(a.C)
			ev["c"] = a.C
		case "face-":
			dispatch.RemoveFace(uint64(a.G))
			ev["g"] = a.G
		case "face+":
			dispatch.AddFace(uint64(a.G), x.faces[a.G])
			ev["g"] = a.G
		default:
			panic("unknown env action " + a.E)
		}
	default:
		panic("unknown action " + a.Ev)
	}
	ins := map[dnlKey]bool{}
	for k := range x.scan() {
		if !dnlBefore[k] {
			ins[k] = true
		}
	}
	ev["dins"] = dnlList(ins)
	// side-effect-free cache probes at the table's own interface (CanBePrefix lookups do not touch the replacement order)
	probes := []map[string]any{}
	for _, pn := range fwdProbeNames {
		for _, mbf := range []bool{false, true} {
			r := []string{"$none"}
			if e := x.pcs.FindMatchingDataFromCS(&spec.Interest{NameV: nm(pn), CanBePrefixV: true, MustBeFreshV: mbf}); e != nil {
				if d, _, err := e.Copy(); err == nil && d != nil {
					r = nameStrs(d.NameV)
				} else {
					r = []string{"$garbled"}
				}
			}
			probes = append(probes, map[string]any{"n": strs(pn), "mbf": mbf, "r": r})
		}
	}
	ev["probes"] = probes
	sh := x.pcs.VerifShape()
	ev["obs"] = map[string]int{"npit": sh.NPit, "ncs": sh.NCs, "ents": len(sh.Entries), "csn": len(sh.CsNames),
		"nodes": sh.Nodes, "dead": sh.DeadLeaves, "lru": sh.LruLen, "tokmap": sh.TokenMap, "queue": sh.QueueLen,
		"unsched": countUnsched(sh), "dnl": th.VerifDNL().VerifLen(), "live": liveNodes(sh),
		"rpit": th.GetNumPitEntries(), "rcs": th.GetNumCsEntries(), "tpit": x.pcs.PitSize(), "tcs": x.pcs.CsSize()} // sizes as reported to management / applications
	return ev
}

func countUnsched(sh table.VerifPitCsShape) int {
	n := 0
	for _, e := range sh.Entries {
		if !e.Scheduled {
			n++
		}
	}
	return n
}

// liveNodes = number of distinct non-root prefixes of names of PIT entries and cached Data
func liveNodes(sh table.VerifPitCsShape) int {
	set := map[string]bool{}
	add := func(n enc.Name) {
		for i := 1; i <= len(n); i++ {
			set[n[:i].String()] = true
		}
	}
	for _, e := range sh.Entries {
		add(e.Name)
	}
	for _, n := range sh.CsNames {
		add(n)
	}
	return len(set)
}

// runFwdExecution runs one execution inside its own bubble.
// next is asked for the next action until it returns false.
func runFwdExecution(t *testing.T, w *traceWriter, capacity int, algo string, next func(x *fwdExec, i int) (fwdAct, bool)) int {
	n := 0
	synctest.Test(t, func(t *testing.T) {
		cfg := core.DefaultConfig()
		cfg.Core.LogLevel = "FATAL"
		cfg.Tables.ContentStore.Capacity = uint16(capacity)
		cfg.Tables.DeadNonceList.Lifetime = 1000 // 2 ticks
		core.LoadConfig(cfg, "")
		core.InitializeLogger("")
		core.ShouldQuit = false
		table.Configure()
		fw.Configure()
		table.CreateFIBTable(algo)
		table.NetworkRegion.Add(nm("/r"))
		x := &fwdExec{realTok: map[uint32]int{}, byTok: map[int][]byte{}, wires: map[int][]byte{}, faces: map[int]*capFace{}, scanNm: fwdScanNames}
		for _, id := range fwdFaces {
			f := &capFace{id: uint64(id), scope: faceScope(id), link: faceLink(id), x: x}
			x.faces[id] = f
			dispatch.AddFace(uint64(id), f)
		}
		th := fw.NewThread(0)
		fw.Threads = []*fw.Thread{th}
		x.th = th
		x.pcs = th.VerifPitCS().(*table.PitCsTree)
		done := make(chan struct{})
		go func() {
			for {
				select {
				case <-x.pcs.UpdateTimer():
				case <-done:
					return
				}
			}
		}()
		x.t0 = time.Now()
		w.Emit(map[string]any{"ev": "Reset", "cap": capacity, "algo": algo,
			"supp": int(fw.BestRouteSuppressionTime / tick), "suppm": int(fw.MulticastSuppressionTime / tick)})
		for i := 0; ; i++ {
			a, ok := next(x, i)
			if !ok {
				break
			}
			w.Emit(x.step(a))
			n++
			if x.dead {
				break
			}
		}
		// quiescent tail (C08): every lifetime (<= 3 ticks) elapses, the reaper runs, dead nonces
		// (lifetime 2 ticks, <= 100 removed per call) expire; then Q observes the drained state
		for _, k := range []string{"T", "T", "T", "T", "U", "T", "T", "T", "X", "Q"} {
			if x.dead {
				break
			}
			w.Emit(x.step(fwdAct{Ev: k}))
			n++
		}
		core.ShouldQuit = true
		time.Sleep(300 * time.Millisecond)
		close(done)
		th.VerifDNL().Ticker.Stop()
		for _, id := range fwdFaces {
			dispatch.RemoveFace(uint64(id))
		}
	})
	return n
}

// ---- seeded generator ----------------------------------------------------------------
// fwdCollide is ONE component whose bytes are those of "a", the 8-byte type number 8 and "b": a name hash that
// concatenates (type, value) pairs without lengths cannot tell it from /a/b
const fwdCollide = "/a%00%00%00%00%00%00%00%08b"

// fwdTyped differs from /a/b only in the TYPE of its second component (a name hash that forgets the type merges them)
const fwdTyped = "/a/32=b"

// names asked of the cache directly after every step: names of the universe, names below cached ones that no Interest ever created a
// tree node for, siblings
var fwdProbeNames = []string{"/", "/a", "/a/b", "/a/b/x", "/a/b/c/e/z", "/a/q", "/d/f/g", "/localhost/x/y/z"}

var fwdINames = []string{"/a", "/a/b", "/a/b/c", "/d", "/localhost/x", "/", fwdCollide, fwdTyped}
var fwdDNames = []string{"/", "/a", "/a/b", "/a/b/c", "/a/b/c/e", "/d", "/d/f", "/localhost/x", "/localhost/x/y", fwdCollide, "/a/b", fwdTyped}

func genFwdAct(rng *rand.Rand, x *fwdExec, i, nEv int) fwdAct {
	if x.follow != nil { // the same Interest again, other nonce, inside the suppression interval, after the FIB changed under it
		in := *x.follow
		x.follow = nil
		in.Nonce = 7 + (in.Nonce-7+1+rng.Intn(2))%3
		if rng.Intn(2) == 0 {
			in.F = fwdFaces[rng.Intn(len(fwdFaces))]
		}
		in.Dtok = in.F*10 + rng.Intn(2)
		x.seenI = append(x.seenI, in)
		return fwdAct{Ev: "I", I: in}
	}
	switch k := rng.Intn(100); {
	case k < 40:
		in := fwdIn{F: fwdFaces[rng.Intn(len(fwdFaces))], N: strs(fwdINames[rng.Intn(len(fwdINames))]),
			Cbp: rng.Intn(3) == 0, Mbf: rng.Intn(4) == 0, Nonce: 7 + rng.Intn(3), Life: 1 + rng.Intn(3),
			Hop: []int{-1, -1, -1, 0, 1, 2}[rng.Intn(6)], Nh: -1}
		if rng.Intn(15) == 0 {
			in.Nonce = -1
		}
		switch rng.Intn(8) {
		case 0:
			in.Hints = [][]string{{"h"}}
		case 1:
			in.Hints = [][]string{{"h"}, {"r", "x"}}
		}
		if rng.Intn(12) == 0 {
			in.Nh = 1 + rng.Intn(6) // 6 = nonexistent
		}
		// correlated step: the key of an earlier Interest of this execution from (usually) another face with a fresh draw
		// of the nonce -- aggregation, suppression, loops and cache hits on entries that already hold in-records
		if len(x.seenI) > 0 && rng.Intn(3) == 0 {
			p := x.seenI[rng.Intn(len(x.seenI))]
			in.N, in.Cbp, in.Mbf, in.Hints = p.N, p.Cbp, p.Mbf, p.Hints
		}
		if rng.Intn(14) == 0 { // a /localhost name behind a forwarding hint: the FIB lookup goes by the hint, the scope rule by the name
			in.N, in.Hints = strs("/localhost/x"), [][]string{{"h"}}
		}
		in.Dtok = in.F*10 + rng.Intn(2)
		x.seenI = append(x.seenI, in)
		return fwdAct{Ev: "I", I: in}
	case k < 70:
		in := fwdIn{F: fwdFaces[rng.Intn(len(fwdFaces))], N: strs(fwdDNames[rng.Intn(len(fwdDNames))]),
			Fresh: []int{-1, 0, 1, 3}[rng.Intn(4)], Tk: -1}
		if len(x.seenI) > 0 && rng.Intn(3) == 0 { // Data for (an extension of) a name that was asked for
			p := x.seenI[rng.Intn(len(x.seenI))]
			in.N = append([]string{}, p.N...)
			if rng.Intn(3) == 0 { // an extension, within the closed name universe the dead-nonce scan covers
				ext := append(append([]string{}, in.N...), []string{"b", "c", "e", "f", "y"}[rng.Intn(5)])
				for _, u := range fwdScanNames {
					if u == joinName(ext) {
						in.N = ext
					}
				}
			}
		}
		switch r := rng.Intn(6); {
		case r == 0 && len(x.byTok) > 0:
			in.Tk = 1 + rng.Intn(len(x.byTok))
		case r == 1:
			in.Tk = -2
		case r == 2:
			in.Tk = -3
		}
		return fwdAct{Ev: "D", I: in}
	case k < 80:
		return fwdAct{Ev: "T"}
	case k < 87:
		return fwdAct{Ev: "U"}
	case k < 90:
		return fwdAct{Ev: "X"}
	case k < 95:
		pfx := []string{"/", "/a", "/a/b", "/d", "/h", "/localhost"}[rng.Intn(6)]
		g := fwdFaces[rng.Intn(len(fwdFaces))]
		if len(x.seenI) > 0 && rng.Intn(2) == 0 { // a next hop appears (or goes) on the route of the Interest just seen, which then comes again
			p := x.seenI[len(x.seenI)-1]
			if p.Nonce >= 7 && len(p.N) > 0 && p.N[0] != "localhost" {
				x.follow = &p
				n := p.N
				if len(p.Hints) > 0 {
					n = p.Hints[0]
				}
				if len(n) > 1 && rng.Intn(2) == 0 {
					n = n[:1]
				}
				if rng.Intn(5) == 0 {
					return fwdAct{Ev: "E", E: "fib-", P: n, G: g}
				}
				return fwdAct{Ev: "E", E: "fib+", P: n, G: g, C: 1 + rng.Intn(3)}
			}
		}
		if rng.Intn(4) == 0 {
			return fwdAct{Ev: "E", E: "fib-", P: strs(pfx), G: g}
		}
		return fwdAct{Ev: "E", E: "fib+", P: strs(pfx), G: g, C: 1 + rng.Intn(3)}
	case k < 97:
		pfx := []string{"/", "/a", "/a/b", "/d"}[rng.Intn(4)]
		if rng.Intn(4) == 0 && pfx != "/" {
			return fwdAct{Ev: "E", E: "strat-", P: strs(pfx)}
		}
		return fwdAct{Ev: "E", E: "strat+", P: strs(pfx), S: []string{"best-route", "multicast"}[rng.Intn(2)]}
	case k < 99:
		return fwdAct{Ev: "E", E: "cap", C: rng.Intn(4)}
	default:
		g := fwdFaces[rng.Intn(len(fwdFaces))]
		if dispatch.GetFace(uint64(g)) == nil {
			return fwdAct{Ev: "E", E: "face+", G: g}
		}
		return fwdAct{Ev: "E", E: "face-", G: g}
	}
}

// TestFwdGen: seeded random executions (VERIF_N executions of VERIF_LEN events).
func TestFwdGen(t *testing.T) {
	defer watchDriver("TestFwdGen")()
	w := newTrace("fwd_gen.ndjson")
	defer w.Close()
	nTraces, nEv := envInt("VERIF_N", 200), envInt("VERIF_LEN", 60)
	total := 0
	for tr := 0; tr < nTraces; tr++ {
		rng := rand.New(rand.NewSource(verifSeed()*100003 + int64(tr)))
		algo := "nametree"
		if tr%2 == 1 {
			algo = "hashtable"
		}
		total += runFwdExecution(t, w, []int{0, 1, 2, 2, 6}[rng.Intn(5)], algo, func(x *fwdExec, i int) (fwdAct, bool) {
			if i >= nEv {
				return fwdAct{}, false
			}
			if tr%3 == 2 && i == 0 { // a third of the executions forward by multicast from the root down (best-route is the default)
				return fwdAct{Ev: "E", E: "strat+", P: []string{}, S: "multicast"}, true
			}
			if tr%3 == 2 && i < 3 { // ... with two next hops at the root to begin with
				return fwdAct{Ev: "E", E: "fib+", P: []string{}, G: fwdFaces[rng.Intn(len(fwdFaces))], C: 1 + rng.Intn(3)}, true
			}
			if tr%3 == 1 && i < 2 { // routes for the forwarding hints of the universe, towards non-local and local faces
				return fwdAct{Ev: "E", E: "fib+", P: strs([]string{"/h", "/r/x"}[i]), G: []int{3, 4, 1, 5}[rng.Intn(4)], C: 1 + rng.Intn(3)}, true
			}
			return genFwdAct(rng, x, i, nEv), true
		})
	}
	writeMeta("fwd_gen.meta.json", map[string]any{"executions": nTraces, "events": total})
}

// loadSched reads one schedule file (rows in the trace-row format; only inputs are used).
func loadSched(path string) []fwdAct {
	var s []fwdAct
	readNdjson(path, func(line []byte) {
		var a fwdAct
		a.I.Nh = -1
		a.I.Tk = -1
		a.I.Fresh = -1
		if err := json.Unmarshal(line, &a); err != nil {
			panic(fmt.Sprint(err, " in ", string(line)))
		}
		s = append(s, a)
	})
	return s
}

// TestFwdSched: replays TLC-generated schedules ($VERIF_SCHED/*.ndjson) and stored
// violation segments ($VERIF_REPLAY) on the real thread.
func TestFwdSched(t *testing.T) {
	defer watchDriver("TestFwdSched")()
	var files []string
	if r := os.Getenv("VERIF_REPLAY"); r != "" {
		files = []string{r}
	} else {
		files, _ = filepath.Glob(filepath.Join(envStr("VERIF_SCHED", "/nonexistent"), "*.ndjson"))
		sort.Strings(files)
	}
	w := newTrace("fwd_sched.ndjson")
	defer w.Close()
	total := 0
	for k, fn := range files {
		sched := loadSched(fn)
		capacity, algo := 1, []string{"nametree", "hashtable"}[k%2]
		if len(sched) > 0 && sched[0].Ev == "Reset" {
			capacity = sched[0].Cap
			if sched[0].Algo != "" {
				algo = sched[0].Algo
			}
			sched = sched[1:]
		}
		total += runFwdExecution(t, w, capacity, algo, func(x *fwdExec, i int) (fwdAct, bool) {
			if i >= len(sched) {
				return fwdAct{}, false
			}
			return sched[i], true
		})
	}
	writeMeta("fwd_sched.meta.json", map[string]any{"executions": len(files), "events": total})
}

func fnvHex(b []byte) string {
	h := fnv.New64a()
	h.Write(b)
	return fmt.Sprintf("%016x", h.Sum64())
}
