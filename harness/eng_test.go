package h

// Application-engine conformance driver (spec/engine/AppEngine.tla).
// Real basic.Engine on a dummy face; mode "dummy": the repository's dummy timer (single-threaded, exact);
// mode "real": the real basic.Timer inside a synctest bubble (timer goroutines race the receive path).
// One NDJSON row per specification action; `fired` lists the Express callbacks invoked by that action.

import (
	"crypto/sha256"
	"encoding/json"
	"fmt"
	"math/rand"
	"os"
	"path/filepath"
	"sort"
	"sync"
	"testing"
	"testing/synctest"
	"time"

	enc "github.com/named-data/ndnd/std/encoding"
	basic_engine "github.com/named-data/ndnd/std/engine/basic"
	"github.com/named-data/ndnd/std/engine/dummy"
	"github.com/named-data/ndnd/std/ndn"
	spec "github.com/named-data/ndnd/std/ndn/spec_2022"
	sec "github.com/named-data/ndnd/std/security"
	"github.com/named-data/ndnd/std/utils"
)

const etick = 100 * time.Millisecond

type engFired struct {
	Id  int    `json:"id"`
	Res string `json:"res"`
}

type engAct struct {
	Ev   string   `json:"ev"`
	Id   int      `json:"id"`
	N    []string `json:"n"`
	Cbp  bool     `json:"cbp"`
	Dig  int      `json:"dig"`
	Life int      `json:"life"`
	W    int      `json:"w"`
	Dt   int      `json:"dt"`
	P    []string `json:"p"`
	H    int      `json:"h"`
	Rid  int      `json:"rid"`
	Mode string   `json:"mode"`
	Re   bool     `json:"re"` // express: the callback expresses the same Interest again, synchronously, when it is told Data or Nack
}

// the last names differ only in the (non-minimal) encoding of a segment number: Component.String() prints both as seg=1
var engNames = []string{"/a", "/a/b", "/a/b/c", "/d", "/d/50=%01", "/d/32=q"}
var engDNames = []string{"/a", "/a/b", "/a/b/c", "/a/b/c/x", "/d", "/d/y", "/e", "/d/50=%01", "/d/50=%00%01", "/d/32=q", "/d/32%3Dq"} // (last: ONE generic component whose bytes read "32=q")

// data wires and their digest ids: id = 2*index(dname) + k, k in {1,2}
type engData struct {
	wire   []byte
	digest []byte
}

func engDataTable() map[int]engData {
	m := map[int]engData{}
	for i, dn := range engDNames {
		for k := 1; k <= 2; k++ {
			d, err := spec.Spec{}.MakeData(nm(dn), &ndn.DataConfig{}, enc.Wire{[]byte(fmt.Sprint("w", k))}, sec.NewSha256Signer())
			if err != nil {
				panic(err)
			}
			w := d.Wire.Join()
			s := sha256.Sum256(w)
			m[2*i+k] = engData{w, s[:]}
		}
	}
	return m
}

type engExec struct {
	eng    *basic_engine.Engine
	face   *dummy.DummyFace
	dtimer *dummy.Timer
	real   bool
	mu     sync.Mutex
	cur    []engFired
	hit    int
	nextId int
	rid    int
	reply  map[int]func(enc.Wire) error
	data   map[int]engData
	hset   map[string]bool
	reexp  []map[string]any // Interests expressed from inside callbacks during the current step (logged right after it)
}

func (x *engExec) advance(d time.Duration) {
	if x.real {
		time.Sleep(d)
		synctest.Wait()
	} else {
		x.dtimer.MoveForward(d)
	}
}

func (x *engExec) step(a engAct) (row map[string]any) {
	defer func() {
		if r := recover(); r != nil {
			row = map[string]any{"ev": "P", "panic": fmt.Sprint(r), "act": a.Ev}
		}
	}()
	x.mu.Lock()
	x.cur = []engFired{}
	x.hit = -1
	x.mu.Unlock()
	ev := map[string]any{"ev": a.Ev}
	switch a.Ev {
	case "express":
		x.nextId++
		id := x.nextId
		name := nm(joinName(a.N))
		if a.Dig >= 0 {
			name = append(name, enc.Component{Typ: enc.TypeImplicitSha256DigestComponent, Val: x.data[a.Dig].digest})
		}
		i, err := spec.Spec{}.MakeInterest(name, &ndn.InterestConfig{CanBePrefix: a.Cbp, Lifetime: utils.IdPtr(time.Duration(a.Life) * etick), Nonce: utils.IdPtr(uint64(id))}, nil, nil)
		if err != nil {
			panic(err)
		}
		err = x.eng.Express(i, func(r ndn.ExpressCallbackArgs) {
			res := map[ndn.InterestResult]string{ndn.InterestResultData: "data", ndn.InterestResultNack: "nack", ndn.InterestResultTimeout: "timeout"}[r.Result]
			x.mu.Lock()
			x.cur = append(x.cur, engFired{id, res})
			x.mu.Unlock()
			if a.Re && r.Result != ndn.InterestResultTimeout {
				// what applications do: ask again from inside the callback (next segment, retry after a Nack)
				x.mu.Lock()
				x.nextId++
				id2 := x.nextId
				x.mu.Unlock()
				i2, err := spec.Spec{}.MakeInterest(nm(joinName(a.N)), &ndn.InterestConfig{CanBePrefix: a.Cbp, Lifetime: utils.IdPtr(time.Duration(a.Life) * etick), Nonce: utils.IdPtr(uint64(id2))}, nil, nil)
				if err != nil {
					panic(err)
				}
				if err := x.eng.Express(i2, func(r2 ndn.ExpressCallbackArgs) {
					res2 := map[ndn.InterestResult]string{ndn.InterestResultData: "data", ndn.InterestResultNack: "nack", ndn.InterestResultTimeout: "timeout"}[r2.Result]
					x.mu.Lock()
					x.cur = append(x.cur, engFired{id2, res2})
					x.mu.Unlock()
				}); err != nil {
					panic(err)
				}
				x.mu.Lock()
				x.reexp = append(x.reexp, map[string]any{"ev": "express", "id": id2, "n": a.N, "cbp": a.Cbp, "dig": -1, "life": a.Life, "re": false, "from": id, "fired": []engFired{}})
				x.mu.Unlock()
			}
		})
		if err != nil {
			panic(err)
		}
		ev["id"], ev["n"], ev["cbp"], ev["dig"], ev["life"], ev["re"] = id, a.N, a.Cbp, a.Dig, a.Life, a.Re
	case "data":
		// a.W is the digest id of one wire of the table; its name is the Data name
		x.face.FeedPacket(x.data[a.W].wire)
		ev["n"], ev["w"] = strs(engDNames[(a.W-1)/2]), a.W
	case "nack":
		i, _ := spec.Spec{}.MakeInterest(nm(joinName(a.N)), &ndn.InterestConfig{Nonce: utils.IdPtr(uint64(1))}, nil, nil)
		lp := &spec.Packet{LpPacket: &spec.LpPacket{Nack: &spec.NetworkNack{Reason: spec.NackReasonNoRoute}, Fragment: i.Wire}}
		encd := spec.PacketEncoder{}
		encd.Init(lp)
		x.face.FeedPacket(encd.Encode(lp).Join())
		ev["n"] = a.N
	case "adv":
		x.advance(time.Duration(a.Dt) * etick)
		ev["dt"] = a.Dt
	case "attach":
		hh := a.H
		err := x.eng.AttachHandler(nm(joinName(a.P)), func(args ndn.InterestHandlerArgs) {
			x.mu.Lock()
			x.hit = hh
			x.rid++
			x.reply[x.rid] = args.Reply
			x.mu.Unlock()
		})
		if err != nil {
			return map[string]any{"ev": "noop"}
		}
		x.hset[joinName(a.P)] = true
		ev["p"], ev["h"] = a.P, a.H
	case "detach":
		if err := x.eng.DetachHandler(nm(joinName(a.P))); err != nil {
			return map[string]any{"ev": "noop"}
		}
		delete(x.hset, joinName(a.P))
		ev["p"] = a.P
	case "interest":
		i, _ := spec.Spec{}.MakeInterest(nm(joinName(a.N)), &ndn.InterestConfig{Nonce: utils.IdPtr(uint64(1)), Lifetime: utils.IdPtr(time.Duration(a.Life) * etick)}, nil, nil)
		before := x.rid
		x.face.FeedPacket(i.Wire.Join())
		ev["n"], ev["life"], ev["h"] = a.N, a.Life, x.hit
		ev["rid"] = -1
		if x.rid > before {
			ev["rid"] = x.rid
		}
	case "reply":
		f := x.reply[a.Rid]
		if f == nil {
			return map[string]any{"ev": "noop"}
		}
		for { // drain
			if _, err := x.face.Consume(); err != nil {
				break
			}
		}
		err := f(enc.Wire{x.data[1].wire})
		_, cerr := x.face.Consume()
		ev["rid"], ev["sent"] = a.Rid, err == nil && cerr == nil
	default:
		panic("unknown engine action " + a.Ev)
	}
	x.mu.Lock()
	f := append([]engFired{}, x.cur...)
	x.mu.Unlock()
	sort.Slice(f, func(i, j int) bool { return f[i].Id < f[j].Id })
	ev["fired"] = f
	for { // drain sent packets
		if _, err := x.face.Consume(); err != nil {
			break
		}
	}
	return ev
}

func runEngExecution(t *testing.T, w *traceWriter, mode string, next func(x *engExec, i int) (engAct, bool)) int {
	n := 0
	body := func() {
		x := &engExec{reply: map[int]func(enc.Wire) error{}, data: engDataTable(), real: mode == "real", hset: map[string]bool{}}
		x.face = dummy.NewDummyFace()
		var timer ndn.Timer
		if x.real {
			timer = basic_engine.NewTimer()
		} else {
			x.dtimer = dummy.NewTimer()
			timer = x.dtimer
		}
		x.eng = basic_engine.NewEngine(x.face, timer, sec.NewSha256IntSigner(timer), func(enc.Name, enc.Wire, ndn.Signature) bool { return true })
		x.eng.Start()
		w.Emit(map[string]any{"ev": "Reset", "mode": mode})
		for i := 0; ; i++ {
			a, ok := next(x, i)
			if !ok {
				break
			}
			row := x.step(a)
			if row["ev"] == "noop" {
				continue
			}
			w.Emit(row)
			n++
			x.mu.Lock()
			re := x.reexp
			x.reexp = nil
			x.mu.Unlock()
			for _, r := range re { // (instantaneous steps only: the new Interest starts at the time of that step)
				w.Emit(r)
				n++
			}
			if row["ev"] == "P" {
				return
			}
		}
		// quiescent tail: every lifetime (<= 4 ticks) is strictly past afterwards
		w.Emit(x.step(engAct{Ev: "adv", Dt: 6}))
		n++
		x.eng.Stop()
	}
	if mode == "real" {
		synctest.Test(t, func(t *testing.T) { body() })
	} else {
		body()
	}
	return n
}

func genEngAct(rng *rand.Rand, x *engExec) engAct {
	switch k := rng.Intn(100); {
	case k < 33:
		n := engNames[rng.Intn(len(engNames))]
		a := engAct{Ev: "express", N: strs(n), Cbp: rng.Intn(3) == 0, Dig: -1, Life: 1 + rng.Intn(4), Re: rng.Intn(5) == 0}
		if rng.Intn(6) == 0 { // ask for the digest of one particular wire under that name
			var cands []int
			for i, dn := range engDNames {
				if dn == n || (a.Cbp && len(dn) > len(n) && dn[:len(n)+1] == n+"/") {
					cands = append(cands, 2*i+1, 2*i+2)
				}
			}
			if len(cands) > 0 {
				a.Dig = cands[rng.Intn(len(cands))]
			}
		}
		return a
	case k < 58:
		return engAct{Ev: "data", W: 1 + rng.Intn(2*len(engDNames))}
	case k < 65:
		return engAct{Ev: "nack", N: strs(engNames[rng.Intn(len(engNames))])}
	case k < 80:
		return engAct{Ev: "adv", Dt: 1 + rng.Intn(3)}
	case k < 86:
		return engAct{Ev: "attach", P: strs([]string{"/a", "/a/b", "/d", "/", "/a/b/c"}[rng.Intn(5)]), H: 1 + rng.Intn(1000)}
	case k < 90:
		return engAct{Ev: "detach", P: strs([]string{"/a", "/a/b", "/d", "/", "/a/b/c"}[rng.Intn(5)])}
	case k < 96:
		return engAct{Ev: "interest", N: strs(engDNames[rng.Intn(len(engDNames))]), Life: 1 + rng.Intn(3)}
	default:
		if x.rid == 0 {
			return engAct{Ev: "adv", Dt: 1}
		}
		return engAct{Ev: "reply", Rid: 1 + rng.Intn(x.rid)}
	}
}

func TestEngGen(t *testing.T) {
	defer watchDriver("TestEngGen")()
	w := newTrace("eng_gen.ndjson")
	defer w.Close()
	n, ln := envInt("VERIF_N", 300), envInt("VERIF_LEN", 40)
	total := 0
	for tr := 0; tr < n; tr++ {
		rng := rand.New(rand.NewSource(verifSeed()*104729 + int64(tr)))
		mode := "dummy"
		if tr%3 == 2 {
			mode = "real"
		}
		total += runEngExecution(t, w, mode, func(x *engExec, i int) (engAct, bool) {
			if i >= ln {
				return engAct{}, false
			}
			return genEngAct(rng, x), true
		})
	}
	writeMeta("eng_gen.meta.json", map[string]any{"executions": n, "events": total})
}

func TestEngSched(t *testing.T) {
	defer watchDriver("TestEngSched")()
	var files []string
	if r := os.Getenv("VERIF_REPLAY"); r != "" {
		files = []string{r}
	} else {
		files, _ = filepath.Glob(filepath.Join(envStr("VERIF_SCHED", "/nonexistent"), "*.ndjson"))
		sort.Strings(files)
	}
	w := newTrace("eng_sched.ndjson")
	defer w.Close()
	total := 0
	for k, fn := range files {
		var sched []engAct
		readNdjson(fn, func(line []byte) {
			a := engAct{Dig: -1}
			if err := json.Unmarshal(line, &a); err != nil {
				panic(err)
			}
			sched = append(sched, a)
		})
		mode := []string{"dummy", "real"}[k%2]
		if len(sched) > 0 && sched[0].Ev == "Reset" {
			if sched[0].Mode != "" {
				mode = sched[0].Mode
			}
			sched = sched[1:]
		}
		total += runEngExecution(t, w, mode, func(x *engExec, i int) (engAct, bool) {
			if i >= len(sched) {
				return engAct{}, false
			}
			return sched[i], true
		})
	}
	writeMeta("eng_sched.meta.json", map[string]any{"executions": len(files), "events": total})
}
