package h

// Transport stage of C11 (and of the "transports drop frames larger than the MTU" clause of C10): the REAL socket
// transports of the forwarder (accepted TCP, dialled TCP, Unix stream, unicast UDP) on loopback / a socket file, each
// under a real NDNLPLinkService with its receive and send goroutines.  Receive direction: the harness is the peer and
// writes a sequence of well-formed packets in chunkings of its choosing; what the link service hands to the
// forwarding thread is recorded.  Send direction: packets are queued on the link service, the peer reads the raw
// bytes and cuts them into TLV blocks with a walker of its own.  Judged by StreamTrace (I_C11xport): the blocks handed
// over are exactly the blocks sent, byte-identical, in order, none lost / duplicated / split / merged.
// Runs in real time (sockets do not live in a synctest bubble); every step is paced by its own acknowledgement, so
// nothing depends on timing, and a hang is caught by the driver watchdog.

import (
	"fmt"
	"io"
	"math/rand"
	"net"
	"os"
	"path/filepath"
	"sync"
	"testing"
	"time"

	"github.com/named-data/ndnd/fw/core"
	"github.com/named-data/ndnd/fw/defn"
	"github.com/named-data/ndnd/fw/dispatch"
	"github.com/named-data/ndnd/fw/face"
	"github.com/named-data/ndnd/fw/fw"
	enc "github.com/named-data/ndnd/std/encoding"
	spec "github.com/named-data/ndnd/std/ndn/spec_2022"
)

type syncThread struct {
	mu  sync.Mutex
	got []*defn.Pkt
}

func (r *syncThread) String() string { return "rec" }
func (r *syncThread) QueueData(p *defn.Pkt) {
	r.mu.Lock()
	r.got = append(r.got, p)
	r.mu.Unlock()
}
func (r *syncThread) QueueInterest(p *defn.Pkt) { r.QueueData(p) }
func (r *syncThread) GetNumPitEntries() int     { return 0 }
func (r *syncThread) GetNumCsEntries() int      { return 0 }
func (r *syncThread) count() int {
	r.mu.Lock()
	defer r.mu.Unlock()
	return len(r.got)
}
func (r *syncThread) waitFor(n int, d time.Duration) bool {
	dl := time.Now().Add(d)
	for r.count() < n {
		if time.Now().After(dl) {
			return false
		}
		time.Sleep(200 * time.Microsecond)
	}
	return true
}

type xport struct {
	kind string
	ls   *face.NDNLPLinkService
	peer net.Conn // stream peers; for UDP the peer's packet socket
	upc  net.PacketConn
	uto  net.Addr // where the UDP transport sends from (learned from its first datagram) / is reached
	done func()
}

func xportMake(kind string, dir string) (*xport, error) {
	x := &xport{kind: kind}
	opt := face.MakeNDNLPLinkServiceOptions()
	started := false
	switch kind {
	case "tcp-accept", "tcp-dial":
		ln, err := net.Listen("tcp4", "127.0.0.1:0")
		if err != nil {
			return nil, err
		}
		defer ln.Close()
		opt.IsFragmentationEnabled = false
		if kind == "tcp-accept" {
			pc, err := net.Dial("tcp4", ln.Addr().String())
			if err != nil {
				return nil, err
			}
			c, err := ln.Accept()
			if err != nil {
				return nil, err
			}
			t, err := face.AcceptUnicastTCPTransport(c, nil, face.PersistencyOnDemand)
			if err != nil {
				return nil, err
			}
			x.peer, x.ls = pc, face.MakeNDNLPLinkService(t, opt)
		} else {
			port := ln.Addr().(*net.TCPAddr).Port
			acc := make(chan net.Conn, 1)
			go func() {
				c, _ := ln.Accept()
				acc <- c
			}()
			t, err := face.MakeUnicastTCPTransport(defn.MakeTCPFaceURI(4, "127.0.0.1", uint16(port)), nil, face.PersistencyPersistent)
			if err != nil {
				return nil, err
			}
			x.ls = face.MakeNDNLPLinkService(t, opt)
			x.ls.Run(nil) // (this transport connects from its receive loop)
			started = true
			select {
			case c := <-acc:
				if c == nil {
					return nil, fmt.Errorf("accept failed")
				}
				x.peer = c
			case <-time.After(5 * time.Second):
				return nil, fmt.Errorf("the transport did not connect")
			}
		}
		if tc, ok := x.peer.(*net.TCPConn); ok {
			tc.SetNoDelay(true)
		}
	case "unix":
		sock := filepath.Join(dir, fmt.Sprintf("x%d.sock", time.Now().UnixNano()%1000000))
		ln, err := net.Listen("unix", sock)
		if err != nil {
			return nil, err
		}
		defer ln.Close()
		pc, err := net.Dial("unix", sock)
		if err != nil {
			return nil, err
		}
		c, err := ln.Accept()
		if err != nil {
			return nil, err
		}
		t, err := face.MakeUnixStreamTransport(defn.MakeFDFaceURI(9), defn.MakeUnixFaceURI(sock), c)
		if err != nil {
			return nil, err
		}
		opt.IsFragmentationEnabled = false
		x.peer, x.ls = pc, face.MakeNDNLPLinkService(t, opt)
	case "udp":
		pc, err := net.ListenPacket("udp4", "127.0.0.1:0")
		if err != nil {
			return nil, err
		}
		port := pc.LocalAddr().(*net.UDPAddr).Port
		t, err := face.MakeUnicastUDPTransport(defn.MakeUDPFaceURI(4, "127.0.0.1", uint16(port)), nil, face.PersistencyPersistent)
		if err != nil {
			return nil, err
		}
		x.upc, x.ls = pc, face.MakeNDNLPLinkService(t, opt)
	}
	if !started {
		x.ls.Run(nil)
	}
	x.done = func() {
		x.ls.Close()
		if x.peer != nil {
			x.peer.Close()
		}
		if x.upc != nil {
			x.upc.Close()
		}
	}
	return x, nil
}

// xpBlocks: packets of sizes across the range (bare Data, and Data wrapped in a link-layer frame with a PIT token)
func xpBlocks(rng *rand.Rand, n int, maxSize int) (frames [][]byte, raws [][]byte) {
	sizes := []int{40, 41, 60, 127, 128, 252, 253, 254, 255, 256, 300, 1000, 1400, 1500, 4000, 8000, 8191, 8192, 8600, 8700}
	for i := 0; i < n; i++ {
		sz := sizes[rng.Intn(len(sizes))]
		if rng.Intn(3) == 0 {
			sz = 40 + rng.Intn(8600)
		}
		sz = min(sz, maxSize)
		p := makePkt(sz, byte(i))
		fr := p.Raw
		if rng.Intn(3) == 0 { // as a link-layer frame
			lp := &spec.Packet{LpPacket: &spec.LpPacket{Fragment: enc.Wire{p.Raw}, PitToken: []byte{1, 2, 3, byte(i)}}}
			pe := spec.PacketEncoder{}
			pe.Init(lp)
			fr = pe.Encode(lp).Join()
		}
		frames, raws = append(frames, fr), append(raws, p.Raw)
	}
	return
}

func blockRows(bs [][]byte) []map[string]any {
	out := []map[string]any{}
	for _, b := range bs {
		out = append(out, map[string]any{"size": len(b), "hash": hsh(b)})
	}
	return out
}

func TestXportStream(t *testing.T) {
	defer watchDriver("TestXportStream")()
	w := newTrace("xport.ndjson")
	defer w.Close()
	cfg := core.DefaultConfig()
	cfg.Core.LogLevel = "FATAL"
	cfg.Faces.CongestionMarking = false
	core.LoadConfig(cfg, "")
	core.InitializeLogger("")
	core.ShouldQuit = false
	face.Configure()
	fw.Threads = make([]*fw.Thread, 1)
	rec := &syncThread{}
	dispatch.InitializeFWThreads([]dispatch.FWThread{rec})
	dir, _ := os.MkdirTemp("", "vx")
	defer os.RemoveAll(dir)
	n := envInt("VERIF_N", 16)
	total := 0
	for tr := 0; tr < n; tr++ {
		kind := []string{"tcp-accept", "unix", "tcp-dial", "udp"}[tr%4]
		rng := rand.New(rand.NewSource(verifSeed()*31 + int64(tr)))
		x, err := xportMake(kind, dir)
		if err != nil {
			t.Fatalf("cannot set up %s: %v", kind, err) // environment, not the code under test
		}
		// ---- receive direction -------------------------------------------------------------------------------
		nb := 30 + rng.Intn(60)
		frames, raws := xpBlocks(rng, nb, 8700)
		base := rec.count()
		w.Emit(map[string]any{"ev": "Reset", "blocks": blockRows(raws), "mode": "xport", "kind": kind, "dir": "rx"})
		stalled := -1
		if kind == "udp" {
			to, _ := net.ResolveUDPAddr("udp4", x.ls.LocalURI().String()[len("udp4://"):])
			if to == nil || to.Port == 0 { // the transport's own socket address
				if a, ok := xportLocalUDP(x); ok {
					to = a
				}
			}
			for i, fr := range frames { // one frame per datagram, paced by its delivery
				if i%7 == 3 { // a datagram that is no whole block (cut short, or garbage): it is dropped on its own, what follows is untouched
					junk := fr[:min(len(fr)-1, 10)]
					if i%2 == 0 {
						junk = []byte{0xFF, 0xFF, 0xFF}
					}
					x.upc.WriteTo(junk, to)
					time.Sleep(2 * time.Millisecond)
				}
				x.upc.WriteTo(fr, to)
				if !rec.waitFor(base+i+1, 10*time.Second) {
					stalled = i
					break
				}
			}
		} else {
			var stream []byte
			for _, fr := range frames {
				stream = append(stream, fr...)
			}
			mode := (tr / 4) % 5
			pos := 0
			for pos < len(stream) {
				c := 0
				switch mode {
				case 0:
					c = 1 + rng.Intn(20000)
				case 1:
					c = 1 + rng.Intn(7)
					if pos > 3000 {
						c = len(stream)
					}
				case 2:
					c = 8790 + rng.Intn(20)
				case 3:
					c = len(stream)
				default:
					c = 1 + rng.Intn(3000)
				}
				c = min(c, len(stream)-pos)
				if _, err := x.peer.Write(stream[pos : pos+c]); err != nil {
					break
				}
				pos += c
				if mode == 1 || mode == 4 {
					time.Sleep(50 * time.Microsecond) // lets the reader see the chunk boundary more often than not
				}
			}
			if !rec.waitFor(base+nb, 20*time.Second) {
				stalled = rec.count() - base
			}
		}
		time.Sleep(5 * time.Millisecond) // anything delivered in excess shows up
		rec.mu.Lock()
		var got [][]byte
		for _, p := range rec.got[base:] {
			got = append(got, p.Raw)
		}
		rec.mu.Unlock()
		w.Emit(map[string]any{"ev": "stream", "frames": blockRows(got), "stalled": stalled})
		total += 2
		// ---- send direction ----------------------------------------------------------------------------------
		ns := 20 + rng.Intn(30)
		_, sraws := xpBlocks(rng, ns, 8600)
		w.Emit(map[string]any{"ev": "Reset", "blocks": blockRows(sraws), "mode": "xport", "kind": kind, "dir": "tx"})
		var back [][]byte
		sstalled := -1
		buf := make([]byte, 70000)
		var acc []byte
		for i, raw := range sraws {
			p, _, _ := spec.ReadPacket(enc.NewBufferReader(raw))
			x.ls.SendPacket(dispatch.OutPkt{Pkt: &defn.Pkt{Name: p.Data.NameV, L3: p, Raw: raw}, PitToken: []byte{0, 0, 9, 9, 9, byte(i)}})
			// read until one more whole block has arrived (paced: the send queue never overflows)
			ok := false
			dl := time.Now().Add(10 * time.Second)
			for !ok && time.Now().Before(dl) {
				if kind == "udp" {
					x.upc.SetReadDeadline(time.Now().Add(200 * time.Millisecond))
					k, _, err := x.upc.ReadFrom(buf)
					if err == nil {
						acc = append([]byte(nil), buf[:k]...) // one datagram = one frame
						if blk, rest, full := cutBlock(acc); full && len(rest) == 0 {
							back, ok = append(back, lpFragment(blk)), true
						} else {
							back, ok = append(back, acc), true // not one whole block: recorded as it came
						}
					}
				} else {
					if blk, rest, full := cutBlock(acc); full {
						back, acc, ok = append(back, lpFragment(blk)), rest, true
						break
					}
					x.peer.SetReadDeadline(time.Now().Add(200 * time.Millisecond))
					k, err := x.peer.Read(buf)
					acc = append(acc, buf[:k]...)
					if err != nil && err != io.EOF && !os.IsTimeout(err) {
						break
					}
				}
			}
			if !ok {
				sstalled = i
				break
			}
		}
		if kind != "udp" && len(acc) > 0 {
			back = append(back, acc) // bytes that are no block
		}
		w.Emit(map[string]any{"ev": "stream", "frames": blockRows(back), "stalled": sstalled})
		total += 2
		// ---- an oversize frame is dropped by the transport, never truncated (UDP: MTU lowered to 1000, fragmentation off) ----
		x.done()
		time.Sleep(2 * time.Millisecond)
	}
	writeMeta("xport.meta.json", map[string]any{"executions": 2 * n, "events": total})
}

func xportLocalUDP(x *xport) (*net.UDPAddr, bool) {
	u := x.ls.LocalURI()
	if u == nil {
		return nil, false
	}
	a, err := net.ResolveUDPAddr("udp4", fmt.Sprintf("%s:%d", u.Path(), u.Port()))
	return a, err == nil
}

// cutBlock cuts one TLV block off the front of b (independent of the repository's readers)
func cutBlock(b []byte) (blk, rest []byte, full bool) {
	rd := func(p []byte) (uint64, int) {
		if len(p) == 0 {
			return 0, 0
		}
		switch {
		case p[0] < 253:
			return uint64(p[0]), 1
		case p[0] == 253 && len(p) >= 3:
			return uint64(p[1])<<8 | uint64(p[2]), 3
		case p[0] == 254 && len(p) >= 5:
			return uint64(p[1])<<24 | uint64(p[2])<<16 | uint64(p[3])<<8 | uint64(p[4]), 5
		}
		return 0, 0
	}
	_, a := rd(b)
	if a == 0 {
		return nil, b, false
	}
	l, c := rd(b[a:])
	if c == 0 || uint64(len(b)) < uint64(a+c)+l {
		return nil, b, false
	}
	e := a + c + int(l)
	return b[:e], b[e:], true
}

// lpFragment: the network packet carried by a link-layer frame (the frame itself when it is none)
func lpFragment(fr []byte) []byte {
	p, _, err := spec.ReadPacket(enc.NewBufferReader(fr))
	if err != nil || p.LpPacket == nil {
		return fr
	}
	return p.LpPacket.Fragment.Join()
}

// TestXportReconnect: a permanent TCP face whose connection is reset in the middle of a block and which then connects again.
// What was received of the broken block belongs to the dead connection: the blocks handed on are the whole blocks of the first
// connection followed by exactly the blocks of the second (T_C11xport).
func TestXportReconnect(t *testing.T) {
	defer watchDriver("TestXportReconnect")()
	w := newTrace("xport_re.ndjson")
	defer w.Close()
	cfg := core.DefaultConfig()
	cfg.Core.LogLevel = "FATAL"
	cfg.Faces.CongestionMarking = false
	core.LoadConfig(cfg, "")
	core.InitializeLogger("")
	core.ShouldQuit = false
	face.Configure()
	fw.Threads = make([]*fw.Thread, 1)
	rec := &syncThread{}
	dispatch.InitializeFWThreads([]dispatch.FWThread{rec})
	n := envInt("VERIF_N", 6)
	total := 0
	for tr := 0; tr < n; tr++ {
		rng := rand.New(rand.NewSource(verifSeed()*37 + int64(tr)))
		ln, err := net.Listen("tcp4", "127.0.0.1:0")
		if err != nil {
			t.Fatalf("listen: %v", err)
		}
		port := ln.Addr().(*net.TCPAddr).Port
		tp, err := face.MakeUnicastTCPTransport(defn.MakeTCPFaceURI(4, "127.0.0.1", uint16(port)), nil, face.PersistencyPermanent)
		if err != nil {
			t.Fatalf("transport: %v", err)
		}
		opt := face.MakeNDNLPLinkServiceOptions()
		opt.IsFragmentationEnabled = false
		ls := face.MakeNDNLPLinkService(tp, opt)
		ls.Run(nil)
		accept := func() net.Conn {
			ln.(*net.TCPListener).SetDeadline(time.Now().Add(15 * time.Second))
			c, err := ln.Accept()
			if err != nil {
				return nil
			}
			return c
		}
		c1 := accept()
		if c1 == nil {
			t.Fatalf("the transport did not connect")
		}
		frames1, raws1 := xpBlocks(rng, 2+rng.Intn(4), 8700)
		broken, _ := xpBlocks(rng, 1, 8700)
		frames2, raws2 := xpBlocks(rng, 5+rng.Intn(10), 8700)
		base := rec.count()
		w.Emit(map[string]any{"ev": "Reset", "blocks": blockRows(append(append([][]byte{}, raws1...), raws2...)), "mode": "xport", "kind": "tcp-reconnect", "dir": "rx"})
		for _, fr := range frames1 {
			c1.Write(fr)
		}
		cut := 1 + rng.Intn(len(broken[0])-1) // inside the block: in its type/length or in its value
		if tr%2 == 0 {
			cut = 1 + rng.Intn(3)
		}
		c1.Write(broken[0][:cut])
		stalled := -1
		if !rec.waitFor(base+len(frames1), 20*time.Second) {
			stalled = rec.count() - base
		}
		time.Sleep(20 * time.Millisecond) // the partial block has been read
		c1.(*net.TCPConn).SetLinger(0)
		c1.Close() // reset, not an orderly close: a permanent face connects again
		c2 := accept()
		if c2 == nil {
			stalled = rec.count() - base
		} else {
			for _, fr := range frames2 {
				c2.Write(fr)
			}
			if stalled < 0 && !rec.waitFor(base+len(frames1)+len(frames2), 20*time.Second) {
				stalled = rec.count() - base
			}
		}
		time.Sleep(5 * time.Millisecond)
		rec.mu.Lock()
		var got [][]byte
		for _, p := range rec.got[base:] {
			got = append(got, p.Raw)
		}
		rec.mu.Unlock()
		w.Emit(map[string]any{"ev": "stream", "frames": blockRows(got), "stalled": stalled})
		total += 2
		ls.Close()
		if c2 != nil {
			c2.Close()
		}
		ln.Close()
		time.Sleep(2 * time.Millisecond)
	}
	writeMeta("xport_re.meta.json", map[string]any{"executions": n, "events": total})
}
