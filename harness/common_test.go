package h

// Shared helpers of the conformance harness. Every driver writes NDJSON traces
// (one line per specification action) into $VERIF_OUT; TLC validates them.

import (
	"bufio"
	"encoding/json"
	"fmt"
	"os"
	"path/filepath"
	"sort"
	"strconv"
	"strings"
	"sync/atomic"
	"time"

	enc "github.com/named-data/ndnd/std/encoding"
)

func envInt(k string, def int) int {
	if s := os.Getenv(k); s != "" {
		if v, err := strconv.Atoi(s); err == nil {
			return v
		}
	}
	return def
}

func envStr(k, def string) string {
	if s := os.Getenv(k); s != "" {
		return s
	}
	return def
}

func verifSeed() int64 { return int64(envInt("VERIF_SEED", 1)) }

func outDir() string {
	d := envStr("VERIF_OUT", "/verif/out/manual")
	os.MkdirAll(d, 0o755)
	return d
}

type traceWriter struct {
	f *os.File
	w *bufio.Writer
	n int
}

func newTrace(name string) *traceWriter {
	f, err := os.Create(filepath.Join(outDir(), name))
	if err != nil {
		panic(err)
	}
	return &traceWriter{f: f, w: bufio.NewWriterSize(f, 1<<20)}
}

// theWatch, when a driver started one with watchDriver, is ticked by every emitted trace row: a driver whose code under
// test spins or blocks forever stops emitting, and the watchdog turns that into an observation (hang.json, exit 7).
var theWatch *hangWatch

func watchDriver(name string) func() {
	h := startHangWatch(name, time.Duration(envInt("VERIF_HANG_S", 120))*time.Second)
	theWatch = h
	return func() { theWatch = nil; close(h.stop) }
}

func (t *traceWriter) Emit(v any) {
	if theWatch != nil {
		theWatch.tick(nil)
	}
	b, err := json.Marshal(v)
	if err != nil {
		panic(err)
	}
	t.w.Write(b)
	t.w.WriteByte('\n')
	t.n++
}

func (t *traceWriter) Close() {
	t.w.Flush()
	t.f.Close()
}

func writeMeta(name string, v any) {
	b, _ := json.MarshalIndent(v, "", " ")
	os.WriteFile(filepath.Join(outDir(), name), b, 0o644)
}

func nm(s string) enc.Name {
	x, err := enc.NameFromStr(s)
	if err != nil {
		panic(err)
	}
	return x
}

// strs turns "/a/b" into ["a","b"] (the spec's representation of a name)
func strs(s string) []string {
	if s == "/" || s == "" {
		return []string{}
	}
	return strings.Split(s[1:], "/")
}

func joinName(c []string) string {
	if len(c) == 0 {
		return "/"
	}
	return "/" + strings.Join(c, "/")
}

func nameStrs(n enc.Name) []string {
	out := []string{}
	for _, c := range n {
		printable := true
		for _, b := range c.Val {
			if b < 0x21 || b > 0x7e || b == '%' {
				printable = false
			}
		}
		if printable && c.Typ == enc.TypeGenericNameComponent {
			out = append(out, string(c.Val))
		} else { // the canonical (injective) URI form; the drivers' name universes are written in it
			out = append(out, c.CanonicalString())
		}
	}
	return out
}

func sortedInts(m map[int]bool) []int {
	out := []int{}
	for k := range m {
		out = append(out, k)
	}
	sort.Ints(out)
	return out
}

func readNdjson(path string, each func(line []byte)) {
	f, err := os.Open(path)
	if err != nil {
		panic(err)
	}
	defer f.Close()
	sc := bufio.NewScanner(f)
	sc.Buffer(make([]byte, 1<<20), 1<<26)
	for sc.Scan() {
		if len(sc.Bytes()) > 0 {
			each(append([]byte(nil), sc.Bytes()...))
		}
	}
}

var _ = fmt.Sprint

func newBuf(f *os.File) *bufio.Writer { return bufio.NewWriterSize(f, 1<<16) }

// hangWatch is a real-time watchdog for drivers whose property promises completion: it runs outside any synctest
// bubble, and when the driver's progress counter has not moved for `limit` it records where the driver was
// (hang.json in $VERIF_OUT) and leaves with status 7. A spinning goroutine of the code under test inside a bubble
// never lets synctest.Wait return, so this is the only way such a livelock becomes an observation.
type hangWatch struct {
	n    atomic.Int64
	at   atomic.Value
	stop chan struct{}
}

func startHangWatch(driver string, limit time.Duration) *hangWatch {
	h := &hangWatch{stop: make(chan struct{})}
	os.Remove(filepath.Join(outDir(), "hang.json"))
	go func() {
		last, since := int64(-1), time.Now()
		for {
			select {
			case <-h.stop:
				return
			case <-time.After(500 * time.Millisecond):
			}
			if n := h.n.Load(); n != last {
				last, since = n, time.Now()
			} else if time.Since(since) > limit {
				writeMeta("hang.json", map[string]any{"driver": driver, "seconds": int(limit.Seconds()), "at": h.at.Load(), "progress": n})
				os.Exit(7)
			}
		}
	}()
	return h
}

func (h *hangWatch) tick(at any) {
	if at != nil {
		h.at.Store(at)
	}
	h.n.Add(1)
}
