package h

// Driver for spec/dv/DVAdvert.tla (C18, stage adv): the advertisement exchange as the daemon really does it.
// Two real dv.Routers -- publisher P (/net/b) and receiver R (/net/a) -- on real engines (real timer under the
// bubble's clock). The harness is the network between their faces: Sync Interests of P, fetch Interests of R and
// advertisement Data of P are captured and delivered later, out of order, more than once or never. R's queued
// ribUpdate goroutines are parked at the gate in front of the router mutex and released by the schedule, so that the
// dead-neighbour check can overtake them. P's table is changed through its own ribUpdate (an advertisement of a third
// router Z is handed to it), which makes P announce a new sequence number by itself.
//
// content version k <-> P reaches destination /net/d at cost advCosts[k-1]+1 (distinct values, not monotone).

import (
	"encoding/json"
	"math/rand"
	"sort"
	"sync"
	"testing"
	"testing/synctest"
	"time"

	"github.com/named-data/ndnd/dv/config"
	"github.com/named-data/ndnd/dv/dv"
	"github.com/named-data/ndnd/dv/table"
	"github.com/named-data/ndnd/dv/tlv"
	enc "github.com/named-data/ndnd/std/encoding"
	basic_engine "github.com/named-data/ndnd/std/engine/basic"
	"github.com/named-data/ndnd/std/engine/dummy"
	"github.com/named-data/ndnd/std/ndn"
	spec "github.com/named-data/ndnd/std/ndn/spec_2022"
	svs_2024 "github.com/named-data/ndnd/std/ndn/svs_2024"
	sec "github.com/named-data/ndnd/std/security"
	"github.com/named-data/ndnd/std/utils"
)

var advCosts = []uint64{3, 7, 2, 9, 5, 11, 4, 8, 6, 10, 1, 12}

type advNode struct {
	r    *dv.Router
	face *dummy.DummyFace
	cfg  *config.Config
}

func mkAdvNode(name string) *advNode {
	face := dummy.NewDummyFace()
	timer := basic_engine.NewTimer()
	eng := basic_engine.NewEngine(face, timer, sec.NewSha256IntSigner(timer), func(enc.Name, enc.Wire, ndn.Signature) bool { return true })
	eng.Start()
	cfg := config.DefaultConfig()
	cfg.Network = "/net"
	cfg.Router = name
	r, err := dv.NewRouter(cfg, eng)
	if err != nil {
		panic(err)
	}
	r.VerifInitSelf()
	if err := r.VerifRegister(); err != nil {
		panic(err)
	}
	return &advNode{r, face, cfg}
}

type advAct struct {
	Ev   string `json:"ev"`
	S    int    `json:"s,omitempty"`    // rsync / preply: relative sequence number
	Face int    `json:"face,omitempty"` // rsync: the face the Sync Interest comes in on (7 or 8)
	Pasv bool   `json:"pasv,omitempty"` // rsync: under the passive sync prefix
	Pick int    `json:"pick,omitempty"` // rdata: index into the pool of captured Data; rrib: index into the parked list
}

type advData struct {
	s, c int
	born time.Time
	wire []byte
}

type advParked struct {
	ns *table.NeighborState
	ch chan struct{}
}

func advExec(t *testing.T, w *traceWriter, next func(i int, x *advX) (advAct, bool)) (events int) {
	synctest.Test(t, func(t *testing.T) {
		P, R := mkAdvNode("/net/b"), mkAdvNode("/net/a")
		x := &advX{P: P, R: R, w: w, syncs: map[int][]byte{}, syncsP: map[int][]byte{}, nroutes: map[string]map[uint64]bool{}, fetches: map[int][][]byte{}, gen: map[*table.NeighborState]int{}}
		x.base = P.r.VerifAdvertSeq()
		dv.VerifGateHook = func(r *dv.Router, site string, arg any) {
			if r != R.r || site != "ribUpdate" {
				return
			}
			p := &advParked{ns: arg.(*table.NeighborState), ch: make(chan struct{})}
			x.mu.Lock()
			x.parked = append(x.parked, p)
			x.mu.Unlock()
			<-p.ch
		}
		defer func() { dv.VerifGateHook = nil }()
		w.Emit(map[string]any{"ev": "Reset"})
		for i := 0; ; i++ {
			a, ok := next(i, x)
			if !ok {
				break
			}
			x.step(a)
		}
		events = x.events
		// wind down: release what is parked, let P fall silent until R drops it (its fetch retries stop with the neighbour)
		for len(x.parked) > 0 {
			x.release(0)
		}
		time.Sleep(40 * time.Second)
		synctest.Wait()
		R.r.VerifDeadCheck()
		synctest.Wait()
		for len(x.parked) > 0 {
			x.release(0)
		}
		time.Sleep(10 * time.Second)
		synctest.Wait()
		for len(x.parked) > 0 {
			x.release(0)
		}
	})
	return
}

type advX struct {
	P, R    *advNode
	w       *traceWriter
	mu      sync.Mutex
	base    uint64
	pcont   int
	syncs   map[int][]byte             // relative seq -> a Sync Interest of P announcing it (active prefix)
	syncsP  map[int][]byte             // the same under the passive prefix
	nroutes map[string]map[uint64]bool // the neighbour's routes in R's forwarder, from R's register / unregister commands
	fetches map[int][][]byte           // relative seq -> fetch Interests of R captured
	datas   []advData
	parked  []*advParked
	gen     map[*table.NeighborState]int
	events  int
	curAct  *advAct
}

func (x *advX) rel(s uint64) int { return int(int64(s) - int64(x.base)) }

func (x *advX) nparked() int {
	x.mu.Lock()
	defer x.mu.Unlock()
	return len(x.parked)
}

func (x *advX) release(i int) *advParked {
	x.mu.Lock()
	p := x.parked[i]
	x.parked = append(x.parked[:i], x.parked[i+1:]...)
	x.mu.Unlock()
	close(p.ch)
	synctest.Wait()
	time.Sleep(time.Millisecond)
	synctest.Wait()
	return p
}

var advD = "/net/d"

func versionOfCost(c uint64, add uint64) int {
	for k, v := range advCosts {
		if v+add == c {
			return k + 1
		}
	}
	return -1
}

// obs: what R holds for P
func (x *advX) obs() map[string]any {
	o := map[string]any{"nbr": false, "aseq": 0, "advc": 0, "applied": 0, "parked": x.nparked()}
	if ns := x.R.r.VerifNeighbors().Get(nm("/net/b")); ns != nil {
		o["nbr"] = true
		o["aseq"] = x.rel(ns.AdvertSeq)
		if _, ok := x.gen[ns]; !ok {
			x.gen[ns] = len(x.gen) + 1
		}
		if ns.Advert != nil {
			o["advc"] = -1
			for _, e := range ns.Advert.Entries {
				if e.Destination != nil && e.Destination.Name.Equal(nm(advD)) {
					o["advc"] = versionOfCost(e.Cost, 0)
				}
			}
		}
	}
	for _, e := range x.R.r.VerifAdvert().Entries {
		if e.Destination != nil && e.Destination.Name.Equal(nm(advD)) {
			o["applied"] = versionOfCost(e.Cost, 1)
		}
	}
	return o
}

// replays R's management commands for the three names that lead to the neighbour
func (x *advX) replayCmds() [][]any {
	kinds := map[string]string{
		"/localhop/net/b/32=DV":                           "adv",
		x.R.cfg.AdvertisementSyncPassivePrefix().String(): "sync",
		x.R.cfg.PrefixTableSyncPrefix().String():          "pfx",
		"/net/d/32=DV":                                    "dst", // the route the installer holds for the destination P advertises
	}
	for _, c := range x.R.r.VerifDrainCmds() {
		if c.Module != "rib" || c.Args == nil || c.Args.Name == nil || c.Args.FaceId == nil {
			continue
		}
		k, ok := kinds[c.Args.Name.String()]
		if !ok {
			continue
		}
		if x.nroutes[k] == nil {
			x.nroutes[k] = map[uint64]bool{}
		}
		if c.Cmd == "register" {
			x.nroutes[k][*c.Args.FaceId] = true
		} else if c.Cmd == "unregister" {
			delete(x.nroutes[k], *c.Args.FaceId)
		}
	}
	out := [][]any{}
	for _, k := range []string{"adv", "dst", "pfx", "sync"} {
		fs := []int{}
		for f := range x.nroutes[k] {
			fs = append(fs, int(f))
		}
		sort.Ints(fs)
		for _, f := range fs {
			out = append(out, []any{k, f})
		}
	}
	return out
}

func (x *advX) emit(row map[string]any) {
	o := x.obs()
	o["nroutes"] = x.replayCmds()
	row["obs"] = o
	if x.curAct != nil { // the action that produced this row (first row only): what a replay needs
		row["act"] = *x.curAct
		x.curAct = nil
	}
	x.w.Emit(row)
	x.events++
	x.P.r.VerifDrainCmds()
}

// collect drains both faces: Sync Interests and Data of P, fetch Interests of R (returned: the numbers fetched anew)
func (x *advX) collect() (fetched []int) {
	for {
		b, err := x.P.face.Consume()
		if err != nil {
			break
		}
		p, _, perr := spec.ReadPacket(enc.NewBufferReader(b))
		if perr != nil {
			continue
		}
		switch {
		case p.Interest != nil && (x.P.cfg.AdvertisementSyncActivePrefix().IsPrefix(p.Interest.NameV) || x.P.cfg.AdvertisementSyncPassivePrefix().IsPrefix(p.Interest.NameV)):
			if sv, err := svs_2024.ParseStateVectorAppParam(enc.NewWireReader(p.Interest.ApplicationParameters), true); err == nil && sv.StateVector != nil && len(sv.StateVector.Entries) == 1 {
				if x.P.cfg.AdvertisementSyncActivePrefix().IsPrefix(p.Interest.NameV) {
					x.syncs[x.rel(sv.StateVector.Entries[0].SeqNo)] = append([]byte(nil), b...)
				} else {
					x.syncsP[x.rel(sv.StateVector.Entries[0].SeqNo)] = append([]byte(nil), b...)
				}
			}
		case p.Data != nil && x.P.cfg.AdvertisementDataPrefix().IsPrefix(p.Data.NameV):
			n := p.Data.NameV
			s := x.rel(n[len(n)-1].NumberVal())
			c := 0
			if adv, err := tlv.ParseAdvertisement(enc.NewBufferReader(p.Data.ContentV.Join()), false); err == nil {
				for _, e := range adv.Entries {
					if e.Destination != nil && e.Destination.Name.Equal(nm(advD)) {
						c = versionOfCost(e.Cost, 0)
					}
				}
			}
			x.datas = append(x.datas, advData{s, c, time.Now(), append([]byte(nil), b...)})
		}
	}
	for {
		b, err := x.R.face.Consume()
		if err != nil {
			break
		}
		p, _, perr := spec.ReadPacket(enc.NewBufferReader(b))
		if perr != nil || p.Interest == nil {
			continue
		}
		if x.P.cfg.AdvertisementDataPrefix().IsPrefix(p.Interest.NameV) {
			n := p.Interest.NameV
			s := x.rel(n[len(n)-1].NumberVal())
			x.fetches[s] = append(x.fetches[s], append([]byte(nil), b...))
			fetched = append(fetched, s)
		}
	}
	return
}

func (x *advX) settleWait() {
	synctest.Wait()
	time.Sleep(time.Millisecond)
	synctest.Wait()
}

// logs the fetch Interests that appeared without a Sync Interest having asked for them (retries after a timeout)
func (x *advX) logRetries(fetched []int, except int) {
	for _, s := range fetched {
		if s != except {
			x.emit(map[string]any{"ev": "rfetch", "s": s, "sent": true})
		}
	}
}

func (x *advX) step(a advAct) {
	x.curAct = &a
	switch a.Ev {
	case "pchange":
		if x.pcont >= len(advCosts) {
			return
		}
		x.pcont++
		adv := &tlv.Advertisement{Entries: []*tlv.AdvEntry{{Destination: &tlv.Destination{Name: nm(advD)}, NextHop: &tlv.Destination{Name: nm("/net/z")},
			Cost: advCosts[x.pcont-1] - 1, OtherCost: 16}}}
		x.P.r.VerifFetch(nm("/net/z"), 99, adv)
		x.settleWait()
		x.logRetries(x.collect(), -999)
		x.emit(map[string]any{"ev": "pchange", "pseq": x.rel(x.P.r.VerifAdvertSeq()), "pcont": x.pcont})
	case "pbeat":
		x.P.r.VerifSendSync()
		x.settleWait()
		x.logRetries(x.collect(), -999)
		x.emit(map[string]any{"ev": "pbeat", "pseq": x.rel(x.P.r.VerifAdvertSeq()), "pcont": x.pcont})
	case "rsync":
		wire, ok := x.syncs[a.S]
		if a.Pasv {
			wire, ok = x.syncsP[a.S]
		}
		if !ok {
			return
		}
		if a.Face == 0 {
			a.Face = 7
		}
		lp := &spec.Packet{LpPacket: &spec.LpPacket{IncomingFaceId: utils.IdPtr(uint64(a.Face)), Fragment: enc.Wire{wire}}}
		pe := spec.PacketEncoder{}
		pe.Init(lp)
		x.R.face.FeedPacket(pe.Encode(lp).Join())
		synctest.Wait()
		x.emit(map[string]any{"ev": "rsync", "s": a.S, "face": a.Face, "active": !a.Pasv})
		time.Sleep(12 * time.Millisecond) // the debounce of advertDataFetch
		synctest.Wait()
		fetched := x.collect()
		sent := false
		for _, s := range fetched {
			if s == a.S {
				sent = true
			}
		}
		x.emit(map[string]any{"ev": "rfetch", "s": a.S, "sent": sent})
		x.logRetries(fetched, a.S)
	case "preply":
		ws := x.fetches[a.S]
		if len(ws) == 0 {
			return
		}
		x.P.face.FeedPacket(ws[len(ws)-1])
		x.settleWait()
		x.logRetries(x.collect(), -999)
		x.emit(map[string]any{"ev": "preply", "s": a.S})
	case "rdata":
		if len(x.datas) == 0 {
			return
		}
		d := x.datas[a.Pick%len(x.datas)]
		if time.Since(d.born) > 9*time.Second { // fetches are MustBeFresh and the Data is fresh for 10 s: the network has nothing older
			return
		}
		before := x.nparked()
		x.R.face.FeedPacket(d.wire)
		x.settleWait()
		fetched := x.collect()
		x.emit(map[string]any{"ev": "rdata", "s": d.s, "c": d.c, "n": x.nparked() - before})
		x.logRetries(fetched, -999)
	case "rrib":
		if x.nparked() == 0 {
			return
		}
		p := x.release(a.Pick % x.nparked())
		g, ok := x.gen[p.ns]
		if !ok {
			g = -1
		}
		fetched := x.collect()
		x.emit(map[string]any{"ev": "rrib", "g": g})
		x.logRetries(fetched, -999)
	case "rdead":
		had := x.R.r.VerifNeighbors().Get(nm("/net/b")) != nil
		x.R.r.VerifDeadCheck()
		x.settleWait()
		fetched := x.collect()
		x.emit(map[string]any{"ev": "rdead", "removed": had && x.R.r.VerifNeighbors().Get(nm("/net/b")) == nil})
		x.logRetries(fetched, -999)
	case "tick":
		time.Sleep(time.Second)
		synctest.Wait()
		fetched := x.collect()
		x.emit(map[string]any{"ev": "tick"})
		x.logRetries(fetched, -999)
	case "settled":
		x.emit(map[string]any{"ev": "settled"})
	}
}

func genAdvAct(rng *rand.Rand, x *advX) advAct {
	maxS := x.rel(x.P.r.VerifAdvertSeq())
	pickS := func() int {
		if maxS <= 1 || rng.Intn(2) == 0 {
			return maxS
		}
		return 1 + rng.Intn(maxS)
	}
	switch k := rng.Intn(100); {
	case k < 10:
		return advAct{Ev: "pchange"}
	case k < 16:
		return advAct{Ev: "pbeat"}
	case k < 34:
		return advAct{Ev: "rsync", S: pickS(), Face: []int{7, 7, 7, 8}[rng.Intn(4)], Pasv: rng.Intn(4) == 0}
	case k < 50:
		return advAct{Ev: "preply", S: pickS()}
	case k < 70:
		return advAct{Ev: "rdata", Pick: rng.Intn(1000)}
	case k < 86:
		return advAct{Ev: "rrib", Pick: rng.Intn(1000)}
	case k < 90:
		return advAct{Ev: "rdead"}
	default:
		return advAct{Ev: "tick"}
	}
}

// runs one seeded execution followed by lossless settle rounds and the `settled` row
func advRun(t *testing.T, w *traceWriter, acts []advAct, rng *rand.Rand, length int) int {
	phase, round := 0, 0
	var queue []advAct
	return advExec(t, w, func(i int, x *advX) (advAct, bool) {
		if acts != nil { // replay
			if i < len(acts) {
				return acts[i], true
			}
			return advAct{}, false
		}
		if i == 0 {
			return advAct{Ev: "pchange"}, true
		}
		if i < length {
			a := genAdvAct(rng, x)
			if a.Ev == "rdead" && phase == 0 && rng.Intn(3) > 0 && x.R.r.VerifNeighbors().Get(nm("/net/b")) != nil { // mostly after a long silence, so that it bites
				queue = nil
				for k := 0; k < 31; k++ {
					queue = append(queue, advAct{Ev: "tick"})
				}
				queue = append(queue, a)
				phase = -1
			}
			if phase == -1 && len(queue) > 0 {
				a = queue[0]
				queue = queue[1:]
				if len(queue) == 0 {
					phase = 0
				}
			}
			return a, true
		}
		// settle: beat, deliver the latest number, answer every fetch of it with the newest Data, run what is queued
		if len(queue) == 0 {
			if round >= 8 {
				return advAct{}, false
			}
			round++
			maxS := x.rel(x.P.r.VerifAdvertSeq())
			queue = []advAct{{Ev: "pbeat"}, {Ev: "rsync", S: maxS}, {Ev: "preply", S: maxS}, {Ev: "rdata", Pick: 1 << 20}}
			for k := 0; k < 6; k++ {
				queue = append(queue, advAct{Ev: "rrib", Pick: 0})
			}
			if round == 8 {
				queue = append(queue, advAct{Ev: "settled"})
			}
		}
		a := queue[0]
		queue = queue[1:]
		if a.Ev == "rdata" && a.Pick == 1<<20 { // the newest Data captured
			a.Pick = len(x.datas) - 1
			if a.Pick < 0 {
				a.Pick = 0
			}
		}
		return a, true
	})
}

func TestDvAdvGen(t *testing.T) {
	defer watchDriver("TestDvAdvGen")()
	w := newTrace("dvadv.ndjson")
	defer w.Close()
	n, length := envInt("VERIF_N", 60), envInt("VERIF_LEN", 60)
	total := 0
	for e := 0; e < n; e++ {
		rng := rand.New(rand.NewSource(verifSeed()*9176 + int64(e)))
		total += advRun(t, w, nil, rng, length)
	}
	writeMeta("dvadv.meta.json", map[string]any{"executions": n, "events": total})
}

// TestDvAdvReplay re-executes the actions recorded in a saved segment ($VERIF_REPLAY)
func TestDvAdvReplay(t *testing.T) {
	defer watchDriver("TestDvAdvReplay")()
	w := newTrace("dvadv_replay.ndjson")
	defer w.Close()
	var acts []advAct
	readNdjson(envStr("VERIF_REPLAY", ""), func(line []byte) {
		var r struct {
			Act *advAct `json:"act"`
		}
		if json.Unmarshal(line, &r) == nil && r.Act != nil {
			acts = append(acts, *r.Act)
		}
	})
	advRun(t, w, acts, nil, 0)
}
