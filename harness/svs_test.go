package h

// State Vector Sync conformance driver (spec/sync/SvSync.tla; supporting stage of C19: the routing daemon's prefix log
// is announced through SvSync). N real SvSync instances on real basic.Engines over dummy faces in one synctest bubble;
// the harness is the network: it collects every Sync Interest a node emits and delivers any of them, at any time, any
// number of times, to any other node, or never. After every event every node's vector, the updates its application
// callback received and the vectors it sent are logged.

import (
	"fmt"
	"math/rand"
	"testing"
	"testing/synctest"
	"time"

	enc "github.com/named-data/ndnd/std/encoding"
	basic_engine "github.com/named-data/ndnd/std/engine/basic"
	"github.com/named-data/ndnd/std/engine/dummy"
	"github.com/named-data/ndnd/std/log"
	"github.com/named-data/ndnd/std/ndn"
	spec "github.com/named-data/ndnd/std/ndn/spec_2022"
	svs "github.com/named-data/ndnd/std/ndn/svs_2024"
	sec "github.com/named-data/ndnd/std/security"
	ndn_sync "github.com/named-data/ndnd/std/sync"
)

type svsNode struct {
	id   int
	name enc.Name
	face *dummy.DummyFace
	eng  *basic_engine.Engine
	sv   *ndn_sync.SvSync
	upd  []map[string]any
}

type svsMsg struct {
	src  int
	wire enc.Buffer
	vec  []int
}

func TestSvsGen(t *testing.T) {
	defer watchDriver("TestSvsGen")()
	log.SetLevel(log.FatalLevel)
	w := newTrace("svs.ndjson")
	defer w.Close()
	nEx, nEv := envInt("VERIF_N", 30), envInt("VERIF_LEN", 40)
	total := 0
	for tr := 0; tr < nEx; tr++ {
		rng := rand.New(rand.NewSource(verifSeed()*4409 + int64(tr)))
		N := 2 + tr%2
		synctest.Test(t, func(t *testing.T) {
			nodes := make([]*svsNode, N)
			names := make([]enc.Name, N)
			for i := range nodes {
				names[i] = nm(fmt.Sprintf("/n%d", i+1))
			}
			for i := range nodes {
				n := &svsNode{id: i + 1, name: names[i], face: dummy.NewDummyFace()}
				timer := basic_engine.NewTimer()
				n.eng = basic_engine.NewEngine(n.face, timer, sec.NewSha256IntSigner(timer), func(enc.Name, enc.Wire, ndn.Signature) bool { return true })
				n.eng.Start()
				n.sv = ndn_sync.NewSvSync(n.eng, nm("/sync"), func(u ndn_sync.SvSyncUpdate) {
					m := 0
					for j, x := range names {
						if x.Equal(u.NodeId) {
							m = j + 1
						}
					}
					n.upd = append(n.upd, map[string]any{"m": m, "lo": u.Low, "hi": u.High})
				})
				if err := n.sv.Start(); err != nil {
					panic(err)
				}
				nodes[i] = n
			}
			synctest.Wait()
			var msgs []svsMsg
			// collect what the nodes emitted since the last call
			collect := func() []map[string]any {
				sent := []map[string]any{}
				for _, n := range nodes {
					for {
						b, err := n.face.Consume()
						if err != nil {
							break
						}
						p, _, err := spec.ReadPacket(enc.NewBufferReader(b))
						if err != nil || p.Interest == nil || p.Interest.ApplicationParameters == nil {
							continue // route registration commands of the engine etc.
						}
						par, err := svs.ParseStateVectorAppParam(enc.NewWireReader(p.Interest.ApplicationParameters), false)
						if err != nil || par.StateVector == nil {
							continue
						}
						vec := make([]int, N)
						for _, e := range par.StateVector.Entries {
							for j, x := range names {
								if x.Equal(e.NodeId) {
									vec[j] = int(e.SeqNo)
								}
							}
						}
						msgs = append(msgs, svsMsg{src: n.id, wire: b, vec: vec})
						sent = append(sent, map[string]any{"src": n.id, "v": vec})
					}
				}
				return sent
			}
			observe := func(row map[string]any) {
				synctest.Wait()
				row["sent"] = collect()
				vs := [][]int{}
				us := [][]map[string]any{}
				for _, n := range nodes {
					v := make([]int, N)
					for j, x := range names {
						v[j] = int(n.sv.GetSeqNo(x))
					}
					vs = append(vs, v)
					if n.upd == nil {
						n.upd = []map[string]any{}
					}
					us = append(us, n.upd)
					n.upd = nil
				}
				row["sv"], row["upd"] = vs, us
				w.Emit(row)
				total++
			}
			observe(map[string]any{"ev": "Reset", "n": N})
			sleep := func(ms int) { time.Sleep(time.Duration(ms) * time.Millisecond) }
			latest := func(src int) *svsMsg {
				for i := len(msgs) - 1; i >= 0; i-- {
					if msgs[i].src == src {
						return &msgs[i]
					}
				}
				return nil
			}
			for e := 0; e < nEv; e++ {
				switch k := rng.Intn(10); {
				case k < 2:
					n := nodes[rng.Intn(N)]
					if rng.Intn(4) == 0 { // a jump, as the routing daemon makes when it starts (SetSeqNo)
						to := n.sv.GetSeqNo(n.name) + 1 + uint64(rng.Intn(3))
						if err := n.sv.SetSeqNo(n.name, to); err != nil {
							panic(err)
						}
						observe(map[string]any{"ev": "pub", "node": n.id, "to": to})
					} else {
						to := n.sv.IncrSeqNo(n.name)
						observe(map[string]any{"ev": "pub", "node": n.id, "to": to})
					}
				case k < 7 && len(msgs) > 0:
					// any message ever sent, the recent ones more often; to any node but its sender
					i := len(msgs) - 1 - rng.Intn(min(len(msgs), 1+rng.Intn(6)))
					m := msgs[i]
					dst := nodes[rng.Intn(N)]
					if dst.id == m.src {
						dst = nodes[(dst.id)%N]
					}
					dst.face.FeedPacket(m.wire)
					observe(map[string]any{"ev": "dlv", "src": m.src, "dst": dst.id, "v": m.vec})
				default:
					dt := []int{20, 50, 150, 250, 1000, 34000}[rng.Intn(6)]
					sleep(dt)
					observe(map[string]any{"ev": "adv", "dt": dt})
				}
			}
			// suppression probes (the state the SVS text calls Suppression State)
			// (1) a quiet node that hears an outdated vector answers within one SuppressionPeriod
			sleep(1000)
			observe(map[string]any{"ev": "adv", "dt": 1000})
			a, b := nodes[0], nodes[1]
			observe(map[string]any{"ev": "pub", "node": a.id, "to": a.sv.IncrSeqNo(a.name)})
			if old := latest(b.id); old != nil && old.vec[0] < int(a.sv.GetSeqNo(a.name)) {
				sleep(1000)
				observe(map[string]any{"ev": "adv", "dt": 1000})
				a.face.FeedPacket(old.wire)
				observe(map[string]any{"ev": "dlv", "src": old.src, "dst": a.id, "v": old.vec})
				sleep(250)
				row := map[string]any{"ev": "adv", "dt": 250, "probe": "outdated-quiet", "who": a.id}
				observe(row)
				// (2) the same, but somebody else's up-to-date vector is heard during the interval: stay silent
				if up := latest(a.id); up != nil {
					sleep(1000)
					observe(map[string]any{"ev": "adv", "dt": 1000})
					a.face.FeedPacket(old.wire)
					observe(map[string]any{"ev": "dlv", "src": old.src, "dst": a.id, "v": old.vec})
					// a copy of a's own latest vector relayed by a third party (same content, other sender)
					a.face.FeedPacket(up.wire)
					observe(map[string]any{"ev": "dlv", "src": b.id, "dst": a.id, "v": up.vec, "relay": true})
					sleep(250)
					observe(map[string]any{"ev": "adv", "dt": 250, "probe": "outdated-covered", "who": a.id})
					// (3) what is heard during the interval is newer than the outdated vector but still one publication
					// behind: the node must speak up at the end of the interval
					observe(map[string]any{"ev": "pub", "node": a.id, "to": a.sv.IncrSeqNo(a.name)})
					lag := latest(a.id) // a's vector before its next publication
					observe(map[string]any{"ev": "pub", "node": a.id, "to": a.sv.IncrSeqNo(a.name)})
					sleep(1000)
					observe(map[string]any{"ev": "adv", "dt": 1000})
					a.face.FeedPacket(old.wire)
					observe(map[string]any{"ev": "dlv", "src": old.src, "dst": a.id, "v": old.vec})
					a.face.FeedPacket(lag.wire)
					observe(map[string]any{"ev": "dlv", "src": b.id, "dst": a.id, "v": lag.vec, "relay": true})
					sleep(250)
					observe(map[string]any{"ev": "adv", "dt": 250, "probe": "outdated-partly-covered", "who": a.id})
				}
			}
			// settle: three lossless rounds, each node's latest vector to everybody, a periodic interval in between
			for r := 0; r < 3; r++ {
				sleep(34000)
				observe(map[string]any{"ev": "adv", "dt": 34000})
				for _, n := range nodes {
					if m := latest(n.id); m != nil {
						for _, d := range nodes {
							if d.id != n.id {
								d.face.FeedPacket(m.wire)
								observe(map[string]any{"ev": "dlv", "src": m.src, "dst": d.id, "v": m.vec})
							}
						}
					}
				}
			}
			observe(map[string]any{"ev": "settle"})
			for _, n := range nodes {
				n.sv.Stop()
				n.eng.Stop()
			}
		})
	}
	writeMeta("svs.meta.json", map[string]any{"executions": nEx, "events": total})
}
