package h

// Whole-node driver (spec/forwarder/Node.tla): NT real forwarding threads in loop mode behind the real dispatch of
// the link services. Packets enter as NDNLPv2 frames through handleIncomingFrame of real NDNLPLinkServices over
// in-memory transports (decode, PIT-token extraction, dispatchInterest / dispatchData, thread queues, strategies,
// send queues, link-service encoding); everything the node emits is read back from the transports. The threads a
// packet was queued to are recorded by thin wrappers registered with fw/dispatch.
//
// Time: one tick = 1 s of bubble time; Interest lifetimes are Life + 0.5 s and all packets of a tick are injected
// within its first 0.45 s, so whether an in-record is alive at a step never depends on sub-tick order.

import (
	"bytes"
	"encoding/binary"
	"encoding/json"
	"fmt"
	"math/rand"
	"testing"
	"testing/synctest"
	"time"

	"github.com/named-data/ndnd/fw/core"
	"github.com/named-data/ndnd/fw/defn"
	"github.com/named-data/ndnd/fw/dispatch"
	"github.com/named-data/ndnd/fw/face"
	"github.com/named-data/ndnd/fw/fw"
	"github.com/named-data/ndnd/fw/table"
	enc "github.com/named-data/ndnd/std/encoding"
	"github.com/named-data/ndnd/std/ndn"
	spec "github.com/named-data/ndnd/std/ndn/spec_2022"
	sec "github.com/named-data/ndnd/std/security"
	"github.com/named-data/ndnd/std/utils"
)

const nodeLife = 2 // ticks (model constant Life)

type nodeAct struct {
	Ev   string   `json:"ev"`
	F    int      `json:"f,omitempty"`
	N    []string `json:"n,omitempty"`
	Cbp  bool     `json:"cbp,omitempty"`
	Tk   string   `json:"tk,omitempty"` // Data: "none" | "echo" (token of the latest Interest sent to face F) | "any" (some live token) | "badthr" | "foreign"
	Pick int      `json:"pick,omitempty"`
}

// nodeThread records which thread a packet is queued to and passes it on to the real thread
type nodeThread struct {
	*fw.Thread
	id  int
	log *[]int
}

func (r *nodeThread) QueueData(p *defn.Pkt)     { *r.log = append(*r.log, r.id); r.Thread.QueueData(p) }
func (r *nodeThread) QueueInterest(p *defn.Pkt) { *r.log = append(*r.log, r.id); r.Thread.QueueInterest(p) }

type nodeFace struct {
	idx int // logical face number 1..5 (1,2 local)
	ls  *face.NDNLPLinkService
	tx  *face.VerifMemTransport
}

type nodeConf struct {
	NT    int    `json:"nt"`
	Algo  string `json:"algo"`
	Strat string `json:"strat"`
	Fib   int    `json:"fib"`
}

type tokKey struct {
	thr int
	tok uint32
}

func nodeLpFrame(raw []byte, tok []byte) []byte {
	lp := &spec.LpPacket{Fragment: enc.Wire{raw}}
	if tok != nil {
		lp.PitToken = tok
	}
	p := &spec.Packet{LpPacket: lp}
	pe := spec.PacketEncoder{}
	pe.Init(p)
	return pe.Encode(p).Join()
}

// nodeExec runs one execution; next returns the i-th action (ok=false: stop)
func nodeExec(t *testing.T, w *traceWriter, conf nodeConf, next func(i int) (nodeAct, bool)) (events int) {
	synctest.Test(t, func(t *testing.T) {
		cfg := core.DefaultConfig()
		cfg.Core.LogLevel = "FATAL"
		cfg.Tables.Rib.ReadvertiseNlsr = false
		cfg.Fw.Threads = conf.NT
		core.LoadConfig(cfg, "")
		core.InitializeLogger("")
		core.ShouldQuit = false
		face.Configure()
		table.Configure()
		fw.Configure()
		table.CreateFIBTable(conf.Algo)
		table.VerifResetRib()
		crashed := ""
		guard := func(what string, f func()) {
			defer func() {
				if r := recover(); r != nil {
					crashed = what + ": " + fmt.Sprint(r)
				}
			}()
			f()
		}
		var qlog []int
		threads := make([]*fw.Thread, conf.NT)
		disp := make([]dispatch.FWThread, conf.NT)
		for i := range threads {
			threads[i] = fw.NewThread(i)
			disp[i] = &nodeThread{threads[i], i, &qlog}
		}
		fw.Threads = threads
		dispatch.InitializeFWThreads(disp)
		for i := range threads {
			th := threads[i]
			go guard(fmt.Sprint("fw", i), func() { th.Run() })
		}
		faces := map[int]*nodeFace{}
		byID := map[uint64]int{}
		for idx := 1; idx <= 5; idx++ {
			scope := defn.NonLocal
			l, r := defn.MakeUDPFaceURI(4, "10.0.0.1", 6363), defn.MakeUDPFaceURI(4, "10.0.0.2", uint16(7000+idx))
			if idx <= 2 {
				scope = defn.Local
				l, r = defn.MakeUnixFaceURI("/run/nfd.sock"), defn.MakeFDFaceURI(10+idx)
			}
			tx := face.NewVerifMemTransportURI(l, r, scope, 8800)
			ls := face.VerifMakeLinkService(tx, face.MakeNDNLPLinkServiceOptions())
			ls.Run(nil)
			faces[idx] = &nodeFace{idx, ls, tx}
			byID[ls.FaceID()] = idx
		}
		synctest.Wait()
		id := func(idx int) uint64 { return faces[idx].ls.FaceID() }
		// routes: a few fixed layouts (which faces a strategy picks is Forwarder.tla's business; here they only
		// have to make Interests leave on several faces and threads)
		fibs := [][]struct {
			p    string
			f, c int
		}{
			{{"/a", 3, 10}, {"/a", 4, 10}, {"/", 5, 5}, {"/a/b", 2, 1}},
			{{"/", 4, 1}, {"/a", 2, 3}},
			{{"/a", 3, 1}, {"/a/b", 4, 1}, {"/a/b/c", 5, 1}, {"/", 2, 9}},
			{},
		}
		for _, h := range fibs[conf.Fib%len(fibs)] {
			table.FibStrategyTable.InsertNextHopEnc(nm(h.p), id(h.f), uint64(h.c))
		}
		table.FibStrategyTable.InsertNextHopEnc(nm("/localhost/x"), id(2), 1)
		if conf.Strat == "multicast" {
			table.FibStrategyTable.SetStrategyEnc(nm("/a"), nm("/localhost/nfd/strategy/multicast/v=1"))
		}
		w.Emit(map[string]any{"ev": "Reset", "g": conf, "nt": conf.NT})

		tokIDs := map[tokKey]int{}
		tokID := func(thr int, tok uint32) int {
			k := tokKey{thr, tok}
			if v, ok := tokIDs[k]; ok {
				return v
			}
			tokIDs[k] = len(tokIDs) + 1
			return len(tokIDs)
		}
		lastTokOn := map[int][]byte{} // logical face -> PIT token of the latest Interest the node sent there
		var liveToks [][]byte
		nonce := uint64(1000)
		wireSeq := 0
		used := 0 // ms used in the current tick
		type outP struct {
			face int
			p    *spec.Packet
			tok  []byte
			raw  []byte
		}
		collect := func() (out []outP) {
			for idx := 1; idx <= 5; idx++ {
				f := faces[idx]
				for _, fr := range f.tx.Frames {
					p, _, err := spec.ReadPacket(enc.NewBufferReader(fr))
					if err != nil || p.LpPacket == nil {
						out = append(out, outP{face: idx}) // undecodable emission: shows up as a packet of no kind
						continue
					}
					raw := p.LpPacket.Fragment.Join()
					q, _, err := spec.ReadPacket(enc.NewBufferReader(raw))
					if err != nil {
						out = append(out, outP{face: idx})
						continue
					}
					out = append(out, outP{idx, q, append([]byte(nil), p.LpPacket.PitToken...), raw})
				}
				f.tx.Frames = nil
			}
			return
		}
		settle := func() {
			synctest.Wait()
			time.Sleep(10 * time.Millisecond)
			synctest.Wait()
			used += 10
		}
		dtokOf := func(b []byte) int { // downstream tokens are 2 bytes: face, sequence
			if len(b) == 2 {
				return int(b[0])*100 + int(b[1])
			}
			return -1
		}
		dseq := 0
		for i := 0; crashed == ""; i++ {
			a, ok := next(i)
			if !ok {
				break
			}
			if (a.Ev == "I" || a.Ev == "D") && used >= 440 {
				a = nodeAct{Ev: "T"}
			}
			row := map[string]any{"ev": a.Ev}
			switch a.Ev {
			case "I":
				nonce++
				dseq = dseq%90 + 1
				dt := []byte{byte(a.F), byte(dseq)}
				iw, err := spec.Spec{}.MakeInterest(nm(joinName(a.N)), &ndn.InterestConfig{CanBePrefix: a.Cbp, Nonce: utils.IdPtr(nonce),
					Lifetime: utils.IdPtr(time.Duration(nodeLife)*time.Second + 500*time.Millisecond)}, nil, nil)
				if err != nil {
					panic(err)
				}
				raw := iw.Wire.Join()
				qlog = nil
				face.VerifHandleFrame(faces[a.F].ls, nodeLpFrame(raw, dt))
				settle()
				thr := -1
				if len(qlog) == 1 {
					thr = qlog[0]
				} else if len(qlog) > 1 {
					thr = -2
				}
				etok := 0
				inrec := false
				if thr >= 0 {
					sh := threads[thr].VerifPitCS().(*table.PitCsTree).VerifShape()
					for _, en := range sh.Entries {
						if en.Name.Equal(nm(joinName(a.N))) && en.CanBePrefix == a.Cbp && !en.MustBeFresh && len(en.Hint) == 0 {
							etok = tokID(thr, en.Token)
							for _, g := range en.InFaces {
								if g == id(a.F) {
									inrec = true
								}
							}
						}
					}
				}
				up, D := []map[string]any{}, []map[string]any{}
				for _, o := range collect() {
					switch {
					case o.p != nil && o.p.Interest != nil:
						ut, uk := -1, 0
						if len(o.tok) == 6 {
							ut = int(binary.BigEndian.Uint16(o.tok))
							uk = tokID(ut, binary.BigEndian.Uint32(o.tok[2:]))
							lastTokOn[o.face] = o.tok
							liveToks = append(liveToks, o.tok)
						}
						same := o.p.Interest.NameV.Equal(nm(joinName(a.N))) && o.p.Interest.NonceV != nil && uint64(*o.p.Interest.NonceV) == nonce && o.p.Interest.CanBePrefixV == a.Cbp
						up = append(up, map[string]any{"face": o.face, "thr": ut, "tok": uk, "same": same})
					case o.p != nil && o.p.Data != nil:
						D = append(D, map[string]any{"face": o.face, "tok": dtokOf(o.tok), "same": true})
					default:
						up = append(up, map[string]any{"face": o.face, "thr": -9, "tok": 0, "same": false})
					}
				}
				if envInt("VERIF_NODE_DEBUG", 0) == 1 && thr >= 0 {
					sh := threads[thr].VerifPitCS().(*table.PitCsTree).VerifShape()
					for _, en := range sh.Entries {
						fmt.Println("DEBUG after I", a.N, a.Cbp, "entry", en.Name, en.CanBePrefix, en.MustBeFresh, en.Hint, en.Token, en.InFaces, en.Satisfied)
					}
				}
				row["i"] = map[string]any{"f": a.F, "n": a.N, "cbp": a.Cbp, "dtok": dtokOf(dt)}
				row["o"] = map[string]any{"thr": thr, "etok": etok, "inrec": inrec, "up": up, "D": D}
			case "D":
				wireSeq++
				dw, err := spec.Spec{}.MakeData(nm(joinName(a.N)), &ndn.DataConfig{Freshness: utils.IdPtr(time.Hour)},
					enc.Wire{[]byte(fmt.Sprint("payload", wireSeq))}, sec.NewSha256Signer())
				if err != nil {
					panic(err)
				}
				raw := dw.Wire.Join()
				var tok []byte
				switch a.Tk {
				case "echo":
					tok = lastTokOn[a.F]
				case "any":
					if len(liveToks) > 0 {
						tok = liveToks[a.Pick%len(liveToks)]
					}
				case "badthr":
					tok = []byte{0, byte(conf.NT), 0, 0, 0, 1}
				case "foreign":
					tok = []byte{1, 2, 3, 4}
				}
				tk := map[string]any{"thr": -1, "tok": -1}
				if len(tok) == 6 {
					tt := int(binary.BigEndian.Uint16(tok))
					tk = map[string]any{"thr": tt, "tok": tokID(tt, binary.BigEndian.Uint32(tok[2:]))}
				}
				qlog = nil
				face.VerifHandleFrame(faces[a.F].ls, nodeLpFrame(raw, tok))
				settle()
				T := append([]int{}, qlog...)
				D := []map[string]any{}
				nI := 0
				for _, o := range collect() {
					if o.p != nil && o.p.Data != nil {
						D = append(D, map[string]any{"face": o.face, "tok": dtokOf(o.tok), "same": bytes.Equal(o.raw, raw)})
					} else {
						nI++
					}
				}
				row["i"] = map[string]any{"f": a.F, "n": a.N, "tk": tk, "mode": a.Tk, "pick": a.Pick}
				row["o"] = map[string]any{"T": T, "D": D, "nI": nI}
			case "T":
				synctest.Wait()
				time.Sleep(time.Duration(1000-used) * time.Millisecond)
				synctest.Wait()
				used = 0
				liveToks = nil // (tokens older than a tick are still tried through "echo")
			case "Q":
				synctest.Wait()
				q := []int{}
				for _, th := range threads {
					q = append(q, th.GetNumPitEntries())
				}
				row["q"] = q
			}
			if crashed != "" {
				row = map[string]any{"ev": "P", "panic": crashed}
			}
			w.Emit(row)
			events++
		}
		// shutdown
		core.ShouldQuit = true
		for i, th := range threads {
			if crashed != fmt.Sprint("fw", i) && (len(crashed) < 3 || crashed[:3] != fmt.Sprint("fw", i)) {
				th.TellToQuit()
				<-th.HasQuit
			}
		}
		for _, f := range faces {
			f.ls.Close()
			synctest.Wait()
		}
		drained := make(chan struct{})
		for _, th := range threads {
			th := th
			go func() {
				for {
					select {
					case <-th.VerifPitCS().UpdateTimer():
					case <-drained:
						return
					}
				}
			}()
		}
		time.Sleep(time.Second)
		synctest.Wait()
		close(drained)
		for _, th := range threads {
			th.VerifDNL().Ticker.Stop()
		}
	})
	return
}

var nodeINames = [][]string{{"a"}, {"a", "b"}, {"a", "b", "c"}, {"d"}, {"localhost", "x"}, {}}
var nodeDNames = [][]string{{"a"}, {"a", "b"}, {"a", "b", "c"}, {"a", "b", "c", "e"}, {"d"}, {"d", "f"}, {"localhost", "x"}, {"localhost", "x", "y"}}

func nodeRandom(rng *rand.Rand, withRoot bool) nodeAct {
	switch k := rng.Intn(20); {
	case k < 9:
		n := nodeINames[rng.Intn(len(nodeINames))]
		for len(n) == 0 && !withRoot {
			n = nodeINames[rng.Intn(len(nodeINames))]
		}
		return nodeAct{Ev: "I", F: 1 + rng.Intn(5), N: n, Cbp: rng.Intn(2) == 0}
	case k < 17:
		modes := []string{"none", "none", "none", "echo", "echo", "echo", "any", "badthr", "foreign"}
		return nodeAct{Ev: "D", F: 1 + rng.Intn(5), N: nodeDNames[rng.Intn(len(nodeDNames))], Tk: modes[rng.Intn(len(modes))], Pick: rng.Intn(8)}
	default:
		return nodeAct{Ev: "T"}
	}
}

// TestNodeGen: seeded histories on nodes of 1..4 threads; every execution ends with Life+2 ticks and a Q row
func TestNodeGen(t *testing.T) {
	defer watchDriver("TestNodeGen")()
	w := newTrace("node_gen.ndjson")
	defer w.Close()
	n, length := envInt("VERIF_N", 60), envInt("VERIF_LEN", 50)
	withRoot := envInt("VERIF_NODE_ROOT", 0) == 1
	rng := rand.New(rand.NewSource(verifSeed()*7919 + 17))
	total := 0
	for e := 0; e < n; e++ {
		conf := nodeConf{NT: []int{1, 2, 3, 3, 4, 8}[e%6], Algo: []string{"nametree", "hashtable"}[(e/6)%2], Strat: []string{"best-route", "multicast"}[(e/3)%2], Fib: e % 4}
		total += nodeExec(t, w, conf, func(i int) (nodeAct, bool) {
			switch {
			case i < length:
				return nodeRandom(rng, withRoot), true
			case i < length+nodeLife+2:
				return nodeAct{Ev: "T"}, true
			case i == length+nodeLife+2:
				return nodeAct{Ev: "Q"}, true
			}
			return nodeAct{}, false
		})
	}
	writeMeta("node_gen.meta.json", map[string]any{"executions": n, "events": total})
}

// TestNodeReplay re-executes the inputs of a saved violation segment ($VERIF_REPLAY)
func TestNodeReplay(t *testing.T) {
	defer watchDriver("TestNodeReplay")()
	w := newTrace("node_replay.ndjson")
	defer w.Close()
	var conf nodeConf
	var acts []nodeAct
	readNdjson(envStr("VERIF_REPLAY", ""), func(line []byte) {
		var r struct {
			Ev string   `json:"ev"`
			G  nodeConf `json:"g"`
			I  struct {
				F    int            `json:"f"`
				N    []string       `json:"n"`
				Cbp  bool           `json:"cbp"`
				Mode string         `json:"mode"`
				Pick int            `json:"pick"`
				Tk   map[string]int `json:"tk"`
			} `json:"i"`
		}
		if json.Unmarshal(line, &r) != nil {
			return
		}
		switch r.Ev {
		case "Reset":
			conf = r.G
		case "I":
			acts = append(acts, nodeAct{Ev: "I", F: r.I.F, N: r.I.N, Cbp: r.I.Cbp})
		case "D":
			acts = append(acts, nodeAct{Ev: "D", F: r.I.F, N: r.I.N, Tk: r.I.Mode, Pick: r.I.Pick})
		default:
			acts = append(acts, nodeAct{Ev: r.Ev})
		}
	})
	if conf.NT == 0 {
		t.Fatal("no Reset row in replay file")
	}
	nodeExec(t, w, conf, func(i int) (nodeAct, bool) {
		if i < len(acts) {
			return acts[i], true
		}
		return nodeAct{}, false
	})
}
